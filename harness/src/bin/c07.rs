//! C07 — no bytes from the network or the signalling peer can crash, hang or bloat the stack.
//!
//! The binary is both the *direct oracle* (every network-facing entry point reachable through the
//! public API is called under `catch_unwind` with a process-wide panic hook, a per-call wall clock
//! bound and a counting allocator) and the *correspondence driver* (for the decoders modelled in
//! `coq/Model/Dec_*.v` the implementation's verdict Ok/Err/Panic and a digest of the decoded fields
//! are emitted as Gallina `case` terms for `Run/C07Run.v`).
//!
//! Streams per target: (a) all byte strings of length <= 2, (b) structured mostly-valid inputs
//! mutated at every length/count field (0, -1, +1, max) and truncated at every prefix length,
//! (c) a separate random/malformed stream up to 64 KiB, (d) the corpus of known witnesses.
#![allow(clippy::too_many_arguments)]
use bytes::Bytes;
use serde_json::json;
use std::alloc::{GlobalAlloc, Layout, System};
use std::cell::Cell;
use std::sync::atomic::{AtomicU64, Ordering};
use std::time::{Duration, Instant};
use vh::*;

// ------------------------------------------------------------------------------------------------
// observation: counting allocator (per thread), process-wide panic hook, wall clock
// ------------------------------------------------------------------------------------------------
struct CountingAlloc;
thread_local! {
    static T_ALLOC: Cell<u64> = const { Cell::new(0) };
    static T_MAX: Cell<u64> = const { Cell::new(0) };
}
/// process-wide: total bytes requested and the largest single request (a `reserve` counts even if the
/// memory is never touched); the live tiers read these around every injected input
static G_ALLOC: AtomicU64 = AtomicU64::new(0);
static G_MAX: AtomicU64 = AtomicU64::new(0);
fn note_alloc(req: u64, grown: u64) {
    let _ = T_ALLOC.try_with(|c| c.set(c.get() + grown));
    let _ = T_MAX.try_with(|c| if req > c.get() { c.set(req) });
    G_ALLOC.fetch_add(grown, Ordering::Relaxed);
    G_MAX.fetch_max(req, Ordering::Relaxed);
}
unsafe impl GlobalAlloc for CountingAlloc {
    unsafe fn alloc(&self, l: Layout) -> *mut u8 {
        note_alloc(l.size() as u64, l.size() as u64);
        unsafe { System.alloc(l) }
    }
    unsafe fn alloc_zeroed(&self, l: Layout) -> *mut u8 {
        note_alloc(l.size() as u64, l.size() as u64);
        unsafe { System.alloc_zeroed(l) }
    }
    unsafe fn dealloc(&self, p: *mut u8, l: Layout) {
        unsafe { System.dealloc(p, l) }
    }
    unsafe fn realloc(&self, p: *mut u8, l: Layout, n: usize) -> *mut u8 {
        note_alloc(n as u64, (n as u64).saturating_sub(l.size() as u64));
        unsafe { System.realloc(p, l, n) }
    }
}
/// allocation window for the live tiers (process-wide counters)
struct AllocWin { a0: u64 }
impl AllocWin {
    fn start() -> Self { G_MAX.store(0, Ordering::SeqCst); AllocWin { a0: G_ALLOC.load(Ordering::SeqCst) } }
    /// (total bytes requested, largest single request) since start
    fn end(&self) -> (u64, u64) { (G_ALLOC.load(Ordering::SeqCst) - self.a0, G_MAX.load(Ordering::SeqCst)) }
}
/// "no allocation disproportionate to the input": bound on the largest single request and on the total
/// requested while one input is processed by a live endpoint (harness-side copies of the input included)
fn live_alloc_bounds(tier: &str, len: usize) -> (u64, u64) {
    // creating a PeerConnection (ICE/DTLS/SCTP setup, certificate) has a fixed cost that is not driven by the input
    let (base_total, base_single) = if tier.contains("PeerConnection") { (16u64 << 20, 1u64 << 20) } else { (2u64 << 20, 64u64 << 10) };
    ((256 * len as u64).max(base_total), (64 * len as u64).max(base_single))
}
static LIVE_BLOATS: parking_lot::Mutex<Vec<(String, Vec<u8>)>> = parking_lot::Mutex::new(Vec::new());
fn live_alloc_note(tier: &str, input: &[u8], w: &AllocWin) {
    if let Some(m) = live_alloc_check(tier, input.len(), w) { let mut g = LIVE_BLOATS.lock(); if g.len() < 16 { g.push((m, input.to_vec())); } }
}
static LIVE_ALLOC_MAX: parking_lot::Mutex<std::collections::BTreeMap<String, (u64, u64)>> = parking_lot::Mutex::new(std::collections::BTreeMap::new());
fn live_alloc_check(tier: &str, len: usize, w: &AllocWin) -> Option<String> {
    let (total, single) = w.end();
    {
        let mut g = LIVE_ALLOC_MAX.lock();
        let e = g.entry(tier.to_string()).or_insert((0, 0));
        e.0 = e.0.max(total); e.1 = e.1.max(single);
    }
    let (bt, bs) = live_alloc_bounds(tier, len);
    if single > bs { Some(format!("BLOAT: while {} processed a {}-byte input a single allocation of {} bytes was requested (bound {})", tier, len, single, bs)) }
    else if total > bt { Some(format!("BLOAT: while {} processed a {}-byte input {} bytes were requested in total (bound {})", tier, len, total, bt)) }
    else { None }
}
#[global_allocator]
static ALLOC: CountingAlloc = CountingAlloc;

static PANICS: AtomicU64 = AtomicU64::new(0);
static PANIC_LOG: parking_lot::Mutex<Vec<String>> = parking_lot::Mutex::new(Vec::new());

fn install_hook() {
    std::panic::set_hook(Box::new(|info| {
        PANICS.fetch_add(1, Ordering::SeqCst);
        let loc = info.location().map(|l| format!("{}:{}", l.file(), l.line())).unwrap_or_default();
        let msg = if let Some(s) = info.payload().downcast_ref::<&str>() { s.to_string() }
            else if let Some(s) = info.payload().downcast_ref::<String>() { s.clone() } else { "panic".into() };
        let mut g = PANIC_LOG.lock();
        if g.len() < 64 { g.push(format!("{} @ {}", msg, loc)); }
    }));
}
fn panics() -> u64 { PANICS.load(Ordering::SeqCst) }

/// what the synchronous decoder thread is working on right now (target, input, since when): a call that
/// never returns cannot be interrupted, but the watchdog can report it as the failing input and end the run
static CURRENT: parking_lot::Mutex<Option<(u32, Vec<u8>, Instant)>> = parking_lot::Mutex::new(None);
static OUT_DIR: parking_lot::Mutex<String> = parking_lot::Mutex::new(String::new());
const SYNC_HANG_LIMIT: Duration = Duration::from_secs(20);
fn start_watchdog() {
    std::thread::spawn(|| loop {
        std::thread::sleep(Duration::from_millis(200));
        let cur = CURRENT.lock().clone();
        if let Some((t, input, since)) = cur {
            if since.elapsed() > SYNC_HANG_LIMIT {
                let mut out = Out::new(&OUT_DIR.lock());
                out.push(Case { term: "-".into(),
                    desc: json!({"target": tname(t), "what": "synchronous decoder call did not return", "len": input.len(),
                                 "input_full_hex": input.iter().map(|b| format!("{:02x}", b)).collect::<String>(), "input_utf8_lossy": String::from_utf8_lossy(&input)}),
                    oracle_fail: Some(format!("HANG: {} did not return within {:?} on a {}-byte input {}", tname(t), SYNC_HANG_LIMIT, input.len(), hex(&input))),
                    known: None, nontrivial: false, key: "hang".into(), kind: "watchdog".into() });
                out.finish(json!({"generator": {"aborted": "a synchronous decoder call hung; the run was ended by the watchdog"}}));
                std::process::exit(0);
            }
        }
    });
}
fn last_panic() -> String { PANIC_LOG.lock().last().cloned().unwrap_or_default() }

struct Obs<T> {
    res: Result<T, String>, // Err = panic (message @ location)
    dur: Duration,
    alloc: u64,
    max_req: u64,
}
fn observe<T, F: FnMut() -> T>(mut f: F) -> Obs<T> {
    let a0 = T_ALLOC.with(|c| c.get());
    T_MAX.with(|c| c.set(0));
    let p0 = panics();
    let t0 = Instant::now();
    let r = std::panic::catch_unwind(std::panic::AssertUnwindSafe(&mut f));
    let dur = t0.elapsed();
    let alloc = T_ALLOC.with(|c| c.get()) - a0;
    let max_req = T_MAX.with(|c| c.get());
    let res = match r {
        Ok(v) => Ok(v),
        Err(_) => Err(if panics() > p0 { last_panic() } else { "panic".into() }),
    };
    Obs { res, dur, alloc, max_req }
}

fn hex(b: &[u8]) -> String {
    let mut s = String::with_capacity(b.len() * 2);
    for x in b.iter().take(96) { s.push_str(&format!("{:02x}", x)); }
    if b.len() > 96 { s.push_str(&format!("..(+{}B)", b.len() - 96)); }
    s
}

// ------------------------------------------------------------------------------------------------
// target identifiers (shared with Run/C07Run.v)
// ------------------------------------------------------------------------------------------------
const T_HSMSG: u32 = 1;
const T_CLIENT_HELLO: u32 = 2;
const T_SERVER_HELLO: u32 = 3;
const T_HELLO_VERIFY: u32 = 4;
const T_CERT: u32 = 5;
const T_SKE: u32 = 6;
const T_CKE: u32 = 7;
const T_FINISHED: u32 = 8;
const T_DTLS_CH_EXT: u32 = 9;
const T_DCEP_OPEN: u32 = 10;
const T_DTLS_FRAG: u32 = 12;
const T_SCTP_DATAHDR: u32 = 46;
const T_DCEP_ACK: u32 = 11;
const T_H264: u32 = 20;
const T_RTX: u32 = 21;
const T_UDPTL: u32 = 30;
const T_SCTP_WALK: u32 = 40;
const T_SCTP_INITACK: u32 = 41;
const T_SCTP_SACK: u32 = 42;
const T_SCTP_FWD: u32 = 43;
const T_SCTP_RECONFIG: u32 = 44;
const T_SCTP_DATA: u32 = 45;
const T_CAND: u32 = 50;
const T_TURN_TCP: u32 = 60;
const T_TURN_DATA: u32 = 61;
const T_MID: u32 = 70;
const T_PAIR_PRIO: u32 = 71;
// oracle-only targets (no model)
const T_SDP_PARSE: u32 = 100;
const T_SET_REMOTE: u32 = 101;
const T_DTLS_RECORD: u32 = 102;
const T_STUN: u32 = 103;
const T_RTP: u32 = 104;
const T_RTCP: u32 = 105;
const T_DTLS_LIVE: u32 = 106;

fn tname(t: u32) -> &'static str {
    match t {
        T_HSMSG => "HandshakeMessage::decode", T_CLIENT_HELLO => "ClientHello::decode", T_SERVER_HELLO => "ServerHello::decode",
        T_HELLO_VERIFY => "HelloVerifyRequest::decode", T_CERT => "CertificateMessage::decode", T_SKE => "ServerKeyExchange::decode",
        T_CKE => "ClientKeyExchange::decode", T_DTLS_CH_EXT => "dtls handle_client_hello (decode + extension walk, live server)", T_DTLS_LIVE => "live DtlsTransport", T_DTLS_FRAG => "dtls handshake fragment reassembly (live server)", T_SCTP_DATAHDR => "sctp handle_data header guard (live)", T_FINISHED => "Finished::decode", T_DCEP_OPEN => "DataChannelOpen::unmarshal",
        T_DCEP_ACK => "DataChannelAck::unmarshal", T_H264 => "H264Depacketizer::push", T_RTX => "unwrap_rtx_packet",
        T_UDPTL => "UdtlTransport::recv", T_SCTP_WALK => "sctp handle_packet chunk walker", T_SCTP_INITACK => "sctp handle_init_ack",
        T_SCTP_SACK => "sctp handle_sack", T_SCTP_FWD => "sctp handle_forward_tsn", T_SCTP_RECONFIG => "sctp handle_reconfig",
        T_SCTP_DATA => "sctp handle_data/DCEP", T_CAND => "IceCandidate::from_sdp", T_TURN_TCP => "TurnClient::recv (TCP framing)",
        T_TURN_DATA => "ice handle_turn_packet/handle_packet", T_MID => "set_remote_description a=mid", T_PAIR_PRIO => "IceCandidatePair::priority",
        T_SDP_PARSE => "SessionDescription::parse", T_SET_REMOTE => "PeerConnection::set_remote_description",
        T_DTLS_RECORD => "DtlsRecord::decode", T_STUN => "StunMessage::decode", T_RTP => "RtpPacket::parse", T_RTCP => "parse_rtcp_packets",
        _ => "?",
    }
}

const V_OK: i128 = 0;
const V_ERR: i128 = 1;
const V_PANIC: i128 = 2;

/// what the implementation did with one input: verdict + digest of the decoded fields
#[derive(Clone, Debug, PartialEq)]
struct Out1 {
    v: i128,
    dig: Vec<i128>,
}
fn bdig(d: &mut Vec<i128>, b: &[u8]) {
    d.push(b.len() as i128);
    d.extend(b.iter().map(|x| *x as i128));
}

// ------------------------------------------------------------------------------------------------
// pure (synchronous) decoders
// ------------------------------------------------------------------------------------------------
mod pure {
    use super::*;
    use rustrtc::media::depacketizer::{Depacketizer, H264Depacketizer};
    use rustrtc::media::frame::{MediaKind, MediaSample};
    use rustrtc::rtp::{RtpHeader, RtpPacket};
    use rustrtc::transports::datachannel::{DataChannelAck, DataChannelOpen};
    use rustrtc::transports::dtls::handshake::*;

    /// one decoder call; `ins` has one element except for the H.264 sequences
    pub fn call(t: u32, aux: &[i128], ins: &[Vec<u8>]) -> Out1 {
        let bs = ins.first().cloned().unwrap_or_default();
        let mut d: Vec<i128> = vec![];
        macro_rules! res {
            ($e:expr, $ok:expr) => {
                match $e {
                    Ok(x) => { $ok(x, &mut d); Out1 { v: V_OK, dig: d } }
                    Err(_) => Out1 { v: V_ERR, dig: vec![] },
                }
            };
        }
        match t {
            T_HSMSG => {
                let mut b = Bytes::from(bs);
                match HandshakeMessage::decode(&mut b) {
                    Ok(None) => Out1 { v: V_OK, dig: vec![0, b.len() as i128] },
                    Ok(Some(m)) => {
                        d.extend([1, m.msg_type as u8 as i128, m.total_length as i128, m.message_seq as i128,
                                  m.fragment_offset as i128, m.fragment_length as i128]);
                        bdig(&mut d, &m.body);
                        d.push(b.len() as i128);
                        Out1 { v: V_OK, dig: d }
                    }
                    Err(_) => Out1 { v: V_ERR, dig: vec![] },
                }
            }
            T_CLIENT_HELLO => {
                let mut b = Bytes::from(bs);
                res!(ClientHello::decode(&mut b), |h: ClientHello, d: &mut Vec<i128>| {
                    d.extend([h.version.major as i128, h.version.minor as i128, h.random.gmt_unix_time as i128]);
                    d.extend(h.random.random_bytes.iter().map(|x| *x as i128));
                    bdig(d, &h.session_id);
                    bdig(d, &h.cookie);
                    d.push(h.cipher_suites.len() as i128);
                    d.extend(h.cipher_suites.iter().map(|x| *x as i128));
                    bdig(d, &h.compression_methods);
                    bdig(d, &h.extensions);
                    d.push(b.len() as i128);
                })
            }
            T_SERVER_HELLO => {
                let mut b = Bytes::from(bs);
                res!(ServerHello::decode(&mut b), |h: ServerHello, d: &mut Vec<i128>| {
                    d.extend([h.version.major as i128, h.version.minor as i128, h.random.gmt_unix_time as i128]);
                    d.extend(h.random.random_bytes.iter().map(|x| *x as i128));
                    bdig(d, &h.session_id);
                    d.push(h.cipher_suite as i128);
                    d.push(h.compression_method as i128);
                    bdig(d, &h.extensions);
                    d.push(b.len() as i128);
                })
            }
            T_HELLO_VERIFY => {
                let mut b = Bytes::from(bs);
                res!(HelloVerifyRequest::decode(&mut b), |h: HelloVerifyRequest, d: &mut Vec<i128>| {
                    d.extend([h.version.major as i128, h.version.minor as i128]);
                    bdig(d, &h.cookie);
                    d.push(b.len() as i128);
                })
            }
            T_CERT => {
                let mut b = Bytes::from(bs);
                res!(CertificateMessage::decode(&mut b), |h: CertificateMessage, d: &mut Vec<i128>| {
                    d.push(h.certificates.len() as i128);
                    for c in &h.certificates { bdig(d, c); }
                    d.push(b.len() as i128);
                })
            }
            T_SKE => {
                let mut b = Bytes::from(bs);
                res!(ServerKeyExchange::decode(&mut b), |h: ServerKeyExchange, d: &mut Vec<i128>| {
                    d.extend([h.curve_type as i128, h.named_curve as i128]);
                    bdig(d, &h.public_key);
                    bdig(d, &h.signature);
                    d.push(b.len() as i128);
                })
            }
            T_CKE => {
                let mut b = Bytes::from(bs);
                res!(ClientKeyExchange::decode(&mut b), |h: ClientKeyExchange, d: &mut Vec<i128>| {
                    bdig(d, &h.public_key);
                    d.push(b.len() as i128);
                })
            }
            T_FINISHED => {
                let mut b = Bytes::from(bs);
                res!(Finished::decode(&mut b), |h: Finished, d: &mut Vec<i128>| {
                    bdig(d, &h.verify_data);
                    d.push(b.len() as i128);
                })
            }
            T_DCEP_OPEN => {
                res!(DataChannelOpen::unmarshal(&bs), |o: DataChannelOpen, d: &mut Vec<i128>| {
                    d.extend([o.message_type as i128, o.channel_type as i128, o.priority as i128, o.reliability_parameter as i128]);
                    bdig(d, o.label.as_bytes());
                    bdig(d, o.protocol.as_bytes());
                })
            }
            T_DCEP_ACK => {
                res!(DataChannelAck::unmarshal(&bs), |o: DataChannelAck, d: &mut Vec<i128>| { d.push(o.message_type as i128); })
            }
            T_RTX => {
                // aux = [marker, ts]; input = RTX payload
                let mut h = RtpHeader::new(97, 7, aux[1] as u32, 0x1111);
                h.marker = aux[0] != 0;
                let p = RtpPacket::new(h, bs);
                match rustrtc::rtx::unwrap_rtx_packet(&p, 0x2222, 96) {
                    None => Out1 { v: V_ERR, dig: vec![] },
                    Some(q) => {
                        d.extend([q.header.sequence_number as i128, q.header.marker as i128, q.header.timestamp as i128,
                                  q.header.ssrc as i128, q.header.payload_type as i128]);
                        bdig(&mut d, &q.payload);
                        Out1 { v: V_OK, dig: d }
                    }
                }
            }
            T_H264 => {
                // every element of ins = [marker, seq_hi, seq_lo, ts(4 bytes), payload...]; aux = [kind_video]
                let mut dp = H264Depacketizer::new();
                let kind = if aux.first().copied().unwrap_or(1) != 0 { MediaKind::Video } else { MediaKind::Audio };
                let addr: std::net::SocketAddr = "127.0.0.1:5004".parse().unwrap();
                for i in ins {
                    if i.len() < 7 { continue; }
                    let mut h = RtpHeader::new(96, u16::from_be_bytes([i[1], i[2]]), u32::from_be_bytes([i[3], i[4], i[5], i[6]]), 0x3333);
                    h.marker = i[0] != 0;
                    let p = RtpPacket::new(h, i[7..].to_vec());
                    match dp.push(p, 90000, addr, kind) {
                        Err(_) => return Out1 { v: V_ERR, dig: d },
                        Ok(samples) => {
                            d.push(samples.len() as i128);
                            for s in samples {
                                match s {
                                    MediaSample::Video(v) => {
                                        d.extend([v.rtp_timestamp as i128, v.is_last_packet as i128]);
                                        bdig(&mut d, &v.data);
                                    }
                                    MediaSample::Audio(a) => {
                                        d.extend([a.rtp_timestamp as i128, 2]);
                                        bdig(&mut d, &a.data);
                                    }
                                }
                            }
                        }
                    }
                }
                d.push(dp.drop_count() as i128);
                Out1 { v: V_OK, dig: d }
            }
            T_CAND => super::cand::call(&bs),
            T_PAIR_PRIO => {
                use rustrtc::{IceCandidate, IceCandidatePair, IceRole};
                let mut l = IceCandidate::host("127.0.0.1:1".parse().unwrap(), 1);
                let mut r = IceCandidate::host("127.0.0.1:2".parse().unwrap(), 1);
                l.priority = aux[0] as u32;
                r.priority = aux[1] as u32;
                let p = IceCandidatePair::new(l, r);
                let a = p.priority(IceRole::Controlling);
                let b = p.priority(IceRole::Controlled);
                Out1 { v: V_OK, dig: vec![a as i128, b as i128] }
            }
            T_SDP_PARSE => {
                let s = String::from_utf8_lossy(&bs).to_string();
                let ty = match aux.first().copied().unwrap_or(0) { 0 => rustrtc::SdpType::Offer, _ => rustrtc::SdpType::Answer };
                match rustrtc::SessionDescription::parse(ty, &s) {
                    Ok(d0) => { let _ = d0.to_sdp_string(); Out1 { v: V_OK, dig: vec![d0.media_sections.len() as i128] } }
                    Err(_) => Out1 { v: V_ERR, dig: vec![] },
                }
            }
            T_DTLS_RECORD => {
                let mut b = Bytes::from(bs);
                match rustrtc::transports::dtls::record::DtlsRecord::decode(&mut b) {
                    Ok(Some(_)) => Out1 { v: V_OK, dig: vec![1] },
                    Ok(None) => Out1 { v: V_OK, dig: vec![0] },
                    Err(_) => Out1 { v: V_ERR, dig: vec![] },
                }
            }
            T_STUN => match rustrtc::transports::ice::stun::StunMessage::decode(&bs) {
                Ok(_) => Out1 { v: V_OK, dig: vec![] },
                Err(_) => Out1 { v: V_ERR, dig: vec![] },
            },
            T_RTP => match RtpPacket::parse(&bs) {
                Ok(p) => {
                    // operations the stack applies to parsed packets: stamp an extension, re-serialise
                    let mut p2 = p.clone();
                    let _ = p2.header.set_extension(3, &[1, 2, 3]);
                    let _ = p2.header.get_extension(3);
                    let _ = p2.marshal();
                    let _ = p.marshal();
                    Out1 { v: V_OK, dig: vec![] }
                }
                Err(_) => Out1 { v: V_ERR, dig: vec![] },
            },
            T_RTCP => match rustrtc::rtp::parse_rtcp_packets(&bs, None) {
                Ok(ps) => {
                    let _ = rustrtc::rtp::marshal_rtcp_packets(&ps);
                    Out1 { v: V_OK, dig: vec![ps.len() as i128] }
                }
                Err(_) => Out1 { v: V_ERR, dig: vec![] },
            },
            _ => Out1 { v: V_ERR, dig: vec![-1] },
        }
    }
}

// ------------------------------------------------------------------------------------------------
// candidate lines: implementation digest + the token view handed to the model
// ------------------------------------------------------------------------------------------------
mod cand {
    use super::*;
    use rustrtc::{IceCandidate, IceCandidateType, TcpType};
    pub fn call(bs: &[u8]) -> Out1 {
        let s = String::from_utf8_lossy(bs).to_string();
        match IceCandidate::from_sdp(&s) {
            Err(_) => Out1 { v: V_ERR, dig: vec![] },
            Ok(c) => {
                let typ = match c.typ { IceCandidateType::Host => 0, IceCandidateType::ServerReflexive => 1,
                                        IceCandidateType::PeerReflexive => 2, IceCandidateType::Relay => 3 };
                let tt = match c.tcp_type { None => 0, Some(TcpType::Active) => 1, Some(TcpType::Passive) => 2, Some(TcpType::So) => 3 };
                let (rel, rport) = match c.related_address { Some(a) => (1, a.port() as i128), None => (0, 0) };
                Out1 { v: V_OK, dig: vec![c.component as i128, c.priority as i128, c.address.port() as i128, typ, tt, rel, rport] }
            }
        }
    }
    /// tokens as the model sees them: ASCII-whitespace split done here, independently of rustrtc
    pub fn tokens(bs: &[u8]) -> Vec<Vec<u8>> {
        let mut out = vec![];
        let mut cur = vec![];
        for &b in bs {
            if b == b' ' || b == b'\t' || b == b'\n' || b == 0x0b || b == 0x0c || b == b'\r' {
                if !cur.is_empty() { out.push(std::mem::take(&mut cur)); }
            } else { cur.push(b); }
        }
        if !cur.is_empty() { out.push(cur); }
        out
    }
    /// is `ip port` a parsable socket address (std's parser, not rustrtc's)?
    pub fn ip_ok(ip: &[u8], port: u16) -> bool {
        let ip = String::from_utf8_lossy(ip).to_string();
        let s = if ip.contains(':') { format!("[{}]:{}", ip, port) } else { format!("{}:{}", ip, port) };
        s.parse::<std::net::SocketAddr>().is_ok()
    }
    pub fn ipaddr_ok(ip: &[u8]) -> bool {
        String::from_utf8_lossy(ip).parse::<std::net::IpAddr>().is_ok()
    }
}

// ------------------------------------------------------------------------------------------------
// the case sink: oracle + term
// ------------------------------------------------------------------------------------------------
struct Sink {
    out: Out,
    inputs: u64,
    per_target: std::collections::BTreeMap<u32, (u64, u64, u64, u64)>, // inputs, ok, err, panic
    max_dur_us: std::collections::BTreeMap<u32, u64>,
    max_alloc_ratio: std::collections::BTreeMap<u32, f64>,
    term_budget: usize,
}

/// time bound per call (a hang oracle, not a benchmark): generous because the machine is shared
fn time_bound(len: usize) -> Duration {
    Duration::from_millis(50) + Duration::from_micros(3 * len as u64)
}
/// allocation bound: linear in the input with a constant for fixed-size structures
fn alloc_bound(t: u32, len: usize) -> u64 {
    let a: u64 = match t {
        T_H264 => 2048, // one VideoFrame (+ cloned header) per 2 input bytes in STAP-A
        T_SDP_PARSE | T_SET_REMOTE => 512,
        _ => 64,
    };
    a * len as u64 + 256 * 1024
}

/// known (listed, open) finding classes; a panic is reported as `known` only if it matches one
fn known_class(_t: u32, _panic_msg: &str) -> Option<String> {
    None
}

impl Sink {
    fn new(dir: &str) -> Self {
        Sink { out: Out::new(dir), inputs: 0, per_target: Default::default(), max_dur_us: Default::default(),
               max_alloc_ratio: Default::default(), term_budget: 0 }
    }
    fn count(&mut self, t: u32, v: i128) {
        self.inputs += 1;
        let e = self.per_target.entry(t).or_insert((0, 0, 0, 0));
        e.0 += 1;
        match v { V_OK => e.1 += 1, V_ERR => e.2 += 1, _ => e.3 += 1 }
    }
    /// run one pure-decoder input; returns (outcome, oracle failure)
    fn run_pure(&mut self, t: u32, aux: &[i128], ins: &[Vec<u8>]) -> (Out1, Option<String>) {
        let len: usize = ins.iter().map(|x| x.len()).sum();
        *CURRENT.lock() = Some((t, ins.concat(), Instant::now()));
        let mut o = observe(|| pure::call(t, aux, ins));
        *CURRENT.lock() = None;
        let mut tries = 0;
        while o.res.is_ok() && o.dur > time_bound(len) && tries < 2 {
            o = observe(|| pure::call(t, aux, ins));
            tries += 1;
        }
        let us = o.dur.as_micros() as u64;
        let m = self.max_dur_us.entry(t).or_insert(0);
        if us > *m { *m = us; }
        let ratio = o.alloc as f64 / (len.max(1) as f64);
        let r = self.max_alloc_ratio.entry(t).or_insert(0.0);
        if len >= 64 && ratio > *r { *r = ratio; }
        let (out1, mut fail) = match o.res {
            Ok(x) => (x, None),
            Err(m) => (Out1 { v: V_PANIC, dig: vec![] }, Some(format!("PANIC in {}: {}", tname(t), m))),
        };
        if fail.is_none() && o.dur > time_bound(len) {
            fail = Some(format!("HANG: {} took {:?} on {} bytes (bound {:?})", tname(t), o.dur, len, time_bound(len)));
        }
        // largest single request: 64 bytes per input byte; the H.264 depacketizer builds one ~272-byte VideoFrame per
        // 2-byte empty NAL unit of a STAP-A packet in a doubling Vec (linear, factor <= 512; see notes/C07.md)
        let single_bound = ((if t == T_H264 { 512 } else { 64 }) * len as u64).max(64 * 1024);
        if fail.is_none() && o.max_req > single_bound {
            fail = Some(format!("BLOAT: {} requested a single allocation of {} bytes for {} input bytes (bound {})", tname(t), o.max_req, len, single_bound));
        }
        if fail.is_none() && o.alloc > alloc_bound(t, len) {
            fail = Some(format!("BLOAT: {} allocated {} bytes for {} input bytes (bound {})", tname(t), o.alloc, len, alloc_bound(t, len)));
        }
        self.count(t, out1.v);
        (out1, fail)
    }
    /// one input = one case (with model comparison when `model`)
    fn case(&mut self, t: u32, aux: &[i128], ins: &[Vec<u8>], kind: &str, what: &str, model: bool) -> Out1 {
        let (o, fail) = self.run_pure(t, aux, ins);
        self.push_case(t, aux, ins, &o, fail, kind, what, model);
        o
    }
    fn push_case(&mut self, t: u32, aux: &[i128], ins: &[Vec<u8>], o: &Out1, fail: Option<String>, kind: &str, what: &str, model: bool) {
        let len: usize = ins.iter().map(|x| x.len()).sum();
        let term = if model && len + o.dig.len() <= 6000 {
            format!("mkCase {} {} {} {} {}", t, zlist(aux.iter().copied()),
                    list_term(&ins.iter().map(|b| bytes_term(b)).collect::<Vec<_>>()), o.v, zlist(o.dig.iter().copied()))
        } else { "-".to_string() };
        let (known, oracle_fail) = match &fail {
            Some(m) => match known_class(t, m) { Some(k) => (Some(k), None), None => (None, fail.clone()) },
            None => (None, None),
        };
        self.out.push(Case {
            term,
            desc: json!({"target": tname(t), "t": t, "aux": aux.iter().map(|x| x.to_string()).collect::<Vec<_>>(),
                         "input_hex": ins.iter().map(|b| hex(b)).collect::<Vec<_>>(), "len": len, "what": what,
                         "impl_verdict": match o.v { V_OK => "Ok", V_ERR => "Err", _ => "Panic" }}),
            oracle_fail, known,
            nontrivial: o.v == V_OK && len > 0,
            key: format!("{}|{:?}|{}", t, aux, ins.iter().map(|b| hex(b)).collect::<Vec<_>>().join(",")),
            kind: kind.to_string(),
        });
    }
    /// many inputs = one aggregated case (oracle only): the first failing input is reported
    fn batch<I: Iterator<Item = Vec<u8>>>(&mut self, t: u32, aux: &[i128], it: I, kind: &str, what: &str) {
        let mut n = 0u64;
        let mut first_fail: Option<(Vec<u8>, String)> = None;
        let mut maxlen = 0;
        for bs in it {
            n += 1;
            maxlen = maxlen.max(bs.len());
            let ins = [bs];
            let (_, fail) = self.run_pure(t, aux, &ins);
            if let Some(m) = fail { if first_fail.is_none() { let [b] = ins; first_fail = Some((b, m)); } }
        }
        let (known, oracle_fail) = match &first_fail {
            Some((b, m)) => match known_class(t, m) { Some(k) => (Some(k), None), None => (None, Some(format!("{} on input {}", m, hex(b)))) },
            None => (None, None),
        };
        self.out.push(Case {
            term: "-".into(),
            desc: json!({"target": tname(t), "t": t, "what": what, "inputs": n, "max_len": maxlen,
                         "first_failing_input_hex": first_fail.as_ref().map(|(b, _)| b.iter().map(|x| format!("{:02x}", x)).collect::<String>())}),
            oracle_fail, known, nontrivial: n > 0, key: format!("batch|{}|{}|{}", t, kind, what), kind: kind.to_string(),
        });
    }
}

// ------------------------------------------------------------------------------------------------
// structured generators: a valid message + the positions of its length / count fields
// ------------------------------------------------------------------------------------------------
#[derive(Clone)]
struct Msg {
    b: Vec<u8>,
    fields: Vec<(usize, usize)>, // (offset, width in bytes) of every length/count field
}
impl Msg {
    fn new() -> Self { Msg { b: vec![], fields: vec![] } }
    fn u8(&mut self, v: u8) { self.b.push(v); }
    fn u16(&mut self, v: u16) { self.b.extend_from_slice(&v.to_be_bytes()); }
    fn u24(&mut self, v: u32) { self.b.extend_from_slice(&v.to_be_bytes()[1..]); }
    fn u32(&mut self, v: u32) { self.b.extend_from_slice(&v.to_be_bytes()); }
    fn bytes(&mut self, v: &[u8]) { self.b.extend_from_slice(v); }
    fn len8(&mut self, v: usize) { self.fields.push((self.b.len(), 1)); self.u8(v as u8); }
    fn len16(&mut self, v: usize) { self.fields.push((self.b.len(), 2)); self.u16(v as u16); }
    fn len24(&mut self, v: usize) { self.fields.push((self.b.len(), 3)); self.u24(v as u32); }
    fn get(&self, f: (usize, usize)) -> u64 {
        let mut v = 0u64;
        for i in 0..f.1 { v = (v << 8) | self.b[f.0 + i] as u64; }
        v
    }
    fn with(&self, f: (usize, usize), v: u64) -> Vec<u8> {
        let mut b = self.b.clone();
        for i in 0..f.1 { b[f.0 + i] = (v >> (8 * (f.1 - 1 - i))) as u8; }
        b
    }
    /// every length/count field set to 0, v-1, v+1, v+2, max, max-1; every prefix; a few one-byte extensions
    fn mutations(&self, rng: &mut Rng) -> Vec<(String, Vec<u8>)> {
        let mut out = vec![("valid".to_string(), self.b.clone())];
        for (k, f) in self.fields.iter().enumerate() {
            let v = self.get(*f);
            let max = (1u64 << (8 * f.1)) - 1;
            for nv in [0, v.wrapping_sub(1) & max, (v + 1) & max, (v + 2) & max, max, max - 1, v / 2, (v * 2) & max] {
                if nv != v { out.push((format!("field{}:{}->{}", k, v, nv), self.with(*f, nv))); }
            }
        }
        for k in 0..self.b.len() { out.push((format!("prefix{}", k), self.b[..k].to_vec())); }
        for k in 1..=3 {
            let mut b = self.b.clone();
            b.extend(rng.bytes(k));
            out.push((format!("extended+{}", k), b));
        }
        out
    }
}

fn gen_hsmsg(rng: &mut Rng, body_len: usize) -> Msg {
    let mut m = Msg::new();
    m.u8(*rng.pick(&[0u8, 1, 2, 3, 11, 12, 13, 14, 15, 16, 20]));
    m.len24(body_len); // total length
    m.u16(rng.below(4) as u16);
    m.len24(0); // fragment offset
    m.len24(body_len); // fragment length
    let body = rng.bytes(body_len);
    m.bytes(&body);
    m
}
fn gen_client_hello(rng: &mut Rng, with_ext: bool) -> Msg {
    let mut m = Msg::new();
    m.u8(254); m.u8(253);
    m.bytes(&rng.bytes(32));
    let sid = rng.below(4) as usize; m.len8(sid); m.bytes(&rng.bytes(sid));
    let ck = rng.below(5) as usize; m.len8(ck); m.bytes(&rng.bytes(ck));
    let ncs = rng.range(1, 3) as usize; m.len16(ncs * 2); for _ in 0..ncs { m.u16(0xC02B); }
    let nc = rng.range(1, 2) as usize; m.len8(nc); m.bytes(&vec![0u8; nc]);
    if with_ext { let e = rng.range(0, 12) as usize; m.len16(e); m.bytes(&rng.bytes(e)); }
    m
}
fn gen_server_hello(rng: &mut Rng, with_ext: bool) -> Msg {
    let mut m = Msg::new();
    m.u8(254); m.u8(253);
    m.bytes(&rng.bytes(32));
    let sid = rng.below(4) as usize; m.len8(sid); m.bytes(&rng.bytes(sid));
    m.u16(0xC02B); m.u8(0);
    if with_ext { let e = rng.range(0, 12) as usize; m.len16(e); m.bytes(&rng.bytes(e)); }
    m
}
fn gen_hello_verify(rng: &mut Rng) -> Msg {
    let mut m = Msg::new();
    m.u8(254); m.u8(255);
    let c = rng.range(0, 20) as usize; m.len8(c); m.bytes(&rng.bytes(c));
    m
}
fn gen_cert(rng: &mut Rng) -> Msg {
    let mut m = Msg::new();
    let n = rng.range(0, 3) as usize;
    let lens: Vec<usize> = (0..n).map(|_| rng.range(0, 9) as usize).collect();
    m.len24(lens.iter().map(|l| l + 3).sum());
    for l in lens { m.len24(l); m.bytes(&rng.bytes(l)); }
    m
}
fn gen_ske(rng: &mut Rng) -> Msg {
    let mut m = Msg::new();
    m.u8(3); m.u16(23);
    let p = rng.range(0, 9) as usize; m.len8(p); m.bytes(&rng.bytes(p));
    m.u8(4); m.u8(3);
    let s = rng.range(0, 9) as usize; m.len16(s); m.bytes(&rng.bytes(s));
    m
}
fn gen_cke(rng: &mut Rng) -> Msg {
    let mut m = Msg::new();
    let p = rng.range(0, 9) as usize; m.len8(p); m.bytes(&rng.bytes(p));
    m
}
fn gen_dcep_open(rng: &mut Rng) -> Msg {
    let mut m = Msg::new();
    m.u8(3); m.u8(*rng.pick(&[0u8, 1, 2, 0x80, 0x81, 0x82])); m.u16(rng.below(65536) as u16); m.u32(rng.next() as u32);
    let l = rng.range(0, 6) as usize; let p = rng.range(0, 4) as usize;
    m.len16(l); m.len16(p);
    let lab: Vec<u8> = (0..l).map(|_| if rng.chance(1, 6) { 0xC3 } else { b'a' + rng.below(26) as u8 }).collect();
    m.bytes(&lab);
    m.bytes(&vec![b'p'; p]);
    m
}
fn gen_for(t: u32, rng: &mut Rng, variant: u64) -> Msg {
    match t {
        T_HSMSG => gen_hsmsg(rng, (variant * 5) as usize % 23),
        T_CLIENT_HELLO => gen_client_hello(rng, variant % 2 == 0),
        T_SERVER_HELLO => gen_server_hello(rng, variant % 2 == 0),
        T_HELLO_VERIFY => gen_hello_verify(rng),
        T_CERT => gen_cert(rng),
        T_SKE => gen_ske(rng),
        T_CKE => gen_cke(rng),
        T_FINISHED => { let mut m = Msg::new(); m.bytes(&rng.bytes(12)); m }
        T_DCEP_OPEN => gen_dcep_open(rng),
        T_DCEP_ACK => { let mut m = Msg::new(); m.u8(2); m }
        _ => Msg::new(),
    }
}

const BYTE_TARGETS: &[u32] = &[T_HSMSG, T_CLIENT_HELLO, T_SERVER_HELLO, T_HELLO_VERIFY, T_CERT, T_SKE, T_CKE, T_FINISHED,
                               T_DCEP_OPEN, T_DCEP_ACK];
const ORACLE_ONLY_TARGETS: &[u32] = &[T_SDP_PARSE, T_DTLS_RECORD, T_STUN, T_RTP, T_RTCP, T_CAND];

fn random_len(rng: &mut Rng, max: usize) -> usize {
    match rng.below(10) {
        0..=3 => rng.below(64) as usize,
        4..=6 => rng.below(1500) as usize,
        7..=8 => rng.below(9000) as usize,
        _ => rng.below(max as u64 + 1) as usize,
    }
}

fn pure_streams(s: &mut Sink, rng: &mut Rng, thorough: bool) {
    // (d) corpus --------------------------------------------------------------------------------
    let hello34: Vec<u8> = { let mut v = vec![254, 253]; v.extend([7u8; 32]); v };
    s.case(T_CLIENT_HELLO, &[], &[hello34.clone()], "corpus", "F2 witness: 34-byte ClientHello body (version+random only)", true);
    s.case(T_SERVER_HELLO, &[], &[hello34.clone()], "corpus", "F2 witness: 34-byte ServerHello body (version+random only)", true);
    for (a, b) in [(u32::MAX, u32::MAX), (u32::MAX, 0), (0, u32::MAX), (u32::MAX, u32::MAX - 1), (0, 0), (1 << 31, 1 << 31), (2130706431, 1694498815)] {
        s.case(T_PAIR_PRIO, &[a as i128, b as i128], &[], "corpus", "F25 witness/boundary: pair priority at extreme candidate priorities", false);
    }
    s.case(T_RTP, &[], &[vec![0x90, 96, 0, 1, 0, 0, 0, 1, 0, 0, 0, 2, 0xBE, 0xDE, 0, 1, 0x1F, 0, 0, 0]], "corpus",
           "F1 witness: one-byte extension element with truncated data, then set_extension", false);
    // STAP-A full of zero-length NALs, FU-A without start, truncated STAP-A
    let h264_pkt = |marker: u8, seq: u16, ts: u32, pl: &[u8]| { let mut v = vec![marker]; v.extend(seq.to_be_bytes()); v.extend(ts.to_be_bytes()); v.extend(pl); v };
    s.case(T_H264, &[1], &[h264_pkt(1, 1, 9, &[24, 0, 0, 0, 0, 0, 0])], "corpus", "STAP-A of zero-length NAL units", true);
    s.case(T_H264, &[1], &[h264_pkt(1, 1, 9, &[24, 0, 9, 1, 2])], "corpus", "STAP-A NAL length beyond the packet", true);
    s.case(T_H264, &[1], &[h264_pkt(0, 1, 9, &[28])], "corpus", "FU-A indicator only", true);
    s.case(T_H264, &[1], &[h264_pkt(0, 1, 9, &[28, 0x85]), h264_pkt(0, 2, 9, &[28, 0x05, 1]), h264_pkt(1, 3, 9, &[28, 0x45])], "corpus", "FU-A start / middle / empty end", true);
    s.case(T_H264, &[1], &[h264_pkt(0, 65535, 9, &[0x7c, 0x85, 1]), h264_pkt(1, 0, 9, &[0x7c, 0x45, 2])], "corpus", "FU-A across sequence wrap", true);
    s.case(T_RTX, &[1, 77], &[vec![]], "corpus", "RTX payload shorter than the OSN", true);
    s.case(T_RTX, &[0, 77], &[vec![0x12]], "corpus", "RTX payload shorter than the OSN", true);
    s.case(T_RTX, &[0, 77], &[vec![0x12, 0x34]], "corpus", "RTX payload = OSN only", true);

    // (a) all byte strings of length <= 2 --------------------------------------------------------
    for &t in BYTE_TARGETS.iter().chain(ORACLE_ONLY_TARGETS.iter()) {
        let aux: Vec<i128> = vec![];
        s.batch(t, &aux, (0..=65792u32).map(|i| if i == 0 { vec![] } else if i <= 256 { vec![(i - 1) as u8] } else { let j = i - 257; vec![(j >> 8) as u8, j as u8] }),
                "exhaustive", "all byte strings of length <= 2");
    }
    // ... and, with the model, all of length <= 1 plus a seeded sample of length 2
    for &t in BYTE_TARGETS {
        s.case(t, &[], &[vec![]], "exhaustive-model", "empty input", true);
        for b in 0..=255u8 { if b < 32 || b % 8 == 3 || b >= 250 { s.case(t, &[], &[vec![b]], "exhaustive-model", "one byte", true); } }
        for _ in 0..24 { let b = rng.bytes(2); s.case(t, &[], &[b], "exhaustive-model", "two bytes", true); }
    }
    // H.264 / RTX with 0..2 byte payloads (all first bytes, i.e. all NAL types)
    for b0 in 0..=255u8 {
        s.case(T_H264, &[1], &[h264_pkt(1, 5, 5, &[b0])], "exhaustive-model", "one-byte payload", true);
        if b0 & 0x1F == 24 || b0 & 0x1F == 28 || b0 % 16 == 1 {
            for b1 in [0u8, 1, 0x40, 0x80, 0xC0, 0xFF] { s.case(T_H264, &[1], &[h264_pkt(0, 5, 5, &[b0, b1])], "exhaustive-model", "two-byte payload", true); }
        }
    }
    s.case(T_H264, &[1], &[h264_pkt(1, 5, 5, &[])], "exhaustive-model", "empty payload", true);
    s.case(T_H264, &[0], &[h264_pkt(1, 5, 5, &[24, 0])], "exhaustive-model", "audio kind passes through", true);

    // (b) structured + mutations -----------------------------------------------------------------
    let bases = if thorough { 12 } else { 3 };
    for &t in BYTE_TARGETS {
        for v in 0..bases {
            let m = gen_for(t, rng, v);
            for (what, b) in m.mutations(rng) {
                s.case(t, &[], &[b], "structured", &what, true);
            }
        }
    }
    // large structured inputs (oracle + model verdict on a few): 64 KiB certificate chains, hello with max-size vectors
    {
        let mut m = Msg::new();
        let n = 21000; // 21000 empty certificates = 63000 bytes
        m.len24(n * 3);
        for _ in 0..n { m.len24(0); }
        s.case(T_CERT, &[], &[m.b.clone()], "structured-large", "63 KiB of empty certificate entries", false);
        let mut m = Msg::new();
        m.len24(65000); m.len24(64997); m.bytes(&vec![0xAB; 64997]);
        s.case(T_CERT, &[], &[m.b.clone()], "structured-large", "one 64 KiB certificate", false);
        let mut m = Msg::new();
        m.u8(254); m.u8(253); m.bytes(&[1u8; 32]); m.len8(255); m.bytes(&[2u8; 255]); m.len8(255); m.bytes(&[3u8; 255]);
        m.len16(65534 - 600); m.bytes(&vec![0xC0; 65534 - 600]); m.len8(1); m.u8(0);
        s.case(T_CLIENT_HELLO, &[], &[m.b.clone()], "structured-large", "ClientHello with 32k cipher suites", false);
        let mut p = vec![24u8];
        for _ in 0..32000 { p.extend([0, 0]); }
        s.case(T_H264, &[1], &[h264_pkt(1, 1, 1, &p)], "structured-large", "STAP-A with 32000 zero-length NAL units", false);
        let mut p = vec![24u8];
        for _ in 0..600 { p.extend([0, 1, 0x65]); }
        s.case(T_H264, &[1], &[h264_pkt(1, 1, 1, &p)], "structured-large", "STAP-A with 600 one-byte NAL units", true);
    }
    // H.264 sequences: FU-A state machine with sequence/timestamp mismatches
    let nseq = if thorough { 1500 } else { 250 };
    for _ in 0..nseq {
        let n = rng.range(1, 5);
        let mut seq = rng.below(65536) as u16;
        if rng.chance(1, 8) { seq = 65534; }
        let ts = rng.below(4) as u32;
        let mut pkts = vec![];
        for k in 0..n {
            let kind = rng.below(10);
            let mut pl = vec![];
            match kind {
                0..=5 => { // FU-A
                    let s_bit = if k == 0 || rng.chance(1, 6) { 0x80 } else { 0 };
                    let e_bit = if rng.chance(1, 3) { 0x40 } else { 0 };
                    pl.push(0x60 | 28); pl.push(s_bit | e_bit | (rng.below(32) as u8));
                    { let k = rng.below(4) as usize; pl.extend(rng.bytes(k)); }
                    if rng.chance(1, 10) { pl.truncate(1); }
                }
                6..=7 => { // STAP-A
                    pl.push(24);
                    for _ in 0..rng.below(4) { let l = rng.below(4) as usize; let decl = if rng.chance(1, 5) { l + rng.range(1, 3) as usize } else { l }; pl.extend((decl as u16).to_be_bytes()); pl.extend(rng.bytes(l)); }
                    if rng.chance(1, 4) { pl.push(0); }
                }
                _ => { pl.push(rng.range(1, 31) as u8); let k = rng.below(3) as usize; pl.extend(rng.bytes(k)); }
            }
            let this_ts = if rng.chance(1, 8) { ts + 1 } else { ts };
            pkts.push(h264_pkt(rng.below(2) as u8, seq, this_ts, &pl));
            seq = if rng.chance(1, 8) { seq.wrapping_add(2) } else { seq.wrapping_add(1) };
        }
        s.case(T_H264, &[1], &pkts, "structured", "FU-A / STAP-A / single NAL sequence", true);
    }
    for _ in 0..40 {
        let l = rng.below(5) as usize;
        s.case(T_RTX, &[rng.below(2) as i128, rng.below(1 << 32) as i128], &[rng.bytes(l)], "structured", "RTX payload", true);
    }
    for _ in 0..60 {
        let pick = |rng: &mut Rng| *rng.pick(&[0u32, 1, 2, 0x7FFF_FFFF, 0x8000_0000, u32::MAX - 1, u32::MAX, 2130706431, 1694498815]);
        let (a, b) = (pick(rng), pick(rng));
        s.case(T_PAIR_PRIO, &[a as i128, b as i128], &[], "structured", "pair priority boundary grid", false);
    }

    // structured bulk for the decoders modelled by other checks (oracle only here): every prefix of a valid
    // exemplar and every single-byte change (0, 0xFF, +1, -1, bit 7 flipped) at every position
    {
        use rustrtc::transports::ice::stun::{StunAttribute, StunMessage};
        let base: std::collections::BTreeMap<&str, String> = sdpx::template().iter().map(|(k, v)| (*k, v.to_string())).collect();
        let sdp = sdpx::render(&base).into_bytes();
        let mut stun = StunMessage::binding_request([5u8; 12], Some("rustrtc"));
        stun.attributes.push(StunAttribute::Username("abcd:efgh".into()));
        stun.attributes.push(StunAttribute::Priority(12345));
        stun.attributes.push(StunAttribute::IceControlling(77));
        stun.attributes.push(StunAttribute::UseCandidate);
        stun.attributes.push(StunAttribute::XorMappedAddress("[2001:db8::1]:4000".parse().unwrap()));
        let stun_b = stun.encode(Some(b"password"), true).unwrap_or_default();
        let rtp_b: Vec<u8> = { let mut v = vec![0xB2, 0xE0, 0x12, 0x34, 0, 0, 0, 9, 0, 0, 0, 7, 0, 0, 0, 1, 0, 0, 0, 2, 0xBE, 0xDE, 0, 2, 0x10, 0xAA, 0x21, 0xBB, 0xCC, 0, 0, 0]; v.extend([1, 2, 3, 4, 5, 0, 0, 3]); v };
        let rtcp_b: Vec<u8> = { let mut v = vec![0x81, 201, 0, 7, 0, 0, 0, 1]; v.extend([0u8; 24]); v.extend([0x81, 202, 0, 3, 0, 0, 0, 1, 1, 2, b'a', b'b', 0, 0, 0, 0]); v.extend([0x81, 205, 0, 3, 0, 0, 0, 1, 0, 0, 0, 2, 0, 9, 0, 3]); v.extend([0x81, 203, 0, 1, 0, 0, 0, 1]); v };
        let rec_b: Vec<u8> = { let mut v = vec![22, 254, 253, 0, 0, 0, 0, 0, 0, 0, 1, 0, 5, 1, 2, 3, 4, 5]; v.extend([23, 254, 253, 0, 1, 0, 0, 0, 0, 0, 2, 0, 1, 9]); v };
        let cand_b = b"candidate:1 1 tcp 2130706431 192.168.1.2 9 typ srflx raddr 10.0.0.1 rport 7 tcptype passive generation 0".to_vec();
        for (t, ex) in [(T_SDP_PARSE, sdp), (T_STUN, stun_b), (T_RTP, rtp_b), (T_RTCP, rtcp_b), (T_DTLS_RECORD, rec_b), (T_CAND, cand_b)] {
            let mut ins: Vec<Vec<u8>> = vec![ex.clone()];
            for k in 0..ex.len() { ins.push(ex[..k].to_vec()); }
            let stride = if ex.len() > 1200 && !thorough { 3 } else { 1 };
            for k in (0..ex.len()).step_by(stride) { for nv in [0u8, 0xFF, ex[k].wrapping_add(1), ex[k].wrapping_sub(1), ex[k] ^ 0x80, b'9'] { if nv != ex[k] { let mut b = ex.clone(); b[k] = nv; ins.push(b); } } }
            s.batch(t, &[], ins.into_iter(), "structured-bulk", "valid exemplar: every prefix and single-byte changes at every position");
        }
    }

    // (c) random / malformed stream --------------------------------------------------------------
    let nsmall = if thorough { 400 } else { 60 };
    for &t in BYTE_TARGETS {
        for _ in 0..nsmall {
            let l = rng.below(48) as usize;
            let mut b = rng.bytes(l);
            // bias the first bytes so that the decoders get past their first guard
            if t == T_DCEP_OPEN && !b.is_empty() && rng.chance(2, 3) { b[0] = 3; }
            if t == T_HSMSG && !b.is_empty() && rng.chance(2, 3) { b[0] = *rng.pick(&[1u8, 2, 11, 16, 20]); }
            if (t == T_CLIENT_HELLO || t == T_SERVER_HELLO) && rng.chance(2, 3) { let mut p = rng.bytes(34); for x in b.iter_mut() { *x %= 8; } p.extend(b); b = p; }
            s.case(t, &[], &[b], "random", "short random bytes", true);
        }
    }
    let nbulk = if thorough { 6000 } else { 700 };
    for &t in BYTE_TARGETS.iter().chain(ORACLE_ONLY_TARGETS.iter()) {
        let mut r2 = Rng::new(rng.next());
        let inputs: Vec<Vec<u8>> = (0..nbulk).map(|i| {
            let l = if i < 4 { 65536 - i as usize } else { random_len(&mut r2, 65536) };
            let mut b = r2.bytes(l);
            match r2.below(4) { 0 => for x in b.iter_mut() { *x &= 0x07; }, 1 => for x in b.iter_mut() { if *x > 40 { *x = 0; } }, _ => {} }
            if t == T_DCEP_OPEN && !b.is_empty() { b[0] = 3; }
            if t == T_SDP_PARSE || t == T_CAND { for x in b.iter_mut() { *x = b"v=0 oa\nmc:1234567890-IN4.\r t\xc3"[(*x % 29) as usize]; } }
            b
        }).collect();
        s.batch(t, &[], inputs.into_iter(), "random-bulk", "random / low-entropy bytes up to 64 KiB");
    }
    // H.264 bulk
    {
        let mut r2 = Rng::new(rng.next());
        for _ in 0..(nbulk / 4) {
            let l = random_len(&mut r2, 65000);
            let mut pl = r2.bytes(l);
            if !pl.is_empty() { pl[0] = (pl[0] & 0xE0) | *r2.pick(&[24u8, 28, 1, 5]); }
            if r2.chance(1, 2) { for x in pl.iter_mut().skip(1) { *x &= 3; } }
            let (o, fail) = s.run_pure(T_H264, &[1], &[h264_pkt(1, 1, 1, &pl)]);
            if fail.is_some() { s.push_case(T_H264, &[1], &[h264_pkt(1, 1, 1, &pl)], &o, fail, "random-bulk", "random H.264 payload", false); }
        }
        s.out.push(Case { term: "-".into(), desc: json!({"target": tname(T_H264), "what": "random H.264 payloads up to 64 KiB", "inputs": nbulk / 4}),
                          oracle_fail: None, known: None, nontrivial: true, key: "batch|h264|bulk".into(), kind: "random-bulk".into() });
    }
}

// ------------------------------------------------------------------------------------------------
// candidate lines (token-level model) and SDP text
// ------------------------------------------------------------------------------------------------
fn cand_case(s: &mut Sink, line: &str, kind: &str, what: &str) {
    let bs = line.as_bytes().to_vec();
    let (o, fail) = s.run_pure(T_CAND, &[], &[bs.clone()]);
    // the model works on ASCII tokens; non-ASCII lines are oracle-only
    let ascii = bs.iter().all(|b| *b < 128);
    let toks = cand::tokens(&bs);
    // aux: [ip_ok] for token 4 with the parsed port (0 if the port token does not parse); raddr validity per token
    let port = toks.get(5).and_then(|t| String::from_utf8_lossy(t).parse::<u16>().ok()).unwrap_or(0);
    let ipok = toks.get(4).map(|t| cand::ip_ok(t, port)).unwrap_or(false);
    let mut aux = vec![ipok as i128];
    for t in &toks { aux.push(cand::ipaddr_ok(t) as i128); }
    let len = bs.len();
    let term = if ascii && len <= 400 {
        format!("mkCase {} {} {} {} {}", T_CAND, zlist(aux.iter().copied()), list_term(&toks.iter().map(|b| bytes_term(b)).collect::<Vec<_>>()), o.v, zlist(o.dig.iter().copied()))
    } else { "-".into() };
    s.out.push(Case {
        term,
        desc: json!({"target": tname(T_CAND), "line": line, "what": what, "impl_verdict": match o.v { V_OK => "Ok", V_ERR => "Err", _ => "Panic" }}),
        oracle_fail: fail, known: None, nontrivial: o.v == V_OK, key: format!("cand|{}", line), kind: kind.into(),
    });
}

fn cand_streams(s: &mut Sink, rng: &mut Rng, thorough: bool) {
    let base = ["candidate:1", "1", "udp", "2130706431", "192.168.1.2", "54321", "typ", "host"];
    cand_case(s, &base.join(" "), "corpus", "valid host candidate");
    cand_case(s, "candidate:1 1 tcp 2130706431 192.168.1.2 9 typ host tcptype passive", "corpus", "valid tcp candidate");
    cand_case(s, "candidate:1 1 tcp 2130706431 192.168.1.2 9 typ host tcptype", "corpus", "tcptype keyword without value");
    cand_case(s, "candidate:1 1 TCP 1 ::1 9 typ srflx raddr 10.0.0.1 rport 7 tcptype so generation 0", "corpus", "ipv6, raddr/rport, tcptype at odd distance");
    cand_case(s, "candidate:1 1 udp 4294967295 1.2.3.4 65535 typ relay raddr 1.2.3.4 rport 65535", "corpus", "maximal numeric fields");
    cand_case(s, "candidate:1 1 udp 4294967296 1.2.3.4 65535 typ relay", "corpus", "priority 2^32");
    cand_case(s, "", "corpus", "empty line");
    let vals: &[&str] = &["0", "1", "255", "256", "65535", "65536", "4294967295", "4294967296", "18446744073709551616", "-1", "+1", "", "x", "1x", "００"];
    for i in 0..8 {
        for v in vals {
            let mut t: Vec<String> = base.iter().map(|x| x.to_string()).collect();
            t[i] = v.to_string();
            cand_case(s, &t.join(" "), "structured", &format!("token {} := {:?}", i, v));
        }
        // drop token i / truncate after token i
        let mut t: Vec<String> = base.iter().map(|x| x.to_string()).collect();
        t.remove(i);
        cand_case(s, &t.join(" "), "structured", &format!("token {} removed", i));
        cand_case(s, &base[..i].join(" "), "structured", &format!("first {} tokens only", i));
    }
    let exts: &[&str] = &["tcptype", "active", "passive", "so", "raddr", "rport", "10.0.0.1", "::", "7", "65536", "generation", "0", "x"];
    let n = if thorough { 1500 } else { 300 };
    for _ in 0..n {
        let mut t: Vec<String> = base.iter().map(|x| x.to_string()).collect();
        if rng.chance(1, 2) { t[2] = "tcp".into(); }
        if rng.chance(1, 6) { t[4] = rng.pick(&["::1", "fe80::1", "1.2.3", "999.1.1.1", "[::1]", "::ffff:1.2.3.4"]).to_string(); }
        if rng.chance(1, 6) { t[7] = rng.pick(&["srflx", "prflx", "relay", "Host", ""]).to_string(); }
        for _ in 0..rng.below(7) { t.push(rng.pick(exts).to_string()); }
        let sep = if rng.chance(1, 8) { "\t " } else { " " };
        cand_case(s, &t.join(sep), "random", "valid prefix + random extension tokens");
    }
}

// ------------------------------------------------------------------------------------------------
// remote SDP through the PeerConnection API (hostile but parseable)
// ------------------------------------------------------------------------------------------------
mod sdpx {
    use super::*;
    use rustrtc::{PeerConnection, RtcConfiguration, SdpType, SessionDescription};

    pub const FP: &str = "sha-256 AA:BB:CC:DD:EE:FF:00:11:22:33:44:55:66:77:88:99:AA:BB:CC:DD:EE:FF:00:11:22:33:44:55:66:77:88:99";

    /// a browser-like offer; `{…}` placeholders are the numeric / token fields that get mutated
    pub fn template() -> Vec<(&'static str, &'static str)> {
        vec![
            ("MID0", "0"), ("MID1", "1"), ("MID2", "2"), ("PT_OPUS", "111"), ("PT_VP8", "96"), ("PT_RTX", "97"), ("APT", "96"),
            ("PORT", "9"), ("SSRC", "1234567890"), ("EXTID", "3"), ("SCTPPORT", "5000"), ("MAXMSG", "262144"),
            ("CLOCK", "48000"), ("CHANNELS", "2"), ("CANDPRIO", "2130706431"), ("CANDPORT", "50000"), ("CANDCOMP", "1"),
            ("RTCPPORT", "9"), ("SETUP", "actpass"), ("PTIME", "20"), ("RIDID", "hi"), ("SESSID", "4611731400430051336"), ("SESSVER", "2"),
        ]
    }
    pub fn render(vals: &std::collections::BTreeMap<&str, String>) -> String {
        let g = |k: &str| vals.get(k).cloned().unwrap_or_default();
        format!("v=0\r\no=- {sessid} {sessver} IN IP4 127.0.0.1\r\ns=-\r\nt=0 0\r\na=group:BUNDLE {m0} {m1} {m2}\r\na=msid-semantic: WMS\r\n\
m=audio {port} UDP/TLS/RTP/SAVPF {opus}\r\nc=IN IP4 0.0.0.0\r\na=rtcp:{rtcpport} IN IP4 0.0.0.0\r\na=ice-ufrag:abcd\r\na=ice-pwd:abcdefghijklmnopqrstuvwx\r\n\
a=fingerprint:{fp}\r\na=setup:{setup}\r\na=mid:{m0}\r\na=extmap:{extid} urn:ietf:params:rtp-hdrext:sdes:mid\r\na=sendrecv\r\na=rtcp-mux\r\n\
a=rtpmap:{opus} opus/{clock}/{channels}\r\na=fmtp:{opus} minptime=10;useinbandfec=1\r\na=ptime:{ptime}\r\na=ssrc:{ssrc} cname:x\r\n\
a=candidate:1 {candcomp} udp {candprio} 127.0.0.1 {candport} typ host\r\n\
m=video {port} UDP/TLS/RTP/SAVPF {vp8} {rtx}\r\nc=IN IP4 0.0.0.0\r\na=ice-ufrag:abcd\r\na=ice-pwd:abcdefghijklmnopqrstuvwx\r\na=fingerprint:{fp}\r\na=setup:{setup}\r\n\
a=mid:{m1}\r\na=extmap:{extid} urn:ietf:params:rtp-hdrext:sdes:mid\r\na=sendrecv\r\na=rtcp-mux\r\na=rtpmap:{vp8} VP8/90000\r\na=rtcp-fb:{vp8} nack\r\na=rtcp-fb:{vp8} nack pli\r\n\
a=rtpmap:{rtx} rtx/90000\r\na=fmtp:{rtx} apt={apt}\r\na=rid:{rid} send\r\na=simulcast:send {rid}\r\na=ssrc-group:FID {ssrc} 2\r\na=ssrc:{ssrc} cname:x\r\n\
m=application {port} UDP/DTLS/SCTP webrtc-datachannel\r\nc=IN IP4 0.0.0.0\r\na=ice-ufrag:abcd\r\na=ice-pwd:abcdefghijklmnopqrstuvwx\r\na=fingerprint:{fp}\r\na=setup:{setup}\r\n\
a=mid:{m2}\r\na=sctp-port:{sctpport}\r\na=max-message-size:{maxmsg}\r\n",
            sessid = g("SESSID"), sessver = g("SESSVER"), m0 = g("MID0"), m1 = g("MID1"), m2 = g("MID2"), port = g("PORT"), opus = g("PT_OPUS"),
            rtcpport = g("RTCPPORT"), fp = FP, setup = g("SETUP"), extid = g("EXTID"), clock = g("CLOCK"), channels = g("CHANNELS"), ptime = g("PTIME"),
            ssrc = g("SSRC"), candcomp = g("CANDCOMP"), candprio = g("CANDPRIO"), candport = g("CANDPORT"), vp8 = g("PT_VP8"), rtx = g("PT_RTX"),
            apt = g("APT"), rid = g("RIDID"), sctpport = g("SCTPPORT"), maxmsg = g("MAXMSG"))
    }

    /// parse + set_remote_description(offer) + create_answer + set_local_description on a fresh PeerConnection
    pub async fn apply(sdp: &str) -> (i128, Option<String>, Duration) {
        let p0 = panics();
        let t0 = Instant::now();
        let sdp2 = sdp.to_string();
        let h = tokio::spawn(async move {
            let desc = match SessionDescription::parse(SdpType::Offer, &sdp2) { Ok(d) => d, Err(_) => return V_ERR };
            let pc = PeerConnection::new(RtcConfiguration::default());
            let r = pc.set_remote_description(desc).await;
            let v = match r {
                Err(_) => V_ERR,
                Ok(()) => {
                    if let Ok(ans) = pc.create_answer().await {
                        let _ = ans.to_sdp_string();
                        let _ = pc.set_local_description(ans);
                    }
                    V_OK
                }
            };
            pc.close();
            v
        });
        let r = tokio::time::timeout(Duration::from_secs(10), h).await;
        let dur = t0.elapsed();
        match r {
            Err(_) => (V_OK, Some(format!("HANG: set_remote_description did not return within 10 s")), dur),
            Ok(Err(e)) if e.is_panic() => (V_PANIC, Some(format!("PANIC in set_remote_description/create_answer: {}", last_panic())), dur),
            Ok(Err(_)) => (V_ERR, None, dur),
            Ok(Ok(v)) => {
                if panics() > p0 { (v, Some(format!("PANIC in a task spawned by set_remote_description: {}", last_panic())), dur) } else { (v, None, dur) }
            }
        }
    }
}

async fn sdp_case(s: &mut Sink, sdp: &str, kind: &str, what: &str, mid_model: Option<i128>) {
    let w = AllocWin::start();
    let (v, fail, dur) = sdpx::apply(sdp).await;
    live_alloc_note("a fresh PeerConnection (remote SDP)", sdp.as_bytes(), &w);
    s.count(T_SET_REMOTE, v);
    let m = s.max_dur_us.entry(T_SET_REMOTE).or_insert(0);
    *m = (*m).max(dur.as_micros() as u64);
    // model comparison only for the a=mid arithmetic: aux = [mid value], verdict
    let term = match mid_model { Some(mid) if v != V_ERR || fail.is_some() => format!("mkCase {} [{}] [] {} []", T_MID, mid, v), Some(mid) => format!("mkCase {} [{}] [] {} []", T_MID, mid, V_OK), None => "-".into() };
    let _ = &term;
    s.out.push(Case {
        term: if mid_model.is_some() && v != V_ERR { term } else { "-".into() },
        desc: json!({"target": tname(T_SET_REMOTE), "what": what, "sdp": if sdp.len() > 3000 { format!("{}...(+{}B)", &sdp[..3000], sdp.len() - 3000) } else { sdp.to_string() },
                     "impl_verdict": match v { V_OK => "Ok", V_ERR => "Err", _ => "Panic" }, "ms": dur.as_millis() as u64}),
        oracle_fail: fail, known: None, nontrivial: v == V_OK, key: format!("sdp|{}", what), kind: kind.into(),
    });
}

async fn sdp_streams(s: &mut Sink, rng: &mut Rng, thorough: bool) {
    let tpl = sdpx::template();
    let base: std::collections::BTreeMap<&str, String> = tpl.iter().map(|(k, v)| (*k, v.to_string())).collect();
    sdp_case(s, &sdpx::render(&base), "corpus", "valid browser-like offer (audio+video+datachannel)", Some(2)).await;
    // F5 witness and neighbours
    for mid in ["65535", "65534", "65536", "0", "4294967295", "-1", "00065535", "+65535"] {
        let mut m = base.clone();
        m.insert("MID2", mid.to_string());
        let mm = mid.parse::<u16>().ok().map(|x| x as i128);
        sdp_case(s, &sdpx::render(&m), "corpus", &format!("F5 witness/neighbour: a=mid:{} on the data section", mid), mm).await;
    }
    for mid in ["65535", "65534"] {
        let mut m = base.clone();
        m.insert("MID0", mid.to_string());
        sdp_case(s, &sdpx::render(&m), "corpus", &format!("a=mid:{} on the audio section", mid), mid.parse::<u16>().ok().map(|x| x as i128)).await;
    }
    let vals: &[&str] = &["0", "1", "15", "16", "127", "128", "255", "256", "65535", "65536", "2147483647", "2147483648", "4294967295", "4294967296",
                          "18446744073709551615", "18446744073709551616", "-1", "", "x", "1 2", "9999999999999999999999999"];
    for (k, _) in &tpl {
        for v in vals {
            if !thorough && (k == &"SESSID" || k == &"SESSVER") && v.len() < 5 { continue; }
            let mut m = base.clone();
            m.insert(*k, v.to_string());
            let mid_model = if k.starts_with("MID") { v.parse::<u16>().ok().map(|x| x as i128) } else { None };
            sdp_case(s, &sdpx::render(&m), "structured", &format!("{} := {:?}", k, v), mid_model).await;
        }
    }
    // line-level mutations: drop / duplicate / truncate each line of the valid offer
    let valid = sdpx::render(&base);
    let lines: Vec<&str> = valid.split("\r\n").filter(|l| !l.is_empty()).collect();
    let step = if thorough { 1 } else { 2 };
    for i in (0..lines.len()).step_by(step) {
        let mut l = lines.clone(); l.remove(i);
        sdp_case(s, &(l.join("\r\n") + "\r\n"), "structured", &format!("line {} removed ({})", i, lines[i].chars().take(24).collect::<String>()), None).await;
        let mut l = lines.clone(); l.insert(i, lines[i]);
        sdp_case(s, &(l.join("\r\n") + "\r\n"), "structured", &format!("line {} duplicated", i), None).await;
        let mut l: Vec<String> = lines.iter().map(|x| x.to_string()).collect();
        let cut = l[i].len() / 2; l[i].truncate(cut.max(2));
        sdp_case(s, &(l.join("\r\n") + "\r\n"), "structured", &format!("line {} truncated", i), None).await;
    }
    // many media sections / very long attribute / many candidates (size up to 64 KiB)
    let mut big = valid.clone();
    while big.len() < 60000 { big.push_str("a=candidate:1 1 udp 2130706431 127.0.0.1 50000 typ host\r\n"); }
    sdp_case(s, &big, "structured-large", "60 KiB of candidate lines on the last section", None).await;
    let mut big = String::from("v=0\r\no=- 1 1 IN IP4 127.0.0.1\r\ns=-\r\nt=0 0\r\n");
    let mut k = 0;
    while big.len() < 60000 { big.push_str(&format!("m=audio 9 UDP/TLS/RTP/SAVPF 0\r\nc=IN IP4 0.0.0.0\r\na=ice-ufrag:abcd\r\na=ice-pwd:abcdefghijklmnopqrstuvwx\r\na=fingerprint:{}\r\na=setup:actpass\r\na=mid:{}\r\na=sendrecv\r\na=rtcp-mux\r\n", sdpx::FP, k)); k += 1; }
    sdp_case(s, &big, "structured-large", "60 KiB offer with hundreds of audio sections", None).await;
    let n = if thorough { 300 } else { 40 };
    for i in 0..n {
        // random field soup: every placeholder gets a random boundary value
        let mut m = base.clone();
        for (k, _) in &tpl { if rng.chance(1, 4) { m.insert(*k, rng.pick(vals).to_string()); } }
        sdp_case(s, &sdpx::render(&m), "random", &format!("random boundary values in several fields #{}", i), None).await;
    }
}

// ------------------------------------------------------------------------------------------------
// UDPTL over a real loopback socket
// ------------------------------------------------------------------------------------------------
async fn udptl_streams(s: &mut Sink, rng: &mut Rng, thorough: bool) {
    use rustrtc::{UdtlConfig, UdtlReceiveBuffer, UdtlTransport};
    use std::sync::Arc;
    use tokio::net::UdpSocket;
    let a = Arc::new(UdpSocket::bind("127.0.0.1:0").await.unwrap());
    let b = UdpSocket::bind("127.0.0.1:0").await.unwrap();
    let max_dg = 1400usize;
    let tr = UdtlTransport::with_config(a.clone(), b.local_addr().unwrap(), UdtlConfig { redundancy_depth: 2, max_buffer: 1024, max_datagram: max_dg as u16 });
    let dest = a.local_addr().unwrap();
    let mut inputs: Vec<(Vec<u8>, String, &str)> = vec![];
    let mk = |seq: u16, prim: &[u8], red: &[&[u8]]| { let mut v = seq.to_be_bytes().to_vec(); v.extend((prim.len() as u16).to_be_bytes()); v.extend(prim); for r in red { v.extend((r.len() as u16).to_be_bytes()); v.extend(*r); } v };
    inputs.push((mk(1, b"ifp", &[]), "valid, no redundancy".into(), "corpus"));
    inputs.push((mk(1, b"ifp", &[b"r1", b""]), "valid, two redundant".into(), "corpus"));
    inputs.push((vec![0], "one byte".into(), "corpus"));
    inputs.push((vec![0, 1], "sequence only".into(), "corpus"));
    inputs.push((vec![0, 1, 0], "half a length".into(), "corpus"));
    inputs.push((vec![0, 1, 0xFF, 0xFF], "primary length 65535, no data".into(), "corpus"));
    for b0 in 0..=255u8 { if b0 % 16 == 0 || b0 < 4 { inputs.push((vec![b0], "one byte".into(), "exhaustive")); for b1 in [0u8, 1, 2, 255] { inputs.push((vec![b0, b1], "two bytes".into(), "exhaustive")); } } }
    for _ in 0..(if thorough { 40 } else { 8 }) {
        let mut m = Msg::new();
        m.u16(if rng.chance(3, 4) { 1 } else { rng.below(65536) as u16 });
        let l = rng.below(12) as usize; m.len16(l); m.bytes(&rng.bytes(l));
        for _ in 0..rng.below(3) { let l = rng.below(6) as usize; m.len16(l); m.bytes(&rng.bytes(l)); }
        for (w, b) in m.mutations(rng) { inputs.push((b, w, "structured")); }
    }
    for i in 0..(if thorough { 600 } else { 120 }) {
        let l = if i < 3 { [1400usize, 1401, 2000][i] } else { rng.below(1500) as usize };
        let mut v = rng.bytes(l);
        if v.len() >= 2 && rng.chance(1, 2) { v[0] = 0; v[1] = 1; }
        if rng.chance(1, 2) { for x in v.iter_mut().skip(2) { *x &= 3; } }
        inputs.push((v, "random datagram".into(), "random"));
    }
    for (bs, what, kind) in inputs {
        if bs.is_empty() { continue; }
        while let Ok(_) = a.try_recv_from(&mut [0u8; 16]) {}
        b.send_to(&bs, dest).await.unwrap();
        let p0 = panics();
        let t0 = Instant::now();
        let mut rb = UdtlReceiveBuffer::new();
        let w = AllocWin::start();
        let r = tokio::time::timeout(Duration::from_secs(2), std::panic::AssertUnwindSafe(tr.recv(&mut rb))).await;
        live_alloc_note("UdtlTransport::recv", &bs, &w);
        let r = match r { Ok(x) => Ok(x), Err(_) => Err(()) };
        let dur = t0.elapsed();
        let (o, fail) = match r {
            Err(()) => (Out1 { v: V_OK, dig: vec![] }, Some("HANG: UdtlTransport::recv did not return within 2 s of a datagram arriving".to_string())),
            Ok(Ok(None)) => (Out1 { v: V_OK, dig: vec![0] }, None),
            Ok(Ok(Some(d))) => { let mut g = vec![1]; bdig(&mut g, &d); (Out1 { v: V_OK, dig: g }, None) }
            Ok(Err(_)) => (Out1 { v: V_ERR, dig: vec![] }, None),
        };
        let fail = if fail.is_none() && panics() > p0 { Some(format!("PANIC in UdtlTransport::recv: {}", last_panic())) } else { fail };
        let fail = if fail.is_none() && dur > Duration::from_millis(500) { Some(format!("HANG: UdtlTransport::recv took {:?}", dur)) } else { fail };
        s.count(T_UDPTL, o.v);
        s.push_case(T_UDPTL, &[max_dg as i128], &[bs], &o, fail, kind, &what, true);
    }
    // a panic inside recv would unwind through this task: run the same stream once more under catch (only reached if none happened)
}

// ------------------------------------------------------------------------------------------------
// live SCTP endpoint (real SctpTransport on a real DTLS transport, harness = scripted peer)
// ------------------------------------------------------------------------------------------------
mod sctpx {
    use super::*;
    pub use vh::net::sctp_wire::*;
    pub use vh::sctp_peer::*;

    pub fn raw_packet(vtag: u32, chunk_area: &[u8]) -> Vec<u8> {
        let mut p = Vec::with_capacity(12 + chunk_area.len());
        p.extend_from_slice(&PEER_PORT.to_be_bytes());
        p.extend_from_slice(&UUT_PORT.to_be_bytes());
        p.extend_from_slice(&vtag.to_be_bytes());
        p.extend_from_slice(&[0, 0, 0, 0]);
        p.extend_from_slice(chunk_area);
        let crc = crc32c(&p);
        p[8..12].copy_from_slice(&crc.to_le_bytes());
        p
    }
    pub fn chunk_bytes(ty: u8, flags: u8, value: &[u8]) -> Vec<u8> {
        let mut p = vec![ty, flags];
        p.extend_from_slice(&((value.len() + 4) as u16).to_be_bytes());
        p.extend_from_slice(value);
        while p.len() % 4 != 0 { p.push(0); }
        p
    }

    pub struct Live {
        pub u: Uut,
        pub n: u64,
        /// highest TSN of the endpoint's own DATA we have acknowledged
        pub acked: Option<u32>,
    }
    impl Live {
        pub async fn start(opts: UutOpts) -> Live { Live { u: Uut::start(opts).await, n: 0, acked: None } }
        /// inject the packets, then a sentinel HEARTBEAT; everything the endpoint emits before the
        /// sentinel's HEARTBEAT-ACK, in order (None = the endpoint stopped answering)
        pub async fn exchange(&mut self, raws: Vec<Vec<u8>>) -> Option<Vec<Chunk>> {
            let all: Vec<u8> = raws.concat();
            let w = AllocWin::start();
            let r = self.exchange_inner(raws).await;
            live_alloc_note("the live SCTP endpoint", &all, &w);
            r
        }
        async fn exchange_inner(&mut self, raws: Vec<Vec<u8>>) -> Option<Vec<Chunk>> {
            for r in raws { self.u.inject_raw(r); }
            self.n += 1;
            let mut sent = b"C07SENT:".to_vec();
            sent.extend_from_slice(&self.n.to_be_bytes());
            self.u.inject_raw(raw_packet(self.u.uut_tag, &chunk_bytes(4, 0, &sent)));
            let mut out = vec![];
            let deadline = Instant::now() + Duration::from_secs(3);
            loop {
                let left = deadline.saturating_duration_since(Instant::now());
                if left.is_zero() { return None; }
                let p = self.u.next_packet(left).await?;
                for c in p.chunks {
                    if c.ty == 5 && c.value == sent { return Some(out); }
                    if c.ty == 4 {
                        // the endpoint's own keep-alive: answer it, or it will declare the peer dead after a few misses
                        self.u.inject_chunks(&[Chunk { ty: 5, flags: 0, value: c.value.clone() }]);
                        continue;
                    }
                    if let Some(d) = parse_data(&c) {
                        // acknowledge the endpoint's own DATA so that it does not retransmit
                        self.acked = Some(d.tsn);
                        self.u.inject_chunks(&[sack_chunk(d.tsn, 1 << 20, &[], &[])]);
                    }
                    out.push(c);
                }
            }
        }
    }
    pub fn flat(chunks: &[Chunk], keep: impl Fn(&Chunk) -> bool) -> Vec<i128> {
        let mut d = vec![];
        for c in chunks { if keep(c) { d.push(c.ty as i128); bdig(&mut d, &c.value); } }
        d
    }
}

fn sctp_fail(s: &mut Sink, t: u32, what: &str, msg: String, input: &[u8]) {
    s.out.push(Case { term: "-".into(), desc: json!({"target": tname(t), "what": what, "input_hex": hex(input), "input_full_hex": input.iter().map(|b| format!("{:02x}", b)).collect::<String>()}),
                      oracle_fail: Some(msg), known: None, nontrivial: false, key: format!("sctpfail|{}|{}", t, what), kind: "live".into() });
}

/// the endpoint still SACKs a genuine DATA chunk (and delivers it): the liveness probe after each batch
async fn sctp_liveness(s: &mut Sink, live: &mut sctpx::Live, next_tsn: u32, sid: u16, what: &str) -> bool {
    use sctpx::*;
    let p0 = panics();
    live.u.inject_chunks(&[data_chunk(next_tsn, sid, 0, 53, 0x07, b"probe")]); // unordered, complete
    let r = live.exchange(vec![]).await;
    let r2 = live.exchange(vec![]).await; // the SACK is sent after the batch that contained the DATA
    let mut sacked = false;
    for c in r.iter().flatten().chain(r2.iter().flatten()) { if c.ty == 3 { if let Some(k) = parse_sack(&c.value) { if k.cum == next_tsn { sacked = true; } } } }
    let ok = r.is_some() && r2.is_some() && sacked && panics() == p0;
    s.out.push(Case { term: "-".into(), desc: json!({"target": "sctp liveness probe", "what": what, "tsn": next_tsn, "sacked": sacked, "answered": r.is_some()}),
        oracle_fail: if ok { None } else { Some(format!("LIVENESS: after {} the endpoint no longer SACKs a genuine DATA chunk (answered={}, sacked={}, panics={})", what, r.is_some(), sacked, panics() - p0)) },
        known: None, nontrivial: true, key: format!("live|{}", what), kind: "live".into() });
    ok
}

/// inert chunk types for the walker stream: whatever their length, they do not change association state
const INERT_TYPES: &[u8] = &[4, 5, 7, 9, 10, 11, 1, 2, 15, 63, 64, 127, 129, 191, 193, 255];
/// chunk types that legitimately end the association (ABORT, SHUTDOWN-ACK, SHUTDOWN-COMPLETE): kept out of the
/// streams that need a living endpoint, exercised in the closing stage
const CLOSING_TYPES: &[u8] = &[6, 8, 14];

async fn sctp_streams(s: &mut Sink, rng: &mut Rng, thorough: bool) {
    use sctpx::*;
    let cfgch = rustrtc::transports::sctp::DataChannelConfig { label: "x".into(), negotiated: Some(0), ordered: true, ..Default::default() };
    let quiet = || { let mut c = rustrtc::RtcConfiguration::default(); c.sctp_heartbeat_interval = Duration::from_secs(600); c };
    // ---- (1) chunk walker: bundles of inert chunks, every length field mutated; model predicts the responses
    let mut live = Live::start(UutOpts { sctp_client: true, channels: vec![(0, cfgch.clone())], config: quiet(), ..Default::default() }).await;
    let tag = live.u.uut_tag;
    let mut areas: Vec<(Vec<u8>, String, &str)> = vec![];
    areas.push((chunk_bytes(4, 0, b"hb-info-1"), "one HEARTBEAT".into(), "corpus"));
    areas.push((vec![4, 0, 0, 4], "HEARTBEAT with empty value".into(), "corpus"));
    areas.push((vec![4, 0, 0, 3, 0, 0, 0, 0], "chunk length 3 (< header)".into(), "corpus"));
    areas.push((vec![4, 0, 0, 0], "chunk length 0".into(), "corpus"));
    areas.push((vec![4, 0, 0xFF, 0xFF], "chunk length 65535, nothing follows".into(), "corpus"));
    areas.push((vec![4, 0, 0, 5, 1], "chunk length 5, value present, padding missing".into(), "corpus"));
    areas.push((vec![4, 0, 0, 5, 1, 0, 0], "chunk length 5, padding short by one".into(), "corpus"));
    areas.push((vec![4, 0, 0], "three bytes of chunk header".into(), "corpus"));
    areas.push((vec![], "no chunk at all".into(), "corpus"));
    { let mut a = vec![]; for _ in 0..16000 { a.extend([64u8, 0, 0, 4]); } areas.push((a, "16000 empty unknown chunks (64 KB)".into(), "structured-large")); }
    { let mut a = vec![]; for i in 0..300u32 { a.extend(chunk_bytes(4, 0, &i.to_be_bytes())); } areas.push((a, "300 HEARTBEATs in one packet".into(), "structured-large")); }
    for _ in 0..(if thorough { 60 } else { 12 }) {
        let mut m = Msg::new();
        for _ in 0..rng.range(1, 4) {
            let ty = *rng.pick(INERT_TYPES);
            let l = rng.below(9) as usize;
            m.u8(ty); m.u8(rng.below(256) as u8); m.len16(l + 4); m.bytes(&rng.bytes(l));
            while m.b.len() % 4 != 0 { m.u8(0); }
        }
        for (w, mut b) in m.mutations(rng) {
            // keep every chunk type inert even when a mutation re-synchronises the walk on other bytes
            let _ = &mut b;
            areas.push((b, w, "structured"));
        }
    }
    for _ in 0..(if thorough { 1500 } else { 250 }) {
        let l = rng.below(40) as usize;
        let mut b = rng.bytes(l);
        // random bytes, but type bytes can land anywhere: restrict every byte value to inert types / small lengths
        for x in b.iter_mut() { *x = if rng.chance(1, 3) { *rng.pick(INERT_TYPES) } else { (*x) & 0x0F }; if CLOSING_TYPES.contains(x) { *x = 4; } }
        areas.push((b, "random inert-typed bytes".into(), "random"));
    }
    let p0 = panics();
    for (area, what, kind) in areas {
        // a walk can only dispatch types that occur as bytes of the area: make sure none is state-changing
        let safe = area.iter().all(|b| INERT_TYPES.contains(b) || *b < 0x10 && ![0u8, 3, 6, 8, 14].contains(b)) || area.len() > 5000 || kind == "corpus";
        let area: Vec<u8> = if safe { area } else { area.iter().map(|b| if [0u8, 3, 6, 8, 14, 130, 192].contains(b) { 4 } else { *b }).collect() };
        let pp = panics();
        let r = live.exchange(vec![raw_packet(tag, &area)]).await;
        match r {
            None => { sctp_fail(s, T_SCTP_WALK, &what, format!("LIVENESS/PANIC: endpoint stopped answering after this packet (panics {}): {}", panics() - pp, last_panic()), &area); break; }
            Some(ch) => {
                let dig = flat(&ch, |c| c.ty != 3);
                let o = Out1 { v: V_OK, dig };
                let fail = if panics() > pp { Some(format!("PANIC in a task while handling the packet: {}", last_panic())) } else { None };
                s.count(T_SCTP_WALK, V_OK);
                s.push_case(T_SCTP_WALK, &[], &[area], &o, fail, kind, &what, true);
            }
        }
    }
    let t = live.u.peer_initial_tsn;
    sctp_liveness(s, &mut live, t, 0, "the chunk-walker stream").await;
    let _ = p0;

    // ---- (2) SACK / FORWARD-TSN / RECONFIG / DATA+DCEP readers on an established association
    let mut cum = t; // the probe above was TSN t
    // SACK values: verdict only (no observable digest), then liveness
    let mut sacks: Vec<(Vec<u8>, String, &str)> = vec![];
    for _ in 0..(if thorough { 30 } else { 6 }) {
        let mut m = Msg::new();
        m.u32(live.acked.unwrap_or(0).wrapping_add(rng.below(3) as u32).wrapping_sub(1)); m.u32(1 << 20);
        let ng = rng.below(4) as usize; let nd = rng.below(3) as usize;
        m.len16(ng); m.len16(nd);
        for _ in 0..ng { m.u16(rng.range(1, 5) as u16); m.u16(rng.range(1, 9) as u16); }
        for _ in 0..nd { m.u32(rng.next() as u32); }
        for (w, b) in m.mutations(rng) { sacks.push((b, w, "structured")); }
    }
    sacks.push((vec![0xFF; 12], "SACK of all ones, 65535 gap blocks declared, none present".into(), "corpus"));
    { let mut v = vec![0u8; 8]; v.extend([0xFF, 0xFF, 0, 0]); v.extend(vec![0u8; 60000]); sacks.push((v, "SACK with 15000 zero gap blocks (60 KB)".into(), "structured-large")); }
    for _ in 0..(if thorough { 600 } else { 100 }) { let l = rng.below(64) as usize; sacks.push((rng.bytes(l), "random SACK value".into(), "random")); }
    for (v, what, kind) in sacks {
        let pp = panics();
        let r = live.exchange(vec![raw_packet(tag, &chunk_bytes(3, 0, &v))]).await;
        let fail = if r.is_none() { Some(format!("LIVENESS/PANIC: endpoint stopped answering after this SACK: {}", last_panic())) }
                   else if panics() > pp { Some(format!("PANIC while handling SACK: {}", last_panic())) } else { None };
        s.count(T_SCTP_SACK, V_OK);
        let dead = r.is_none();
        s.push_case(T_SCTP_SACK, &[], &[v], &Out1 { v: V_OK, dig: vec![] }, fail, kind, &what, true);
        if dead { return; }
    }
    cum = cum.wrapping_add(1);
    sctp_liveness(s, &mut live, cum, 0, "the SACK stream").await;

    // RECONFIG: parameter walker; responses carry (request_sn, result)
    let mut last_sn: i128 = 0xFFFF_FFFF;
    let mut recs: Vec<(Vec<u8>, String, &str)> = vec![];
    for _ in 0..(if thorough { 40 } else { 8 }) {
        let mut m = Msg::new();
        for _ in 0..rng.range(1, 3) {
            let ty = *rng.pick(&[13u16, 13, 16, 14, 99]);
            let n = rng.below(3) as usize;
            let l = if ty == 13 { 12 + 2 * n } else if ty == 16 { 8 } else { rng.below(6) as usize };
            m.u16(ty); m.len16(l + 4);
            if ty == 13 { m.u32(rng.below(6) as u32); m.u32(0); m.u32(0); for _ in 0..n { m.u16(rng.below(3) as u16); } } else { m.bytes(&rng.bytes(l)); }
            while m.b.len() % 4 != 0 { m.u8(0); }
        }
        for (w, b) in m.mutations(rng) { recs.push((b, w, "structured")); }
    }
    for _ in 0..(if thorough { 400 } else { 60 }) { let l = rng.below(40) as usize; let mut b = rng.bytes(l); for x in b.iter_mut() { *x = *rng.pick(&[0u8, 0, 0, 13, 16, 4, 8, 12, 16, 20, 1, 255]); } recs.push((b, "random RECONFIG value over a small alphabet".into(), "random")); }
    for (v, what, kind) in recs {
        let pp = panics();
        let r = live.exchange(vec![raw_packet(tag, &chunk_bytes(130, 0, &v))]).await;
        match r {
            None => { sctp_fail(s, T_SCTP_RECONFIG, &what, format!("LIVENESS/PANIC: endpoint stopped answering after this RECONFIG: {}", last_panic()), &v); return; }
            Some(ch) => {
                let mut dig = vec![];
                for c in &ch { if c.ty == 130 && c.value.len() >= 12 && c.value[0..2] == [0, 16] {
                    let sn = u32::from_be_bytes([c.value[4], c.value[5], c.value[6], c.value[7]]) as i128;
                    let res = u32::from_be_bytes([c.value[8], c.value[9], c.value[10], c.value[11]]) as i128;
                    dig.push(sn); dig.push(res);
                } }
                let fail = if panics() > pp { Some(format!("PANIC while handling RECONFIG: {}", last_panic())) } else { None };
                s.count(T_SCTP_RECONFIG, V_OK);
                s.push_case(T_SCTP_RECONFIG, &[last_sn], &[v], &Out1 { v: V_OK, dig: dig.clone() }, fail, kind, &what, true);
                // track the endpoint's last accepted request number from its own answers
                let mut i = 0; while i + 1 < dig.len() { if dig[i + 1] == 1 { last_sn = dig[i]; } i += 2; }
            }
        }
    }
    cum = cum.wrapping_add(1);
    sctp_liveness(s, &mut live, cum, 0, "the RECONFIG stream").await;

    // DATA carrying DCEP: payload fuzz; digest = [dcep ack sent, cumulative TSN advanced]
    let mut dceps: Vec<(Vec<u8>, String, &str)> = vec![(vec![], "empty DCEP payload".into(), "corpus"), (vec![2], "DCEP ACK".into(), "corpus"), (vec![3], "DCEP OPEN type byte only".into(), "corpus"), (vec![9, 9], "unknown DCEP type".into(), "corpus")];
    for _ in 0..(if thorough { 20 } else { 4 }) { let m = gen_dcep_open(rng); for (w, b) in m.mutations(rng) { dceps.push((b, w, "structured")); } }
    for _ in 0..(if thorough { 300 } else { 50 }) { let l = rng.below(24) as usize; let mut b = rng.bytes(l); if !b.is_empty() { b[0] = *rng.pick(&[3u8, 3, 3, 2, 0, 7]); } for x in b.iter_mut().skip(1) { if rng.chance(2, 3) { *x &= 7; } } dceps.push((b, "random DCEP payload".into(), "random")); }
    let mut sid: u16 = 100;
    for (v, what, kind) in dceps {
        let pp = panics();
        sid = sid.wrapping_add(1);
        let tsn = cum.wrapping_add(1);
        let flags = 0x07u8; // unordered, B+E
        let pkt = build_packet(PEER_PORT, UUT_PORT, tag, &[data_chunk(tsn, sid, 0, 50, flags, &v)]);
        let r1 = live.exchange(vec![pkt.clone(), pkt]).await;
        let r2 = live.exchange(vec![]).await;
        if r1.is_none() || r2.is_none() { sctp_fail(s, T_SCTP_DATA, &what, format!("LIVENESS/PANIC: endpoint stopped answering after this DCEP message: {}", last_panic()), &v); return; }
        let all: Vec<Chunk> = r1.unwrap().into_iter().chain(r2.unwrap()).collect();
        let ack = all.iter().filter_map(parse_data).any(|d| d.ppid == 50 && d.sid == sid && d.payload == [2]);
        let advanced = all.iter().any(|c| c.ty == 3 && parse_sack(&c.value).map(|k| k.cum == tsn).unwrap_or(false));
        if advanced { cum = tsn; }
        let fail = if panics() > pp { Some(format!("PANIC while handling DATA/DCEP: {}", last_panic())) } else { None };
        s.count(T_SCTP_DATA, V_OK);
        s.push_case(T_SCTP_DATA, &[flags as i128], &[v], &Out1 { v: V_OK, dig: vec![ack as i128, advanced as i128] }, fail, kind, &what, true);
    }
    sctp_liveness(s, &mut live, cum.wrapping_add(1), 0, "the DATA/DCEP stream").await;
    cum = cum.wrapping_add(1);

    // DATA chunks shorter than their 12-byte header (value length 0..11), next in sequence, ahead of the sequence with the
    // gap closed afterwards, and duplicated; digest = [cumulative TSN advanced]
    {
        let full = |tsn: u32| { let mut v = tsn.to_be_bytes().to_vec(); v.extend([0, 0, 0, 0, 0, 0, 0, 53]); v };
        let mut dead = false;
        for vlen in 0..=12usize {
            for fl in [0x07u8, 0x03, 0x00] {
                let pp = panics();
                let tsn = cum.wrapping_add(1);
                let v = full(tsn)[..vlen].to_vec();
                let pkt = raw_packet(tag, &chunk_bytes(0, fl, &v));
                let r1 = live.exchange(vec![pkt.clone(), pkt]).await;
                let r2 = live.exchange(vec![]).await;
                if r1.is_none() || r2.is_none() { sctp_fail(s, T_SCTP_DATAHDR, "truncated DATA chunk, next in sequence, sent twice", format!("LIVENESS/PANIC: endpoint stopped answering after a DATA chunk with a {}-byte value (panics {}): {}", vlen, panics() - pp, last_panic()), &v); dead = true; break; }
                let all: Vec<Chunk> = r1.unwrap().into_iter().chain(r2.unwrap()).collect();
                let advanced = all.iter().any(|c| c.ty == 3 && parse_sack(&c.value).map(|k| k.cum == tsn).unwrap_or(false));
                if advanced { cum = tsn; }
                let fail = if panics() > pp { Some(format!("PANIC while handling a DATA chunk with a {}-byte value: {}", vlen, last_panic())) } else { None };
                s.count(T_SCTP_DATAHDR, V_OK);
                s.push_case(T_SCTP_DATAHDR, &[fl as i128], &[v], &Out1 { v: V_OK, dig: vec![advanced as i128] }, fail, "corpus", &format!("DATA chunk with a {}-byte value (flags {:#04x}), TSN = cumulative + 1, sent twice", vlen, fl), true);
            }
            if dead { break; }
        }
        // ahead of the sequence (it must not be queued), then the gap filler, then the truncated one again as a duplicate
        if !dead {
            for vlen in [4usize, 5, 8, 11] {
                let pp = panics();
                let ahead = full(cum.wrapping_add(2))[..vlen].to_vec();
                let filler = build_packet(PEER_PORT, UUT_PORT, tag, &[data_chunk(cum.wrapping_add(1), 0, 0, 53, 7, b"fill")]);
                let trunc = raw_packet(tag, &chunk_bytes(0, 7, &ahead));
                let r1 = live.exchange(vec![trunc.clone(), filler, trunc]).await;
                let r2 = live.exchange(vec![]).await;
                let ok = r1.is_some() && r2.is_some() && panics() == pp;
                let all: Vec<Chunk> = r1.into_iter().flatten().chain(r2.into_iter().flatten()).collect();
                let sack = all.iter().filter(|c| c.ty == 3).filter_map(|c| parse_sack(&c.value)).map(|k| k.cum).last();
                if sack == Some(cum.wrapping_add(1)) || sack == Some(cum.wrapping_add(2)) { cum = sack.unwrap(); }
                s.count(T_SCTP_DATAHDR, V_OK);
                s.out.push(Case { term: "-".into(), desc: json!({"target": tname(T_SCTP_DATAHDR), "what": format!("DATA with a {}-byte value and TSN = cumulative + 2, then the genuine chunk that closes the gap, then the truncated one again", vlen), "sack_cum": sack, "input_hex": hex(&ahead)}),
                    oracle_fail: if ok { None } else { Some(format!("LIVENESS/PANIC: a truncated DATA chunk ahead of the sequence followed by the gap filler stopped the endpoint (panics {}): {}", panics() - pp, last_panic())) },
                    known: None, nontrivial: true, key: format!("sctp|datahdr|ahead|{}", vlen), kind: "corpus".into() });
                if !ok { dead = true; break; }
            }
        }
        if dead { return; }
        sctp_liveness(s, &mut live, cum.wrapping_add(1), 0, "the truncated-DATA stream").await;
        cum = cum.wrapping_add(1);
    }

    // FORWARD-TSN: new cumulative TSN observable through the SACK of a duplicate DATA chunk
    let mut fwds: Vec<(Vec<u8>, String, &str)> = vec![(vec![], "empty".into(), "corpus"), (vec![0, 0, 0], "3 bytes".into(), "corpus")];
    for k in 0..(if thorough { 120 } else { 30 }) {
        let delta = *rng.pick(&[0u32, 1, 2, 5, 0xFFFF_FFFF, 0x7FFF_FFFF, 0x8000_0000]);
        let mut v = cum.wrapping_add(if k % 3 == 0 { delta } else { rng.below(4) as u32 }).to_be_bytes().to_vec();
        for _ in 0..rng.below(4) { v.extend((rng.below(3) as u16).to_be_bytes()); v.extend((rng.below(70000) as u16).to_be_bytes()); }
        if rng.chance(1, 4) { v.truncate(v.len().saturating_sub(rng.range(1, 3) as usize)); }
        fwds.push((v, "FORWARD-TSN with stream/ssn pairs".into(), "structured"));
    }
    for (v, what, kind) in fwds {
        let pp = panics();
        let pred = if v.len() >= 4 { let n = u32::from_be_bytes([v[0], v[1], v[2], v[3]]); if n > cum { n } else { cum } } else { cum };
        let r1 = live.exchange(vec![raw_packet(tag, &chunk_bytes(192, 0, &v)), build_packet(PEER_PORT, UUT_PORT, tag, &[data_chunk(pred, 0, 0, 53, 7, b"dup")])]).await;
        let r2 = live.exchange(vec![]).await;
        if r1.is_none() || r2.is_none() { sctp_fail(s, T_SCTP_FWD, &what, format!("LIVENESS/PANIC: endpoint stopped answering after this FORWARD-TSN: {}", last_panic()), &v); return; }
        let all: Vec<Chunk> = r1.unwrap().into_iter().chain(r2.unwrap()).collect();
        let sack_cum = all.iter().filter(|c| c.ty == 3).filter_map(|c| parse_sack(&c.value)).map(|k| k.cum).last();
        let fail = if panics() > pp { Some(format!("PANIC while handling FORWARD-TSN: {}", last_panic())) }
                   else if sack_cum.is_none() { Some("LIVENESS: no SACK for a duplicate DATA chunk after FORWARD-TSN".to_string()) } else { None };
        let newcum = sack_cum.unwrap_or(cum);
        s.count(T_SCTP_FWD, V_OK);
        s.push_case(T_SCTP_FWD, &[cum as i128], &[v], &Out1 { v: V_OK, dig: vec![newcum as i128] }, fail, kind, &what, true);
        cum = newcum;
    }
    sctp_liveness(s, &mut live, cum.wrapping_add(1), 0, "the FORWARD-TSN stream").await;
    drop(live);

    // ---- (3) random packets of every chunk type (oracle only), established and pre-handshake; closing chunks last
    for (round, client) in [(0, true), (1, false), (2, true)] {
        let mut live = Live::start(UutOpts { sctp_client: client, channels: vec![(0, cfgch.clone())], config: quiet(), ..Default::default() }).await;
        let tag = live.u.uut_tag;
        let n = if thorough { 3000 } else { 500 };
        let pp = panics();
        let mut dead = false;
        let mut maxlen = 0;
        for i in 0..n {
            let l = if i < 3 { 65000 } else { random_len(rng, 65000) };
            let mut a = rng.bytes(l);
            // plausible chunk structure at the front, never ABORT / SHUTDOWN-ACK (they legitimately close)
            let mut off = 0;
            while off + 4 <= a.len() && off < 64 {
                a[off] = *rng.pick(&[0u8, 1, 2, 3, 4, 5, 7, 9, 10, 11, 130, 192, 64]);
                let cl = if rng.chance(1, 5) { rng.below(65536) as usize } else { 4 + rng.below(28) as usize };
                a[off + 2] = (cl >> 8) as u8; a[off + 3] = cl as u8;
                off += (cl + 3) & !3;
            }
            for x in a.iter_mut() { if CLOSING_TYPES.contains(x) { *x = 4; } }
            maxlen = maxlen.max(a.len());
            let r = live.exchange(vec![raw_packet(live.u.uut_tag, &a)]).await;
            if r.is_none() {
                // a chunk may legitimately close the association (the close is then visible to the application): not a hang
                match live.u.sctp.close_reason() {
                    Some(reason) if reason.starts_with("REMOTE_") && panics() == pp => {
                        s.out.push(Case { term: "-".into(), desc: json!({"target": tname(T_SCTP_WALK), "what": "random packet closed the association (visible close reason)", "close_reason": reason, "input_hex": hex(&a)}),
                            oracle_fail: None, known: None, nontrivial: true, key: format!("sctp|closed|{}|{}", round, i), kind: "live".into() });
                        live = Live::start(UutOpts { sctp_client: client, channels: vec![(0, cfgch.clone())], config: quiet(), ..Default::default() }).await;
                        continue;
                    }
                    _ => { sctp_fail(s, T_SCTP_WALK, "random packet, all chunk types", format!("LIVENESS/PANIC: endpoint stopped answering after this packet (panics {}, close reason {:?}): {}", panics() - pp, live.u.sctp.close_reason(), last_panic()), &a); dead = true; break; }
                }
            }
            if panics() > pp { sctp_fail(s, T_SCTP_WALK, "random packet, all chunk types", format!("PANIC in a task while handling the packet: {}", last_panic()), &a); dead = true; break; }
            s.count(T_SCTP_WALK, V_OK);
        }
        s.out.push(Case { term: "-".into(), desc: json!({"target": tname(T_SCTP_WALK), "what": "random packets with every chunk type on a live established endpoint", "inputs": n, "max_len": maxlen, "uut_is_sctp_client": client}),
            oracle_fail: None, known: None, nontrivial: true, key: format!("batch|sctp|random|{}", round), kind: "random-bulk".into() });
        if !dead {
            // the stream may have moved the cumulative TSN (random DATA / FORWARD-TSN): the endpoint must still answer
            let r = live.exchange(vec![]).await;
            if r.is_none() { sctp_fail(s, T_SCTP_WALK, "after the random stream", "LIVENESS: endpoint no longer answers HEARTBEAT".into(), &[]); }
            // closing: ABORT must not panic either
            let pp = panics();
            let closer = CLOSING_TYPES[round as usize % CLOSING_TYPES.len()];
            live.u.inject_raw(raw_packet(live.u.uut_tag, &chunk_bytes(closer, 0, &rng.bytes(7))));
            tokio::time::sleep(Duration::from_millis(30)).await;
            for _ in 0..20 { let l = rng.below(64) as usize; live.u.inject_raw(raw_packet(live.u.uut_tag, &rng.bytes(l))); }
            tokio::time::sleep(Duration::from_millis(30)).await;
            s.out.push(Case { term: "-".into(), desc: json!({"target": tname(T_SCTP_WALK), "what": "ABORT / SHUTDOWN-ACK / SHUTDOWN-COMPLETE then random packets on the closed association", "closing_chunk_type": closer, "close_reason": live.u.sctp.close_reason()}),
                oracle_fail: if panics() > pp { Some(format!("PANIC after ABORT: {}", last_panic())) } else { None }, known: None, nontrivial: true, key: format!("sctp|closing|{}", round), kind: "live".into() });
        }
    }
    initack_stream(s, rng, thorough).await;
}

/// INIT-ACK parameter walker: only reachable before the association is established, so the
/// handshake is driven by hand up to COOKIE-WAIT and every case is one more INIT-ACK
async fn initack_stream(s: &mut Sink, rng: &mut Rng, thorough: bool) {
    use rustrtc::transports::sctp::SctpTransport;
    use sctpx::*;
    use std::sync::Arc;
    let mut pair = vh::net::dtls_pair_connected().await;
    let mut out_rx = pair.server.app_rx.take().unwrap();
    let _unused = pair.client.app_rx.take();
    let (inject_tx, inject_rx) = tokio::sync::mpsc::unbounded_channel::<Bytes>();
    let channels = Arc::new(parking_lot::Mutex::new(Vec::new()));
    let mut cfg = rustrtc::RtcConfiguration::default();
    cfg.sctp_rto_initial = Duration::from_secs(60);
    cfg.sctp_rto_min = Duration::from_secs(60);
    cfg.sctp_rto_max = Duration::from_secs(120);
    cfg.sctp_heartbeat_interval = Duration::from_secs(600);
    let (sctp, run) = SctpTransport::new(pair.client.dtls.clone(), inject_rx, channels.clone(), UUT_PORT, PEER_PORT, None, true, &cfg);
    let runner = tokio::spawn(run);
    // the endpoint's INIT
    let mut uut_tag = 0u32;
    let deadline = Instant::now() + Duration::from_secs(5);
    while Instant::now() < deadline {
        if let Ok(Some(b)) = tokio::time::timeout(Duration::from_secs(5), out_rx.recv()).await {
            if let Some(p) = parse_packet(&b) { if let Some(c) = p.chunks.iter().find(|c| c.ty == 1) { uut_tag = u32::from_be_bytes(c.value[0..4].try_into().unwrap()); break; } }
        }
    }
    let peer_tag = 0x0BAD_CAFEu32;
    let mut n = 0u64;
    let mut cases: Vec<(Vec<u8>, String, &str)> = vec![];
    let fixed = |tsn: u32| { let mut v = peer_tag.to_be_bytes().to_vec(); v.extend((1u32 << 20).to_be_bytes()); v.extend(1024u16.to_be_bytes()); v.extend(1024u16.to_be_bytes()); v.extend(tsn.to_be_bytes()); v };
    cases.push((fixed(1000), "fixed part only, no parameters".into(), "corpus"));
    cases.push((fixed(1000)[..15].to_vec(), "15 bytes (fixed part short by one)".into(), "corpus"));
    { let mut v = fixed(1000); v.extend([0, 7, 0, 4]); cases.push((v, "empty cookie parameter".into(), "corpus")); }
    { let mut v = fixed(1000); v.extend([0, 7, 0, 0]); cases.push((v, "parameter length 0".into(), "corpus")); }
    { let mut v = fixed(1000); v.extend([0, 7, 0, 3]); cases.push((v, "parameter length 3".into(), "corpus")); }
    { let mut v = fixed(1000); v.extend([0, 7, 0xFF, 0xFF, 1, 2]); cases.push((v, "parameter length 65535".into(), "corpus")); }
    { let mut v = fixed(1000); for _ in 0..15000 { v.extend([0x80, 0, 0, 4]); } v.extend([0, 7, 0, 6, 0xAA, 0xBB, 0, 0]); cases.push((v, "15000 empty parameters then a cookie (60 KB)".into(), "structured-large")); }
    for _ in 0..(if thorough { 60 } else { 14 }) {
        let mut m = Msg::new();
        m.bytes(&fixed(1000));
        for _ in 0..rng.range(1, 4) {
            let ty = *rng.pick(&[7u16, 7, 0xC000, 0x8008, 9]);
            let l = rng.below(10) as usize;
            m.u16(ty); m.len16(l + 4); m.bytes(&rng.bytes(l));
            while m.b.len() % 4 != 0 { m.u8(0); }
        }
        for (w, b) in m.mutations(rng) { if b.len() >= 12 { cases.push((b, w, "structured")); } }
    }
    for _ in 0..(if thorough { 500 } else { 80 }) { let l = rng.below(30) as usize; let mut v = fixed(1000); let mut b = rng.bytes(l); for x in b.iter_mut() { *x = *rng.pick(&[0u8, 0, 7, 4, 5, 6, 8, 1, 255, 0xC0]); } v.extend(b); cases.push((v, "fixed part + random parameter bytes over a small alphabet".into(), "random")); }
    let mut dead = false;
    for (v, what, kind) in cases {
        if v.len() + 4 > 65535 { continue; }
        let pp = panics();
        let w = AllocWin::start();
        let _ = inject_tx.send(Bytes::from(raw_packet(uut_tag, &chunk_bytes(2, 0, &v))));
        n += 1;
        let mut sent = b"C07INIT:".to_vec(); sent.extend_from_slice(&n.to_be_bytes());
        let _ = inject_tx.send(Bytes::from(raw_packet(uut_tag, &chunk_bytes(4, 0, &sent))));
        let mut got: Vec<Chunk> = vec![];
        let deadline = Instant::now() + Duration::from_secs(3);
        let mut answered = false;
        'w: while Instant::now() < deadline {
            match tokio::time::timeout(deadline.saturating_duration_since(Instant::now()), out_rx.recv()).await {
                Ok(Some(b)) => if let Some(p) = parse_packet(&b) { for c in p.chunks { if c.ty == 5 && c.value == sent { answered = true; break 'w; } got.push(c); } },
                _ => break,
            }
        }
        live_alloc_note("the live SCTP endpoint (INIT-ACK)", &v, &w);
        if !answered { sctp_fail(s, T_SCTP_INITACK, &what, format!("LIVENESS/PANIC: endpoint stopped answering after this INIT-ACK (panics {}): {}", panics() - pp, last_panic()), &v); dead = true; break; }
        let mut dig = vec![];
        for c in got.iter().filter(|c| c.ty == 10) { dig.push(1); bdig(&mut dig, &c.value); }
        let fail = if panics() > pp { Some(format!("PANIC while handling INIT-ACK: {}", last_panic())) } else { None };
        s.count(T_SCTP_INITACK, V_OK);
        s.push_case(T_SCTP_INITACK, &[], &[v], &Out1 { v: V_OK, dig }, fail, kind, &what, true);
    }
    if !dead {
        // complete the handshake and probe: COOKIE-ACK, then a genuine DATA chunk must be SACKed
        let _ = inject_tx.send(Bytes::from(build_packet(PEER_PORT, UUT_PORT, uut_tag, &[Chunk { ty: 11, flags: 0, value: vec![] }])));
        let _ = inject_tx.send(Bytes::from(build_packet(PEER_PORT, UUT_PORT, uut_tag, &[data_chunk(1000, 0, 0, 53, 7, b"probe")])));
        let mut sacked = false;
        let deadline = Instant::now() + Duration::from_secs(3);
        while Instant::now() < deadline && !sacked {
            match tokio::time::timeout(deadline.saturating_duration_since(Instant::now()), out_rx.recv()).await {
                Ok(Some(b)) => if let Some(p) = parse_packet(&b) { for c in p.chunks { if c.ty == 3 { if let Some(k) = parse_sack(&c.value) { if k.cum == 1000 { sacked = true; } } } } },
                _ => break,
            }
        }
        s.out.push(Case { term: "-".into(), desc: json!({"target": "sctp liveness probe", "what": "after the INIT-ACK stream: COOKIE-ACK, DATA tsn 1000", "sacked": sacked}),
            oracle_fail: if sacked { None } else { Some("LIVENESS: after the INIT-ACK stream the endpoint does not SACK a genuine DATA chunk".into()) },
            known: None, nontrivial: true, key: "live|initack".into(), kind: "live".into() });
    }
    sctp.close();
    runner.abort();
}

// ------------------------------------------------------------------------------------------------
// RTP / RTCP boundary grid (padding count, extension length, CSRC count) through every entry point
// ------------------------------------------------------------------------------------------------
mod rtpx {
    /// one RTCP sub-packet; `body.len()` must be a multiple of 4
    pub fn rtcp(pt: u8, fmt: u8, body: &[u8]) -> Vec<u8> {
        let mut v = vec![0x80 | (fmt & 0x1F), pt];
        v.extend(((body.len() / 4) as u16).to_be_bytes());
        v.extend(body);
        v
    }
    /// plausible bodies for every RTCP type the stack knows, plus unknown types and empty bodies
    pub fn exemplars() -> Vec<(u8, u8, Vec<u8>)> {
        let ssrc = [0u8, 0, 0, 5];
        let blk = { let mut b = vec![0u8, 0, 0, 9]; b.extend([1, 0, 0, 2]); b.extend([0u8; 16]); b };
        let cat = |parts: &[&[u8]]| parts.concat();
        let mut v: Vec<(u8, u8, Vec<u8>)> = vec![
            (200, 0, cat(&[&ssrc, &[0u8; 20]])), (200, 1, cat(&[&ssrc, &[0u8; 20], &blk])),
            (201, 0, ssrc.to_vec()), (201, 1, cat(&[&ssrc, &blk])), (201, 2, cat(&[&ssrc, &blk, &blk])),
            (202, 1, cat(&[&ssrc, &[1, 2, b'a', b'b']])), (202, 1, cat(&[&ssrc, &[1, 5, b'a', b'b', b'c', b'd', b'e', 0]])), (202, 0, vec![]),
            (203, 1, ssrc.to_vec()), (203, 1, cat(&[&ssrc, &[3, b'b', b'y', b'e']])), (203, 2, cat(&[&ssrc, &ssrc])),
            (204, 0, cat(&[&ssrc, b"name", &[1, 2, 3, 4]])),
            (205, 1, cat(&[&ssrc, &ssrc, &[0, 9, 0, 3]])), (205, 1, cat(&[&ssrc, &ssrc])), (205, 15, cat(&[&ssrc, &ssrc, &[0, 1, 0, 1, 0, 0, 0, 1, 0x20, 1, 4, 0]])),
            (206, 1, cat(&[&ssrc, &ssrc])), (206, 4, cat(&[&ssrc, &ssrc, &ssrc, &[1, 0, 0, 0]])), (206, 15, cat(&[&ssrc, &ssrc, b"REMB", &[1, 0, 1, 0], &ssrc])),
            (207, 0, cat(&[&ssrc, &[4, 0, 0, 1, 0, 0, 0, 0]])), (192, 0, ssrc.to_vec()), (208, 0, ssrc.to_vec()), (210, 0, cat(&[&ssrc, &ssrc])),
        ];
        for pt in [200u8, 201, 202, 203, 204, 205, 206, 207, 192] { v.push((pt, 0, vec![])); v.push((pt, 1, vec![0, 0, 0, 5])); }
        v
    }
    /// P bit set and the last octet of the sub-packet set to every interesting padding count
    pub fn padded_variants(pt: u8, fmt: u8, body: &[u8]) -> Vec<(String, Vec<u8>)> {
        let body_len = body.len() as i64;
        let packet_len = body_len + 4;
        let mut pads: Vec<i64> = vec![0, 1, 2, 3, 4, body_len - 1, body_len, packet_len, 255];
        for d in 1..=4 { pads.push(body_len + d); }
        pads.retain(|p| (0..=255).contains(p));
        pads.sort(); pads.dedup();
        let mut out = vec![];
        for p in pads {
            // (a) overwrite the last octet of the packet as it is
            let mut v = rtcp(pt, fmt, body);
            v[0] |= 0x20;
            let n = v.len(); v[n - 1] = p as u8;
            out.push((format!("P bit, last octet := {}", p), v));
            // (b) genuine padding appended: pad octets ending in the count (only multiples of 4 keep the length field exact)
            if p > 0 && p % 4 == 0 && p <= 64 {
                let mut b = body.to_vec(); b.extend(vec![0u8; p as usize - 1]); b.push(p as u8);
                let mut v = rtcp(pt, fmt, &b); v[0] |= 0x20;
                out.push((format!("{} octets of padding appended", p), v.clone()));
                // ... and a count that claims more than was appended
                let mut v2 = v.clone(); let n = v2.len(); v2[n - 1] = (b.len() as i64 + 1).min(255) as u8;
                out.push((format!("{} octets appended, count says {}", p, v2[n - 1]), v2));
            }
        }
        out
    }
    pub fn rtp(cc: u8, x: bool, p: bool, csrcs: usize, ext: Option<(u16, usize)>, payload: &[u8]) -> Vec<u8> {
        let mut v = vec![0x80 | (if p { 0x20 } else { 0 }) | (if x { 0x10 } else { 0 }) | (cc & 0x0F), 96, 0, 1, 0, 0, 0, 2, 0, 0, 0, 3];
        for i in 0..csrcs { v.extend((i as u32 + 1).to_be_bytes()); }
        if let Some((words, actual)) = ext { v.extend([0xBE, 0xDE]); v.extend(words.to_be_bytes()); for i in 0..actual { v.push(if i % 4 == 0 { 0x10 } else { 0xAA }); } }
        v.extend(payload);
        v
    }
}

async fn rtp_rtcp_streams(s: &mut Sink, rng: &mut Rng, thorough: bool) {
    use futures::FutureExt;
    use rustrtc::transports::ice::conn::IceConn;
    use rustrtc::transports::rtp::RtpTransport;
    use rustrtc::transports::PacketReceiver;
    use rtpx::*;
    use std::sync::Arc;
    // ---- inputs
    let mut rtcp_in: Vec<(String, Vec<u8>)> = vec![];
    let rr = rtcp(201, 0, &[0, 0, 0, 5]);
    let bye = rtcp(203, 1, &[0, 0, 0, 5]);
    for (pt, fmt, body) in exemplars() {
        let mut variants = vec![("unpadded".to_string(), rtcp(pt, fmt, &body))];
        variants.extend(padded_variants(pt, fmt, &body));
        for (w, sub) in variants {
            rtcp_in.push((format!("pt {} fmt {} body {}: {}, alone", pt, fmt, body.len(), w), sub.clone()));
            rtcp_in.push((format!("pt {} fmt {} body {}: {}, last of a compound", pt, fmt, body.len(), w), [rr.clone(), sub.clone()].concat()));
            rtcp_in.push((format!("pt {} fmt {} body {}: {}, middle of a compound", pt, fmt, body.len(), w), [rr.clone(), sub.clone(), bye.clone()].concat()));
            // length field one word short / long with the padding kept
            for dl in [-1i32, 1] {
                let mut v = sub.clone();
                let lw = u16::from_be_bytes([v[2], v[3]]) as i32 + dl;
                if lw >= 0 { v[2] = (lw >> 8) as u8; v[3] = lw as u8; rtcp_in.push((format!("pt {} fmt {} body {}: {}, length field {:+}", pt, fmt, body.len(), w, dl), [v, bye.clone()].concat())); }
            }
        }
    }
    // the witnesses of the seeded change come last, so that a failure is first reported on a generated input
    rtcp_in.push(("seeded-change witness: padded BYE whose count exceeds the body".into(), vec![0xA0, 0xCB, 0x00, 0x01, 0, 0, 0, 0x05]));
    rtcp_in.push(("seeded-change witness with the count in the last octet".into(), vec![0xA0, 0xCB, 0x00, 0x01, 0, 0, 0, 0x08]));
    let mut rtp_in: Vec<(String, Vec<u8>)> = vec![];
    for plen in [0usize, 1, 2, 5, 16] {
        let payload: Vec<u8> = (0..plen).map(|i| i as u8 + 1).collect();
        for ncs in [0usize, 1, 3, 15] {
            for cc in [0u8, ncs as u8, ncs.saturating_sub(1) as u8, (ncs + 1).min(15) as u8, 15] {
                for ext in [None, Some((0u16, 0usize)), Some((1, 4)), Some((2, 4)), Some((1, 8)), Some((1, 3)), Some((0xFFFF, 4)), Some((2, 8))] {
                    let base = rtp(cc, ext.is_some(), false, ncs, ext, &payload);
                    rtp_in.push((format!("payload {} csrcs {} cc {} ext {:?}", plen, ncs, cc, ext), base.clone()));
                    let total = base.len() as i64;
                    let mut pads: Vec<i64> = vec![0, 1, plen as i64 - 1, plen as i64, plen as i64 + 1, plen as i64 + 4, total - 12, total, 255];
                    pads.retain(|p| (0..=255).contains(p)); pads.sort(); pads.dedup();
                    for pd in pads {
                        let mut v = rtp(cc, ext.is_some(), true, ncs, ext, &payload);
                        let n = v.len(); v[n - 1] = pd as u8;
                        rtp_in.push((format!("payload {} csrcs {} cc {} ext {:?} P bit, last octet {}", plen, ncs, cc, ext, pd), v));
                    }
                }
            }
        }
    }
    if !thorough { let keep: Vec<(String, Vec<u8>)> = rtp_in.iter().enumerate().filter(|(i, _)| i % 3 == 0).map(|(_, x)| x.clone()).collect(); rtp_in = keep; }
    for _ in 0..(if thorough { 2000 } else { 300 }) {
        // random mutations of the above at the interesting octets (first, length, last)
        let (w, mut v) = rtcp_in[rng.below(rtcp_in.len() as u64) as usize].clone();
        let n = v.len();
        match rng.below(3) { 0 => v[n - 1] = rng.below(256) as u8, 1 => v[3] = rng.below(8) as u8, _ => v[0] = 0x80 | (rng.below(64) as u8) }
        rtcp_in.push((format!("{} + random octet", w), v));
    }
    // ---- (1) the pub parse functions (synchronous, oracle)
    s.batch(T_RTCP, &[], rtcp_in.iter().map(|(_, v)| v.clone()), "structured", "RTCP: every type x P bit x padding count {0,1..4, body-1, body, body+1..+4, packet, 255} x alone / last / middle of a compound, length field +-1");
    s.batch(T_RTP, &[], rtp_in.iter().map(|(_, v)| v.clone()), "structured", "RTP: padding count vs payload length, extension length vs remaining, CSRC count vs length");
    // ---- (2) RtpTransport::receive and IceConn::receive with RTCP / RTP listeners
    let remote: std::net::SocketAddr = "127.0.0.1:40000".parse().unwrap();
    let (_wtx, wrx) = tokio::sync::watch::channel(None);
    let conn = IceConn::new(wrx, remote, None);
    let rt = Arc::new(RtpTransport::new(conn.clone(), false));
    conn.set_rtp_receiver(rt.clone());
    let (rtcp_tx, mut rtcp_rx) = tokio::sync::mpsc::channel(1024);
    let (rtp_tx, mut rtp_rx) = tokio::sync::mpsc::channel(1024);
    rt.register_rtcp_listener(rtcp_tx);
    rt.register_provisional_listener(rtp_tx);
    let mut mb = Vec::new();
    let mut n = 0u64;
    let mut delivered = 0u64;
    let mut first_fail: Option<(String, Vec<u8>, String)> = None;
    for (what, v) in rtcp_in.iter().chain(rtp_in.iter()) {
        for via in ["RtpTransport::receive", "IceConn::receive"] {
            let pp = panics();
            let w = AllocWin::start();
            let b = Bytes::copy_from_slice(v);
            let r = if via == "RtpTransport::receive" { std::panic::AssertUnwindSafe(rt.receive(b, remote, &mut mb)).catch_unwind().await }
                    else { std::panic::AssertUnwindSafe(conn.receive(b, remote, &mut mb)).catch_unwind().await };
            live_alloc_note(via, v, &w);
            n += 1;
            while rtcp_rx.try_recv().is_ok() { delivered += 1; }
            while rtp_rx.try_recv().is_ok() { delivered += 1; }
            if (r.is_err() || panics() > pp) && first_fail.is_none() {
                first_fail = Some((format!("{} via {}", what, via), v.clone(), last_panic()));
            }
        }
    }
    s.count(T_RTCP, V_OK);
    s.out.push(Case { term: "-".into(),
        desc: json!({"target": "RtpTransport::receive / IceConn::receive (RTCP + RTP listeners)", "what": "the RTP / RTCP boundary grid through the transport entry points", "inputs": n, "delivered_to_listeners": delivered,
                     "first_failing": first_fail.as_ref().map(|(w, v, _)| json!({"what": w, "input_hex": v.iter().map(|b| format!("{:02x}", b)).collect::<String>()}))}),
        oracle_fail: first_fail.map(|(w, v, m)| format!("PANIC on {}: {} (input {})", w, m, hex(&v))),
        known: None, nontrivial: delivered > 0, key: "rtp|rtcp|live".into(), kind: "structured".into() });
}

// ------------------------------------------------------------------------------------------------
// live DTLS endpoints: hostile handshake traffic before, during and after the handshake
// ------------------------------------------------------------------------------------------------
mod dtlsx {
    use super::*;
    use rustrtc::transports::dtls::handshake::{HandshakeMessage, HandshakeType, ServerHello};
    use rustrtc::transports::dtls::{Certificate, DtlsTransport};
    use std::sync::Arc;
    use tokio::net::UdpSocket;

    pub fn record(ct: u8, epoch: u16, seq: u64, payload: &[u8]) -> Vec<u8> {
        let mut v = vec![ct, 254, 253];
        v.extend(epoch.to_be_bytes());
        v.extend(&seq.to_be_bytes()[2..]);
        v.extend((payload.len() as u16).to_be_bytes());
        v.extend(payload);
        v
    }
    pub fn hs(ty: u8, mseq: u16, total: u32, off: u32, body: &[u8]) -> Vec<u8> {
        let mut v = vec![ty];
        v.extend(&total.to_be_bytes()[1..]);
        v.extend(mseq.to_be_bytes());
        v.extend(&off.to_be_bytes()[1..]);
        v.extend(&(body.len() as u32).to_be_bytes()[1..]);
        v.extend(body);
        v
    }
    pub struct Side {
        pub dtls: Arc<DtlsTransport>,
        pub runner: tokio::task::JoinHandle<()>,
        pub peer: UdpSocket,            // the harness's raw socket, remote of the endpoint
        pub addr: std::net::SocketAddr, // the endpoint's socket
        pub _ep: vh::net::Endpoint,
    }
    pub async fn side(cert: &Certificate, is_client: bool) -> Side {
        let sa = Arc::new(UdpSocket::bind("127.0.0.1:0").await.unwrap());
        let peer = UdpSocket::bind("127.0.0.1:0").await.unwrap();
        let addr = sa.local_addr().unwrap();
        let ep = vh::net::Endpoint::with_socket(sa, peer.local_addr().unwrap());
        let (dtls, _rx, run) = DtlsTransport::new(ep.conn.clone(), cert.clone(), is_client, 1500, None).await.unwrap();
        let runner = tokio::spawn(run);
        Side { dtls, runner, peer, addr, _ep: ep }
    }
    /// the first ServerHello among the records the endpoint sends within `wait`: (ems, srtp profile or -1)
    pub async fn read_server_hello(peer: &UdpSocket, wait: Duration) -> Option<(i128, i128)> {
        let mut buf = [0u8; 4096];
        let deadline = Instant::now() + wait;
        loop {
            let left = deadline.saturating_duration_since(Instant::now());
            if left.is_zero() { return None; }
            let n = match tokio::time::timeout(left, peer.recv_from(&mut buf)).await { Ok(Ok((n, _))) => n, _ => return None };
            let mut d = Bytes::copy_from_slice(&buf[..n]);
            while let Ok(Some(rec)) = rustrtc::transports::dtls::record::DtlsRecord::decode(&mut d) {
                if rec.content_type as u8 != 22 { continue; }
                let mut body = rec.payload.clone();
                while let Ok(Some(m)) = HandshakeMessage::decode(&mut body) {
                    if m.msg_type == HandshakeType::ServerHello {
                        let mut b = m.body.clone();
                        if let Ok(sh) = ServerHello::decode(&mut b) {
                            let e = &sh.extensions;
                            let (mut ems, mut prof, mut i) = (0, -1, 0usize);
                            while i + 4 <= e.len() {
                                let ty = u16::from_be_bytes([e[i], e[i + 1]]);
                                let l = u16::from_be_bytes([e[i + 2], e[i + 3]]) as usize;
                                if i + 4 + l > e.len() { break; }
                                if ty == 23 { ems = 1; }
                                if ty == 14 && l >= 4 { prof = u16::from_be_bytes([e[i + 6], e[i + 7]]) as i128; }
                                i += 4 + l;
                            }
                            return Some((ems, prof));
                        }
                    }
                }
            }
        }
    }
}

async fn dtls_streams(s: &mut Sink, rng: &mut Rng, thorough: bool) {
    use dtlsx::*;
    let cert = rustrtc::transports::dtls::generate_certificate().unwrap();
    // ---- (1) server, pre-handshake: one ClientHello per fresh server; the ServerHello it answers with shows
    //          what the extension walk extracted (model: client_hello_decode + ch_ext_walk)
    let mut cases: Vec<(Vec<u8>, String, &str)> = vec![];
    let hello = |ext: Option<&[u8]>| { let mut m = Msg::new(); m.u8(254); m.u8(253); m.bytes(&[9u8; 32]); m.len8(0); m.len8(0); m.len16(2); m.u16(0xC02B); m.len8(1); m.u8(0);
                                       if let Some(e) = ext { m.len16(e.len()); m.bytes(e); } m };
    cases.push((hello(None).b, "no extensions".into(), "corpus"));
    cases.push((hello(Some(&[])).b, "empty extension block".into(), "corpus"));
    cases.push((hello(Some(&[0, 23, 0, 0, 0, 14, 0, 7, 0, 4, 0, 2, 0, 1, 0])).b, "ems + use_srtp(2, 1)".into(), "corpus"));
    cases.push((hello(Some(&[0, 14, 0, 2, 0xFF, 0xFF])).b, "use_srtp with list length 65535 and no entries".into(), "corpus"));
    cases.push((hello(Some(&[0, 14, 0, 3, 0, 2, 7])).b, "use_srtp with half a profile".into(), "corpus"));
    cases.push((hello(Some(&[0, 14, 0, 1, 0])).b, "use_srtp with one byte".into(), "corpus"));
    cases.push((hello(Some(&[0, 14, 0xFF, 0xFF])).b, "extension length beyond the block".into(), "corpus"));
    cases.push((hello(Some(&[0, 14, 0])).b, "three bytes of extension header".into(), "corpus"));
    for _ in 0..(if thorough { 40 } else { 8 }) {
        let mut e = Msg::new();
        for _ in 0..rng.range(1, 4) {
            match rng.below(4) {
                0 => { e.u16(23); e.len16(0); }
                1 | 2 => { let n = rng.below(4) as usize; e.u16(14); e.len16(2 + 2 * n + 1); e.len16(2 * n); for _ in 0..n { e.u16(*rng.pick(&[1u16, 2, 7, 8, 0x0105])); } e.u8(0); }
                _ => { let l = rng.below(6) as usize; e.u16(*rng.pick(&[10u16, 11, 13, 0xff01])); e.len16(l); e.bytes(&rng.bytes(l)); }
            }
        }
        for (w, eb) in e.mutations(rng) { cases.push((hello(Some(&eb)).b, format!("extension block: {}", w), "structured")); }
    }
    for _ in 0..(if thorough { 30 } else { 6 }) { let m = gen_client_hello(rng, true); for (w, b) in m.mutations(rng) { if rng.chance(1, 3) { cases.push((b, format!("ClientHello: {}", w), "structured")); } } }
    for _ in 0..(if thorough { 300 } else { 60 }) { let l = rng.below(24) as usize; let mut e = rng.bytes(l); for x in e.iter_mut() { *x = *rng.pick(&[0u8, 0, 0, 14, 23, 1, 2, 4, 5, 255]); } cases.push((hello(Some(&e)).b, "random extension bytes over a small alphabet".into(), "random")); }
    for (body, what, kind) in cases {
        let pp = panics();
        let sv = side(&cert, false).await;
        let w = AllocWin::start();
        let _ = sv.peer.send_to(&record(22, 0, 0, &hs(1, 0, body.len() as u32, 0, &body)), sv.addr).await;
        // sentinel: a valid ClientHello offering only the (unassigned) SRTP profile 0x7777. If the case was accepted the
        // server has already answered (and merely retransmits); if it was rejected, the sentinel is what gets answered.
        let sentinel = hello(Some(&[0, 14, 0, 5, 0, 2, 0x77, 0x77, 0])).b;
        let _ = sv.peer.send_to(&record(22, 0, 1, &hs(1, 0, sentinel.len() as u32, 0, &sentinel)), sv.addr).await;
        let r = read_server_hello(&sv.peer, Duration::from_millis(1500)).await;
        live_alloc_note("a live DTLS server (ClientHello)", &body, &w);
        let answered = r.is_some();
        let r = match r { Some((0, 0x7777)) => None, x => x };
        let fin_panic = panics() > pp;
        let (o, fail) = if fin_panic { (Out1 { v: V_PANIC, dig: vec![] }, Some(format!("PANIC in the DTLS server task on a ClientHello: {}", last_panic()))) }
            else if !answered { (Out1 { v: V_ERR, dig: vec![] }, Some("LIVENESS: the DTLS server answered neither the case nor a valid ClientHello sent after it".to_string())) }
            else { match r { Some((ems, prof)) => (Out1 { v: V_OK, dig: vec![ems, prof] }, None), None => (Out1 { v: V_ERR, dig: vec![] }, None) } };
        s.count(T_DTLS_CH_EXT, o.v);
        s.push_case(T_DTLS_CH_EXT, &[], &[body], &o, fail, kind, &what, true);
        sv.runner.abort();
    }

    // ---- (1b) fragment reassembly on a fresh server: a ClientHello cut into fragments (message_seq 0); the model folds
    //           the same fragments through its reassembly step and decodes what comes out
    {
        let mut fcases: Vec<(Vec<(u32, u32, Vec<u8>)>, String, &str)> = vec![];   // (total, offset, body) per fragment
        let exts: [&[u8]; 3] = [&[0, 23, 0, 0, 0, 14, 0, 7, 0, 4, 0, 2, 0, 1, 0], &[0, 14, 0, 5, 0, 2, 0, 8, 0], &[]];
        for (ei, e) in exts.iter().enumerate() {
            let h = hello(if e.is_empty() { None } else { Some(e) }).b;
            let n = h.len() as u32;
            for k in 2..=4usize {
                let mut cuts: Vec<usize> = (1..k).map(|j| j * h.len() / k + (rng.below(5) as usize)).collect();
                cuts.push(h.len()); cuts.insert(0, 0);
                let frags: Vec<(u32, u32, Vec<u8>)> = (0..k).map(|j| (n, cuts[j] as u32, h[cuts[j]..cuts[j + 1]].to_vec())).collect();
                let before_last = cuts[k - 1] as u32;
                fcases.push((frags.clone(), format!("hello #{} in {} in-order fragments", ei, k), "structured"));
                let mut f = frags.clone(); f.insert(0, frags[0].clone());
                fcases.push((f, format!("hello #{} in {} fragments, first one twice", ei, k), "structured"));
                for (tn, tv) in [("total+1", n + 1), ("total 65536", 65536), ("total 2^24-1", 0xFF_FFFF), ("total just above all but the last fragment", before_last + 1), ("total 0", 0), ("total = first fragment length + 1", frags[0].2.len() as u32 + 1)] {
                    let f: Vec<_> = frags.iter().map(|(_, o, b)| (tv, *o, b.clone())).collect();
                    fcases.push((f, format!("hello #{} in {} fragments, declared {}", ei, k, tn), "structured"));
                }
                let f: Vec<_> = frags.iter().enumerate().map(|(j, (t, o, b))| (*t, if j == 0 { *o } else { 0xFF_FFFF - *o }, b.clone())).collect();
                fcases.push((f, format!("hello #{} in {} fragments, garbage offsets after the first", ei, k), "structured"));
                let f: Vec<_> = frags.iter().enumerate().map(|(j, (t, o, b))| (*t, if j == 1 { 0 } else { *o }, b.clone())).collect();
                fcases.push((f, format!("hello #{} in {} fragments, second fragment claims offset 0", ei, k), "structured"));
                let mut f = frags.clone(); f.reverse();
                fcases.push((f, format!("hello #{} in {} fragments, reversed", ei, k), "structured"));
            }
        }
        fcases.push((vec![(0xFF_FFFF, 0, vec![1])], "seeded-change witness: one 1-byte fragment declaring total_length 2^24-1".into(), "corpus"));
        fcases.push((vec![(0xFF_FFFF, 0, vec![])], "empty fragment declaring total_length 2^24-1".into(), "corpus"));
        fcases.push((vec![(0, 0, vec![7])], "1-byte fragment declaring total_length 0".into(), "corpus"));
        for (frags, what, kind) in fcases {
            let pp = panics();
            let sv = side(&cert, false).await;
            let wire: Vec<u8> = frags.iter().flat_map(|(t, o, b)| hs(1, 0, *t, *o, b)).collect();
            let w = AllocWin::start();
            for (i, (t, o, b)) in frags.iter().enumerate() { let _ = sv.peer.send_to(&record(22, 0, i as u64, &hs(1, 0, *t, *o, b)), sv.addr).await; }
            let sentinel = hello(Some(&[0, 14, 0, 5, 0, 2, 0x77, 0x77, 0])).b;
            let _ = sv.peer.send_to(&record(22, 0, 99, &hs(1, 0, sentinel.len() as u32, 0, &sentinel)), sv.addr).await;
            let r = read_server_hello(&sv.peer, Duration::from_millis(1500)).await;
            live_alloc_note("a live DTLS server (handshake fragments)", &wire, &w);
            let answered = r.is_some();
            let r = match r { Some((0, 0x7777)) => None, x => x };
            let (o, fail) = if panics() > pp { (Out1 { v: V_PANIC, dig: vec![] }, Some(format!("PANIC in the DTLS server task on handshake fragments: {}", last_panic()))) }
                else if !answered { (Out1 { v: V_ERR, dig: vec![] }, Some("LIVENESS: the DTLS server answered neither the fragments nor a valid ClientHello sent after them".to_string())) }
                else { match r { Some((ems, prof)) => (Out1 { v: V_OK, dig: vec![ems, prof] }, None), None => (Out1 { v: V_ERR, dig: vec![] }, None) } };
            let ins: Vec<Vec<u8>> = frags.iter().map(|(t, o, b)| { let mut v = t.to_be_bytes()[1..].to_vec(); v.extend(&o.to_be_bytes()[1..]); v.extend(b); v }).collect();
            s.count(T_DTLS_FRAG, o.v);
            s.push_case(T_DTLS_FRAG, &[], &ins, &o, fail, kind, &what, true);
            sv.runner.abort();
        }
    }
    // ---- (1c) oracle only: one fragment of every handshake type with every relation between the declared total length,
    //           the fragment length and the offset, to a fresh server, a mid-handshake client and an established pair;
    //           per datagram: panic hook, total and largest single allocation request
    {
        let types = [0u8, 1, 2, 3, 11, 12, 13, 14, 15, 16, 20];
        let mut est = vh::net::dtls_pair_connected().await;
        let mut est_srx = est.server.app_rx.take().unwrap();
        let mut est_crx = est.client.app_rx.take().unwrap();
        let third = tokio::net::UdpSocket::bind("127.0.0.1:0").await.unwrap();
        let mut n_in = 0u64;
        for &ty in &types {
            for flen in [0usize, 1, 40] {
                for total in [0u32, flen as u32, flen as u32 + 1, 1 << 16, 0xFF_FFFF] {
                    for off in [0u32, 5] {
                        if total == flen as u32 && off != 0 { continue; }
                        let body = rng.bytes(flen);
                        let frag = hs(ty, 0, total, off, &body);
                        let what = format!("fragment type {} len {} declared total {} offset {}", ty, flen, total, off);
                        for target in 0..3 {
                            let pp = panics();
                            n_in += 1;
                            let tier = ["a live DTLS server (pre-handshake, one fragment)", "a live DTLS client (mid-handshake, one fragment)", "an established DTLS pair (one fragment)"][target];
                            let mut fail = None;
                            match target {
                                0 => {
                                    let sv = side(&cert, false).await;
                                    let w = AllocWin::start();
                                    let _ = sv.peer.send_to(&record(22, 0, 0, &frag), sv.addr).await;
                                    let sentinel = hello(None).b;
                                    let _ = sv.peer.send_to(&record(22, 0, 1, &hs(1, 0, sentinel.len() as u32, 0, &sentinel)), sv.addr).await;
                                    let r = read_server_hello(&sv.peer, Duration::from_millis(1500)).await;
                                    live_alloc_note(tier, &frag, &w);
                                    // a complete hostile message may legitimately fail the handshake (visible state Failed/Closed): that is termination, not a hang
                                    let ended = matches!(*sv.dtls.subscribe_state().borrow(), rustrtc::transports::dtls::DtlsState::Failed | rustrtc::transports::dtls::DtlsState::Closed);
                                    if r.is_none() && panics() == pp && ty != 1 && !ended { fail = Some(format!("LIVENESS: after a {} the DTLS server neither answers a valid ClientHello nor reports a failed handshake", what)); }
                                    sv.runner.abort();
                                }
                                1 => {
                                    let cl = side(&cert, true).await;
                                    let mut b = [0u8; 2048];
                                    let _ = tokio::time::timeout(Duration::from_millis(800), cl.peer.recv_from(&mut b)).await; // its ClientHello
                                    let w = AllocWin::start();
                                    let _ = cl.peer.send_to(&record(22, 0, 0, &frag), cl.addr).await;
                                    for sq in [0u16, 1] { let _ = cl.peer.send_to(&record(22, 0, 1 + sq as u64, &hs(3, sq, 3 + 4, 0, &[254, 255, 4, 1, 2, 3, 4])), cl.addr).await; }
                                    let _ = tokio::time::timeout(Duration::from_millis(60), cl.peer.recv_from(&mut b)).await; // new ClientHello (if the HVR was accepted)
                                    live_alloc_note(tier, &frag, &w);
                                    cl.runner.abort();
                                }
                                _ => {
                                    let w = AllocWin::start();
                                    let _ = third.send_to(&record(22, 0, 7, &frag), est.server.ep.addr).await;
                                    let _ = third.send_to(&record(22, 0, 7, &frag), est.client.ep.addr).await;
                                    let a = est.client.dtls.send(Bytes::from_static(b"c2s")).await.is_ok();
                                    let b2 = est.server.dtls.send(Bytes::from_static(b"s2c")).await.is_ok();
                                    let g1 = matches!(tokio::time::timeout(Duration::from_secs(2), est_srx.recv()).await, Ok(Some(_)));
                                    let g2 = matches!(tokio::time::timeout(Duration::from_secs(2), est_crx.recv()).await, Ok(Some(_)));
                                    live_alloc_note(tier, &frag, &w);
                                    if !(a && b2 && g1 && g2) && panics() == pp { fail = Some(format!("LIVENESS: after a {} application data no longer flows over the established pair", what)); }
                                }
                            }
                            if panics() > pp { fail = Some(format!("PANIC in {} on a {}: {}", tier, what, last_panic())); }
                            if let Some(m) = fail {
                                s.out.push(Case { term: "-".into(), desc: json!({"target": tname(T_DTLS_LIVE), "what": what, "tier": tier, "input_hex": hex(&frag)}),
                                    oracle_fail: Some(m), known: None, nontrivial: false, key: format!("dtls|frag|{}|{}", target, what), kind: "live".into() });
                            }
                        }
                    }
                }
            }
        }
        s.count(T_DTLS_LIVE, V_OK);
        s.out.push(Case { term: "-".into(), desc: json!({"target": tname(T_DTLS_LIVE), "what": "single handshake fragments: 11 types x fragment length {0,1,40} x declared total {0, len, len+1, 2^16, 2^24-1} x offset {0,5}, each to a fresh server, a mid-handshake client and an established pair", "inputs": n_in}),
            oracle_fail: None, known: None, nontrivial: true, key: "dtls|frag|grid".into(), kind: "structured".into() });
    }

    // ---- (2) oracle only: hostile records to a server before the handshake, to a client in mid-handshake, and to
    //          an established pair; a panic anywhere or a dead task is a failure
    let types = [0u8, 1, 2, 3, 11, 12, 13, 14, 15, 16, 20, 99];
    let n = if thorough { 3000 } else { 400 };
    for is_client in [false, true] {
        let sd = side(&cert, is_client).await;
        let pp = panics();
        if is_client { let mut b = [0u8; 2048]; let _ = tokio::time::timeout(Duration::from_millis(500), sd.peer.recv_from(&mut b)).await; } // its ClientHello
        let mut mseq = 0u16;
        let mut last = vec![];
        let mut w = AllocWin::start();
        let mut wbytes: Vec<u8> = vec![];
        for i in 0..n {
            let ty = *rng.pick(&types);
            let l = random_len(rng, 1300).min(1300);
            let mut body = rng.bytes(l);
            if rng.chance(1, 2) { // structurally valid body for the type, then corrupted
                let t = match ty { 1 => T_CLIENT_HELLO, 2 => T_SERVER_HELLO, 3 => T_HELLO_VERIFY, 11 => T_CERT, 12 => T_SKE, 16 => T_CKE, _ => T_FINISHED };
                let m = gen_for(t, rng, i as u64);
                let muts = m.mutations(rng);
                body = muts[rng.below(muts.len() as u64) as usize].1.clone();
            }
            let total = if rng.chance(1, 4) { rng.below(1 << 24) as u32 } else { body.len() as u32 };
            let off = if rng.chance(1, 6) { rng.below(1 << 24) as u32 } else { 0 };
            let mut payload = hs(ty, mseq, total, off, &body);
            if rng.chance(1, 8) { let k = rng.below(payload.len() as u64 + 1) as usize; payload.truncate(k); }
            if rng.chance(1, 8) { payload.extend(hs(*rng.pick(&types), mseq.wrapping_add(1), 3, 0, &[1, 2, 3])); }
            let ct = if rng.chance(1, 10) { *rng.pick(&[20u8, 21, 23, 24, 0, 255]) } else { 22 };
            let epoch = if rng.chance(1, 12) { rng.below(3) as u16 } else { 0 };
            let rec = record(ct, epoch, i as u64, &payload);
            last = rec.clone();
            wbytes.extend(&rec);
            let _ = sd.peer.send_to(&rec, sd.addr).await;
            if rng.chance(2, 3) { mseq = mseq.wrapping_add(1); }
            if i % 50 == 49 {
                tokio::time::sleep(Duration::from_millis(5)).await;
                live_alloc_note(if is_client { "a live DTLS client (50 hostile records)" } else { "a live DTLS server (50 hostile records)" }, &wbytes, &w);
                wbytes.clear(); w = AllocWin::start();
                if panics() > pp { break; }
            }
        }
        tokio::time::sleep(Duration::from_millis(100)).await;
        let fail = if panics() > pp { Some(format!("PANIC in a live DTLS {} task: {} (last record {})", if is_client { "client" } else { "server" }, last_panic(), hex(&last))) } else { None };
        s.count(T_DTLS_LIVE, if fail.is_some() { V_PANIC } else { V_OK });
        s.out.push(Case { term: "-".into(), desc: json!({"target": tname(T_DTLS_LIVE), "what": format!("hostile handshake records to a live DTLS {} ({})", if is_client { "client" } else { "server" }, if is_client { "mid-handshake" } else { "pre-handshake" }), "inputs": n}),
            oracle_fail: fail, known: None, nontrivial: true, key: format!("dtls|live|{}", is_client), kind: "random-bulk".into() });
        sd.runner.abort();
    }
    // many accepted handshake messages in a row: the receive counter is 16 bits wide
    {
        let sd = side(&cert, false).await;
        let pp = panics();
        let total = 66000u32;
        let mut mseq = 0u32;
        while mseq < total && panics() == pp {
            let mut payload = vec![];
            for _ in 0..100 { payload.extend(hs(0, mseq as u16, 0, 0, &[])); mseq += 1; } // HelloRequest, empty body
            let _ = sd.peer.send_to(&record(22, 0, mseq as u64, &payload), sd.addr).await;
            if (mseq / 100) % 8 == 0 { tokio::time::sleep(Duration::from_millis(2)).await; }
        }
        tokio::time::sleep(Duration::from_millis(200)).await;
        let fail = if panics() > pp { Some(format!("PANIC in the DTLS server task after {} consecutive in-order handshake messages: {}", mseq, last_panic())) } else { None };
        s.count(T_DTLS_LIVE, if fail.is_some() { V_PANIC } else { V_OK });
        s.out.push(Case { term: "-".into(), desc: json!({"target": tname(T_DTLS_LIVE), "what": "66000 consecutive in-order HelloRequest messages (message_seq 0, 1, 2, ... wrapping) to a live DTLS server", "inputs": total}),
            oracle_fail: fail, known: None, nontrivial: true, key: "dtls|live|seqwrap".into(), kind: "live".into() });
        sd.runner.abort();
    }
    // established pair: junk of every content type and epoch from a third socket and from the peer's address; then data still flows
    {
        let mut pair = vh::net::dtls_pair_connected().await;
        let pp = panics();
        let mut srx = pair.server.app_rx.take().unwrap();
        let third = tokio::net::UdpSocket::bind("127.0.0.1:0").await.unwrap();
        for i in 0..n {
            let l = random_len(rng, 1300).min(1300);
            let body = rng.bytes(l);
            let ct = *rng.pick(&[20u8, 21, 22, 23, 22, 23]);
            let epoch = *rng.pick(&[0u16, 1, 1, 2, 65535]);
            let payload = if ct == 22 { hs(*rng.pick(&types), rng.below(4) as u16, body.len() as u32, 0, &body) } else { body };
            let rec = record(ct, epoch, rng.below(1 << 20), &payload);
            let _ = third.send_to(&rec, pair.server.ep.addr).await;
            let _ = third.send_to(&rec, pair.client.ep.addr).await;
            if i % 50 == 49 { tokio::time::sleep(Duration::from_millis(5)).await; }
        }
        tokio::time::sleep(Duration::from_millis(100)).await;
        let sent = pair.client.dtls.send(Bytes::from_static(b"still-alive")).await.is_ok();
        let got = matches!(tokio::time::timeout(Duration::from_secs(2), srx.recv()).await, Ok(Some(ref b)) if &b[..] == b"still-alive");
        let fail = if panics() > pp { Some(format!("PANIC in an established DTLS endpoint: {}", last_panic())) }
                   else if !(sent && got) { Some(format!("LIVENESS: application data no longer flows over the established DTLS pair after hostile records (sent={}, delivered={})", sent, got)) } else { None };
        s.count(T_DTLS_LIVE, if fail.is_some() { V_PANIC } else { V_OK });
        s.out.push(Case { term: "-".into(), desc: json!({"target": tname(T_DTLS_LIVE), "what": "hostile records of every content type / epoch to both ends of an established DTLS pair, then an application record", "inputs": 2 * n}),
            oracle_fail: fail, known: None, nontrivial: true, key: "dtls|live|established".into(), kind: "random-bulk".into() });
    }
}

// ------------------------------------------------------------------------------------------------
// TURN: a fake TURN server (UDP and TCP) feeding a real IceTransport's TurnClient and read loop
// ------------------------------------------------------------------------------------------------
mod turnx {
    use super::*;
    use rustrtc::transports::ice::IceTransport;
    use rustrtc::{IceServer, IceTransportPolicy, RtcConfiguration};
    use std::net::SocketAddr;
    use tokio::io::{AsyncReadExt, AsyncWriteExt};
    use tokio::net::{TcpListener, UdpSocket};

    pub const MAGIC: u32 = 0x2112_A442;
    pub fn xor_addr_attr(ty: u16, a: SocketAddr) -> Vec<u8> {
        let mut v = ty.to_be_bytes().to_vec();
        match a {
            SocketAddr::V4(a4) => {
                v.extend(8u16.to_be_bytes()); v.push(0); v.push(1);
                v.extend((a4.port() ^ (MAGIC >> 16) as u16).to_be_bytes());
                let ip = u32::from(*a4.ip()) ^ MAGIC; v.extend(ip.to_be_bytes());
            }
            _ => unreachable!(),
        }
        v
    }
    pub fn attr(ty: u16, val: &[u8]) -> Vec<u8> {
        let mut v = ty.to_be_bytes().to_vec();
        v.extend((val.len() as u16).to_be_bytes()); v.extend(val);
        while v.len() % 4 != 0 { v.push(0); }
        v
    }
    pub fn stun(msg_type: u16, tx: &[u8], attrs: &[u8]) -> Vec<u8> {
        let mut v = msg_type.to_be_bytes().to_vec();
        v.extend((attrs.len() as u16).to_be_bytes()); v.extend(MAGIC.to_be_bytes()); v.extend(tx); v.extend(attrs);
        v
    }
    pub fn allocate_success(req: &[u8], relayed: SocketAddr) -> Vec<u8> {
        let mut a = xor_addr_attr(0x0016, relayed);
        a.extend(attr(0x000D, &600u32.to_be_bytes()));
        stun(0x0103, &req[8..20], &a)
    }
    pub fn data_indication(peer: SocketAddr, data: &[u8], pad_to: Option<usize>) -> Vec<u8> {
        let mut a = xor_addr_attr(0x0012, peer);
        a.extend(attr(0x0013, data));
        if let Some(n) = pad_to { let cur = 20 + a.len(); if n >= cur + 4 { a.extend(attr(0x8022, &vec![b'x'; n - cur - 4])); } }
        stun(0x0017, &[7u8; 12], &a)
    }
    /// a well-formed ICE binding request the endpoint answers without checking credentials
    pub fn binding_request(tag: u8) -> Vec<u8> {
        stun(0x0001, &[tag; 12], &attr(0x0006, b"u:v"))
    }

    pub struct Ice {
        pub ice: IceTransport,
        pub runner: tokio::task::JoinHandle<()>,
    }
    pub fn start_ice(url: String) -> Ice {
        let mut config = RtcConfiguration::default();
        config.ice_transport_policy = IceTransportPolicy::Relay;
        config.ice_servers.push(IceServer::new(vec![url]).with_credential("user", "pass"));
        let (ice, run) = IceTransport::new(config);
        let runner = tokio::spawn(run);
        let _ = ice.start_gathering();
        Ice { ice, runner }
    }

    /// fake TURN/UDP server: answers Allocate, then runs the script of datagrams towards the client and
    /// collects what the client sends back (Send indications = the endpoint's answers to relayed STUN requests)
    pub struct UdpTurn { pub sock: UdpSocket, pub client: Option<SocketAddr> }
    impl UdpTurn {
        pub async fn new() -> Self { UdpTurn { sock: UdpSocket::bind("127.0.0.1:0").await.unwrap(), client: None } }
        pub fn url(&self) -> String { format!("turn:127.0.0.1:{}?transport=udp", self.sock.local_addr().unwrap().port()) }
        pub async fn serve_allocate(&mut self, max: Duration) -> bool {
            let mut buf = [0u8; 2000];
            let deadline = Instant::now() + max;
            while Instant::now() < deadline {
                if let Ok(Ok((n, from))) = tokio::time::timeout(Duration::from_millis(200), self.sock.recv_from(&mut buf)).await {
                    if n >= 20 && buf[0] == 0x00 && buf[1] == 0x03 {
                        self.client = Some(from);
                        let r = allocate_success(&buf[..n], "127.0.0.1:45000".parse().unwrap());
                        let _ = self.sock.send_to(&r, from).await;
                        return true;
                    }
                }
            }
            false
        }
        /// Send indications (the endpoint's answers) received until the one that answers the probe
        /// (transaction id = 12 x `probe_tag`) arrives: Some(number of other answers before it), None = timeout
        pub async fn answers_until_probe(&self, probe_tag: u8, wait: Duration) -> Option<usize> {
            let mut buf = [0u8; 2000];
            let mut k = 0;
            let deadline = Instant::now() + wait;
            loop {
                let left = deadline.saturating_duration_since(Instant::now());
                if left.is_zero() { return None; }
                match tokio::time::timeout(left, self.sock.recv_from(&mut buf)).await {
                    Ok(Ok((n, _))) => {
                        if n >= 20 && (u16::from_be_bytes([buf[0], buf[1]]) & 0x3EEF) == 0x0006 {
                            if buf[..n].windows(12).any(|w| w.iter().all(|b| *b == probe_tag)) { return Some(k); }
                            k += 1;
                        }
                    }
                    _ => return None,
                }
            }
        }
    }
    pub struct TcpTurn { pub l: TcpListener }
    impl TcpTurn {
        pub async fn new() -> Self { TcpTurn { l: TcpListener::bind("127.0.0.1:0").await.unwrap() } }
        pub fn url(&self) -> String { format!("turn:127.0.0.1:{}?transport=tcp", self.l.local_addr().unwrap().port()) }
        pub async fn accept_and_read_request(&self, max: Duration) -> Option<(tokio::net::TcpStream, Vec<u8>)> {
            let (mut st, _) = tokio::time::timeout(max, self.l.accept()).await.ok()?.ok()?;
            let mut h = [0u8; 2];
            tokio::time::timeout(max, st.read_exact(&mut h)).await.ok()?.ok()?;
            let n = u16::from_be_bytes(h) as usize;
            let mut b = vec![0u8; n];
            tokio::time::timeout(max, st.read_exact(&mut b)).await.ok()?.ok()?;
            Some((st, b))
        }
    }
    pub async fn write_frame(st: &mut tokio::net::TcpStream, declared: u16, body: &[u8]) {
        let mut f = declared.to_be_bytes().to_vec();
        f.extend(body);
        let _ = st.write_all(&f).await;
        let _ = st.flush().await;
    }
    /// count framed Send indications arriving on the TCP stream within `wait`
    pub async fn tcp_answers(st: &mut tokio::net::TcpStream, wait: Duration) -> usize {
        let mut k = 0;
        let deadline = Instant::now() + wait;
        loop {
            let left = deadline.saturating_duration_since(Instant::now());
            if left.is_zero() { break; }
            let mut h = [0u8; 2];
            match tokio::time::timeout(left, st.read_exact(&mut h)).await { Ok(Ok(_)) => {}, _ => break }
            let n = u16::from_be_bytes(h) as usize;
            let mut b = vec![0u8; n];
            match tokio::time::timeout(Duration::from_millis(500), st.read_exact(&mut b)).await { Ok(Ok(_)) => {}, _ => break }
            if n >= 20 && (u16::from_be_bytes([b[0], b[1]]) & 0x3EEF) == 0x0006 { k += 1; }
        }
        k
    }
}

async fn turn_streams(s: &mut Sink, rng: &mut Rng, thorough: bool) {
    use turnx::*;
    let peer: std::net::SocketAddr = "127.0.0.1:46000".parse().unwrap();
    // ---- relayed data over TURN/UDP: Data indications and ChannelData into handle_turn_packet / handle_packet
    let mut srv = UdpTurn::new().await;
    let ice = start_ice(srv.url());
    let allocated = srv.serve_allocate(Duration::from_secs(5)).await;
    tokio::time::sleep(Duration::from_millis(100)).await; // read loop starts once the socket wrapper reaches the runner
    if !allocated {
        s.out.push(Case { term: "-".into(), desc: json!({"target": tname(T_TURN_DATA), "what": "fake TURN/UDP server: no Allocate request seen"}),
            oracle_fail: Some("harness: TURN allocation did not happen".into()), known: None, nontrivial: false, key: "turn|alloc".into(), kind: "live".into() });
        return;
    }
    let client = srv.client.unwrap();
    // each case: payload relayed in a Data indication, followed by a genuine relayed binding request (the probe):
    // digest = [answers seen]; the probe's answer shows the read loop is alive
    let mut cases: Vec<(Vec<u8>, i128, String, &str)> = vec![];
    cases.push((vec![], 0, "F3 witness: Data indication with an empty DATA attribute".into(), "corpus"));
    cases.push((binding_request(1), 1, "relayed STUN binding request".into(), "corpus"));
    cases.push((vec![0], 0, "one zero byte".into(), "corpus"));
    cases.push((vec![1], 0, "one byte 0x01".into(), "corpus"));
    cases.push((vec![0x80, 0x60], 0, "two bytes of RTP".into(), "corpus"));
    cases.push((vec![22, 254, 253], 0, "three bytes of DTLS".into(), "corpus"));
    for b in 0..=255u8 { if b < 4 || b % 32 == 0 || b == 255 { cases.push((vec![b], 0, "single byte".into(), "exhaustive")); } }
    for _ in 0..(if thorough { 400 } else { 60 }) {
        let l = rng.below(64) as usize;
        let mut v = rng.bytes(l);
        if rng.chance(1, 2) && !v.is_empty() { v[0] = rng.below(2) as u8; }
        cases.push((v, 0, "random relayed payload".into(), "random"));
    }
    for _ in 0..(if thorough { 40 } else { 8 }) {
        let mut v = binding_request(rng.below(200) as u8);
        let valid = if rng.chance(1, 2) { 1 } else { let k = rng.below(v.len() as u64) as usize; v.truncate(k); 0 };
        cases.push((v, valid, "relayed binding request, possibly truncated".into(), "structured"));
    }
    let mut dead = false;
    for (pl, is_req, what, kind) in cases {
        let pp = panics();
        let w = AllocWin::start();
        let _ = srv.sock.send_to(&data_indication(peer, &pl, None), client).await;
        let _ = srv.sock.send_to(&data_indication(peer, &binding_request(0xEE), None), client).await;
        let r = srv.answers_until_probe(0xEE, Duration::from_millis(2000)).await;
        let got = match r { Some(k) => k + 1, None => 0 };
        live_alloc_note("the ICE transport (TURN-relayed data)", &pl, &w);
        let fin = ice.runner.is_finished();
        let fail = if panics() > pp { Some(format!("PANIC in the ICE transport task on relayed data: {}", last_panic())) }
                   else if fin { Some("the IceTransport runner task ended".to_string()) }
                   else if got == 0 { Some("LIVENESS: the TURN read loop no longer answers a relayed binding request".to_string()) } else { None };
        s.count(T_TURN_DATA, if fail.is_some() && panics() > pp { V_PANIC } else { V_OK });
        let v = if panics() > pp { V_PANIC } else { V_OK };
        s.push_case(T_TURN_DATA, &[is_req], &[pl], &Out1 { v, dig: if v == V_OK { vec![got as i128 - 1] } else { vec![] } }, fail.clone(), kind, &what, true);
        if fail.is_some() { dead = true; break; }
    }
    if !dead {
        // ChannelData for unbound / out-of-range channels and odd lengths, raw garbage to the TURN client socket
        let pp = panics();
        let mut n = 0;
        for ch in [0x4000u16, 0x4001, 0x7FFF, 0x3FFF, 0x8000] { for (decl, body) in [(0usize, 0usize), (0, 4), (4, 0), (4, 4), (65535, 10), (1, 1)] {
            let mut f = ch.to_be_bytes().to_vec(); f.extend((decl as u16).to_be_bytes()); f.extend(vec![0u8; body]);
            let _ = srv.sock.send_to(&f, client).await; n += 1;
        } }
        let mut got = 1usize;
        let mut last: Vec<u8> = vec![];
        for i in 0..(if thorough { 2000 } else { 400 }) {
            let l = rng.below(1600) as usize; let mut v = rng.bytes(l);
            if rng.chance(1, 2) && v.len() > 4 { v[0] = 0x40; v[2] = 0; v[3] = rng.below(8) as u8; }
            if rng.chance(1, 4) && v.len() >= 2 { v[0] = 0; v[1] = 0x17; }
            if rng.chance(1, 6) { v = data_indication(peer, &rng.bytes(l.min(40)), None); let k = rng.below(v.len() as u64) as usize; if rng.chance(1, 2) { v.truncate(k); } else if v.len() > 21 { let j = 20 + k % (v.len() - 20); v[j] ^= 0xFF; } }
            let _ = srv.sock.send_to(&v, client).await; n += 1;
            last = v;
            if i % 20 == 19 {
                let _ = srv.sock.send_to(&data_indication(peer, &binding_request(0xEF), None), client).await;
                if srv.answers_until_probe(0xEF, Duration::from_millis(2000)).await.is_none() { got = 0; break; }
            }
        }
        let _ = &last;
        s.out.push(Case { term: "-".into(), desc: json!({"target": tname(T_TURN_DATA), "what": "ChannelData frames (unbound channels, every length relation) and random datagrams to the TURN client, then a relayed binding request", "inputs": n, "answered": got, "last_input_hex": hex(&last)}),
            oracle_fail: if panics() > pp { Some(format!("PANIC in the ICE transport task: {}", last_panic())) } else if got == 0 { Some(format!("LIVENESS: TURN read loop dead during the ChannelData/random stream (last datagram {})", hex(&last))) } else { None },
            known: None, nontrivial: true, key: "turn|channeldata".into(), kind: "random-bulk".into() });
    }
    ice.runner.abort();
    drop(ice);

    // ---- TURN over TCP: frame length vs the 1500-byte buffer. (1) in the Allocate exchange, (2) in the read loop
    for (declared, what, expect_ok) in [(1501u16, "F4 witness: Allocate response frame with declared length 1501", false), (65535, "Allocate response frame with declared length 65535", false),
                                        (1500, "Allocate response frame of exactly 1500 bytes (garbage)", false)] {
        let srv = TcpTurn::new().await;
        let ice = start_ice(srv.url());
        let pp = panics();
        let mut fail = None;
        match srv.accept_and_read_request(Duration::from_secs(5)).await {
            None => fail = Some("harness: no TCP Allocate request".to_string()),
            Some((mut st, _req)) => {
                write_frame(&mut st, declared, &vec![0u8; declared as usize]).await;
                tokio::time::sleep(Duration::from_millis(300)).await;
            }
        }
        let v = if panics() > pp { V_PANIC } else { V_ERR };
        if panics() > pp { fail = Some(format!("PANIC in TurnClient::recv (TCP framing) during Allocate: {}", last_panic())); }
        let _ = expect_ok;
        s.count(T_TURN_TCP, v);
        s.push_case(T_TURN_TCP, &[1500, declared as i128], &[vec![]], &Out1 { v, dig: vec![] }, fail, "corpus", what, declared > 1500);
        ice.runner.abort();
    }
    // (2) read loop: allocate properly, then frames around the buffer size, each a padded Data indication with a binding request
    let lens: Vec<usize> = if thorough { vec![0, 96, 1000, 1496, 1500, 1504, 2000, 65532] } else { vec![0, 96, 1496, 1500, 1504, 65532] };
    for declared in lens {
        let srv = TcpTurn::new().await;
        let ice = start_ice(srv.url());
        let pp = panics();
        let mut fail = None;
        let mut got = 0usize;
        match srv.accept_and_read_request(Duration::from_secs(5)).await {
            None => fail = Some("harness: no TCP Allocate request".to_string()),
            Some((mut st, req)) => {
                let r = allocate_success(&req, "127.0.0.1:45001".parse().unwrap());
                write_frame(&mut st, r.len() as u16, &r).await;
                tokio::time::sleep(Duration::from_millis(100)).await;
                let body = if declared == 0 { vec![] } else { data_indication(peer, &binding_request(0x55), Some(declared)) };
                let body = if body.len() == declared { body } else { let mut b = body; b.resize(declared, 0); b };
                write_frame(&mut st, declared as u16, &body).await;
                got = tcp_answers(&mut st, Duration::from_millis(400)).await;
                if got == 0 && declared <= 1500 && declared > 0 { got = tcp_answers(&mut st, Duration::from_millis(1500)).await; }
            }
        }
        let v = if panics() > pp { V_PANIC } else if declared > 1500 { V_ERR } else { V_OK };
        if panics() > pp { fail = Some(format!("PANIC in TurnClient::recv (TCP framing) in the read loop: {}", last_panic())); }
        else if fail.is_none() && declared >= 96 && declared <= 1500 && got == 0 { fail = Some(format!("LIVENESS: a {}-byte TURN/TCP frame carrying a relayed binding request got no answer", declared)); }
        else if fail.is_none() && declared > 1500 && got > 0 { fail = Some("a frame larger than the receive buffer was processed".into()); }
        s.count(T_TURN_TCP, v);
        s.push_case(T_TURN_TCP, &[1500, declared as i128], &[vec![]], &Out1 { v, dig: vec![] }, fail, "structured", &format!("TURN/TCP frame of declared length {} in the read loop", declared), true);
        ice.runner.abort();
    }
}

fn flush_bloats(s: &mut Sink, stream: &str) {
    let v: Vec<(String, Vec<u8>)> = std::mem::take(&mut *LIVE_BLOATS.lock());
    for (i, (m, input)) in v.into_iter().enumerate() {
        s.out.push(Case { term: "-".into(),
            desc: json!({"target": format!("allocation oracle, {} tier", stream), "what": "allocation disproportionate to the input on a live endpoint", "len": input.len(),
                         "input_hex": hex(&input), "input_full_hex": input.iter().take(4096).map(|b| format!("{:02x}", b)).collect::<String>()}),
            oracle_fail: Some(m), known: None, nontrivial: false, key: format!("bloat|{}|{}", stream, i), kind: "live".into() });
    }
}

// ------------------------------------------------------------------------------------------------
fn main() {
    let args = parse_args();
    install_hook();
    *OUT_DIR.lock() = args.out.clone();
    start_watchdog();
    let thorough = args.tier == "thorough";
    let mut s = Sink::new(&args.out);
    let only = std::env::var("C07_ONLY").unwrap_or_default();
    let want = |k: &str| only.is_empty() || only.split(',').any(|x| x == k);
    let mut times = serde_json::Map::new();
    let t0 = Instant::now();
    if want("pure") { let mut r = Rng::new(args.seed ^ 0x1111); pure_streams(&mut s, &mut r, thorough); cand_streams(&mut s, &mut r, thorough); }
    times.insert("pure".into(), json!(t0.elapsed().as_secs_f64()));
    let rt = tokio::runtime::Builder::new_multi_thread().worker_threads(4).enable_all().build().unwrap();
    if let Ok(f) = std::env::var("C07_REPLAY_SCTP") {
        // replay one raw chunk area on a fresh established endpoint: prints what the endpoint emitted
        rt.block_on(async {
            use sctpx::*;
            let hexs = std::fs::read_to_string(&f).unwrap();
            let bytes: Vec<u8> = (0..hexs.trim().len() / 2).map(|i| u8::from_str_radix(&hexs[2 * i..2 * i + 2], 16).unwrap()).collect();
            let cfgch = rustrtc::transports::sctp::DataChannelConfig { label: "x".into(), negotiated: Some(0), ordered: true, ..Default::default() };
            for client in [true, false] {
                let mut live = Live::start(UutOpts { sctp_client: client, channels: vec![(0, cfgch.clone())], ..Default::default() }).await;
                let t0 = Instant::now();
                let r = live.exchange(vec![raw_packet(live.u.uut_tag, &bytes)]).await;
                println!("client={} answered={} in {:?} chunks={:?} panics={} {}", client, r.is_some(), t0.elapsed(), r.map(|c| c.iter().map(|x| (x.ty, x.value.len())).collect::<Vec<_>>()), panics(), last_panic());
                let r = live.exchange(vec![]).await;
                println!("  second exchange answered={}", r.is_some());
            }
        });
        return;
    }
    rt.block_on(async {
        let t = Instant::now();
        if want("sdp") { let mut r = Rng::new(args.seed ^ 0x2222); sdp_streams(&mut s, &mut r, thorough).await; flush_bloats(&mut s, "sdp"); }
        times.insert("sdp".into(), json!(t.elapsed().as_secs_f64()));
        let t = Instant::now();
        if want("udptl") { let mut r = Rng::new(args.seed ^ 0x3333); udptl_streams(&mut s, &mut r, thorough).await; flush_bloats(&mut s, "udptl"); }
        times.insert("udptl".into(), json!(t.elapsed().as_secs_f64()));
        let t = Instant::now();
        if want("rtp") { let mut r = Rng::new(args.seed ^ 0x7777); rtp_rtcp_streams(&mut s, &mut r, thorough).await; flush_bloats(&mut s, "rtp"); }
        times.insert("rtp".into(), json!(t.elapsed().as_secs_f64()));
        let t = Instant::now();
        if want("dtls") { let mut r = Rng::new(args.seed ^ 0x4444); dtls_streams(&mut s, &mut r, thorough).await; flush_bloats(&mut s, "dtls"); }
        times.insert("dtls".into(), json!(t.elapsed().as_secs_f64()));
        let t = Instant::now();
        if want("sctp") { let mut r = Rng::new(args.seed ^ 0x5555); sctp_streams(&mut s, &mut r, thorough).await; flush_bloats(&mut s, "sctp"); }
        times.insert("sctp".into(), json!(t.elapsed().as_secs_f64()));
        let t = Instant::now();
        if want("turn") { let mut r = Rng::new(args.seed ^ 0x6666); turn_streams(&mut s, &mut r, thorough).await; flush_bloats(&mut s, "turn"); }
        times.insert("turn".into(), json!(t.elapsed().as_secs_f64()));
    });
    rt.shutdown_timeout(Duration::from_millis(200));

    let per: serde_json::Value = s.per_target.iter().map(|(t, (n, ok, err, pa))| {
        (tname(*t).to_string(), json!({"inputs": n, "ok": ok, "err": err, "panic": pa,
            "max_call_us": s.max_dur_us.get(t), "max_alloc_bytes_per_input_byte(len>=64)": s.max_alloc_ratio.get(t)}))
    }).collect::<serde_json::Map<_, _>>().into();
    let total = s.inputs;
    let _ = s.term_budget;
    let plog: Vec<String> = PANIC_LOG.lock().iter().take(8).cloned().collect();
    s.out.finish(json!({"generator": {
        "seed": args.seed, "tier": args.tier, "inputs_total": total, "per_target": per,
        "streams": ["corpus", "exhaustive (all byte strings of length <= 2)", "structured (valid message, every length field 0/-1/+1/+2/max/max-1/half/double, every prefix, +1..3 bytes)", "random-bulk (up to 64 KiB, full/low entropy)", "live (SCTP endpoint, TURN client, PeerConnection) with liveness probes"],
        "time_s": times,
        "panics_seen_process_wide": panics(), "panic_log_head": plog,
        "live_alloc_max_per_input(total, largest single request)": LIVE_ALLOC_MAX.lock().iter().map(|(k, v)| (k.clone(), json!([v.0, v.1]))).collect::<serde_json::Map<_, _>>(),
    }}));
}
