//! C08 — generated answers are valid answers; SDP print/parse round trip.
//!
//! Part 1 (print/parse): generated descriptions / raw SDP texts are run through the real
//! `SessionDescription::{to_sdp_string, parse}`; the printed text is tokenised into lines and the
//! structures are emitted as Gallina terms for `Run/C08Run.v` (model: `Model/Sdp.v`). Direct oracle:
//! the literal round trip `parse(print(d)) == d` of the property text.
//!
//! Part 2 (answers): abstract offers are rendered to SDP text, applied to a real `PeerConnection`
//! (`set_remote_description` + `create_answer`, public API, no network), the answer is abstracted
//! back and compared with `Model/Answer.v`; direct oracle: `valid_answer` written from the property
//! text / RFC 3264 / JSEP.
use rustrtc::sdp::{
    AddressType, Attribute, Direction, MediaKind, MediaSection, NetworkType, Origin, SdpType,
    SessionDescription, SessionSection, Timing,
};
use serde_json::json;
use std::collections::BTreeMap;
use vh::*;

// ------------------------------------------------------------------------------------------------
// Gallina rendering
// ------------------------------------------------------------------------------------------------
fn st(s: &str) -> String {
    // Coq string literal; the only escape is "" for a quote. Terms are written one per line.
    assert!(!s.contains('\n') && !s.contains('\r'), "string with a line break cannot be a term");
    format!("\"{}\"", s.replace('"', "\"\""))
}
fn ost(s: &Option<String>) -> String {
    match s {
        Some(v) => format!("(sv {})", st(v)),
        None => "None".into(),
    }
}
fn kind_t(k: MediaKind) -> &'static str {
    match k {
        MediaKind::Audio => "KAudio",
        MediaKind::Video => "KVideo",
        MediaKind::Application => "KApplication",
        MediaKind::Image => "KImage",
    }
}
fn dir_t(d: Direction) -> &'static str {
    match d {
        Direction::SendRecv => "DSendRecv",
        Direction::SendOnly => "DSendOnly",
        Direction::RecvOnly => "DRecvOnly",
        Direction::Inactive => "DInactive",
    }
}
fn attr_t(a: &Attribute) -> String {
    match &a.value {
        Some(v) => format!("av {} {}", st(&a.key), st(v)),
        None => format!("a0 {}", st(&a.key)),
    }
}
fn attrs_t(v: &[Attribute]) -> String {
    list_term(&v.iter().map(attr_t).collect::<Vec<_>>())
}
fn sect_t(s: &MediaSection) -> String {
    format!(
        "mkSect {} {} {} {} {} {} {} {}",
        kind_t(s.kind),
        st(&s.mid),
        s.port,
        st(&s.protocol),
        list_term(&s.formats.iter().map(|f| st(f)).collect::<Vec<_>>()),
        dir_t(s.direction),
        attrs_t(&s.attributes),
        ost(&s.connection)
    )
}
fn desc_t(d: &SessionDescription) -> String {
    let o = &d.session.origin;
    format!(
        "mkDesc (mkHdr {} {} {} {} {} {} {} {} {}) {} {} {}",
        d.session.version,
        st(&o.username),
        o.session_id,
        o.session_version,
        bool_term(o.address_type == AddressType::Ipv6),
        st(&o.unicast_address),
        st(&d.session.name),
        d.session.timing.start,
        d.session.timing.stop,
        ost(&d.session.connection),
        attrs_t(&d.session.attributes),
        list_term(&d.media_sections.iter().map(|s| format!("({})", sect_t(s))).collect::<Vec<_>>())
    )
}
fn odesc_t(d: &Option<SessionDescription>) -> String {
    match d {
        Some(d) => format!("(Some ({}))", desc_t(d)),
        None => "None".into(),
    }
}

// ------------------------------------------------------------------------------------------------
// lines (the harness' own tokeniser / renderer of SDP text; the model works on these)
// ------------------------------------------------------------------------------------------------
#[derive(Clone, Debug, PartialEq)]
enum Line {
    V(u64),
    O { user: String, sid: u64, sver: u64, ip6: bool, addr: String },
    S(String),
    T(u64, u64),
    C(String),
    A(String),
    M { kind: MediaKind, port: u16, proto: String, fmts: Vec<String> },
    X(String, String),
}
fn line_t(l: &Line) -> String {
    match l {
        Line::V(v) => format!("LV {}", v),
        Line::O { user, sid, sver, ip6, addr } => format!("LO {} {} {} {} {}", st(user), sid, sver, bool_term(*ip6), st(addr)),
        Line::S(n) => format!("LS {}", st(n)),
        Line::T(a, b) => format!("LT {} {}", a, b),
        Line::C(c) => format!("LC {}", st(c)),
        Line::A(p) => format!("LA {}", st(p)),
        Line::M { kind, port, proto, fmts } => format!(
            "LM {} {} {} {}",
            kind_t(*kind),
            port,
            st(proto),
            list_term(&fmts.iter().map(|f| st(f)).collect::<Vec<_>>())
        ),
        Line::X(p, v) => format!("LX {} {}", st(p), st(v)),
    }
}
fn lines_t(ls: &[Line]) -> String {
    list_term(&ls.iter().map(line_t).collect::<Vec<_>>())
}
fn kind_of(s: &str) -> Option<MediaKind> {
    match s {
        "audio" => Some(MediaKind::Audio),
        "video" => Some(MediaKind::Video),
        "application" => Some(MediaKind::Application),
        "image" => Some(MediaKind::Image),
        _ => None,
    }
}
fn kind_s(k: MediaKind) -> &'static str {
    match k {
        MediaKind::Audio => "audio",
        MediaKind::Video => "video",
        MediaKind::Application => "application",
        MediaKind::Image => "image",
    }
}
/// text -> lines (RFC 4566 line structure: CRLF / LF separated, `<prefix>=<value>`); None when a
/// v/o/t/m line is not tokenisable (the generators never produce such texts)
fn tokenise(text: &str) -> Option<Vec<Line>> {
    let mut out = vec![];
    for raw in text.lines() {
        let l = raw.trim();
        if l.is_empty() {
            continue;
        }
        let (p, v) = l.split_once('=')?;
        out.push(match p {
            "v" => Line::V(v.parse().ok()?),
            "o" => {
                let f: Vec<&str> = v.split_whitespace().collect();
                if f.len() < 6 || !(f[3] == "IN" || f[3] == "in") {
                    return None;
                }
                let ip6 = match f[4].to_uppercase().as_str() {
                    "IP4" => false,
                    "IP6" => true,
                    _ => return None,
                };
                Line::O { user: f[0].into(), sid: f[1].parse().ok()?, sver: f[2].parse().ok()?, ip6, addr: f[5].into() }
            }
            "s" => Line::S(v.into()),
            "t" => {
                let f: Vec<&str> = v.split_whitespace().collect();
                if f.len() < 2 {
                    return None;
                }
                Line::T(f[0].parse().ok()?, f[1].parse().ok()?)
            }
            "c" => Line::C(v.into()),
            "a" => Line::A(v.into()),
            "m" => {
                let f: Vec<&str> = v.split_whitespace().collect();
                if f.len() < 3 {
                    return None;
                }
                Line::M { kind: kind_of(f[0])?, port: f[1].parse().ok()?, proto: f[2].into(), fmts: f[3..].iter().map(|x| x.to_string()).collect() }
            }
            other => Line::X(other.into(), v.into()),
        });
    }
    Some(out)
}
fn render_lines(ls: &[Line], eol: &str) -> String {
    let mut s = String::new();
    for l in ls {
        let t = match l {
            Line::V(v) => format!("v={}", v),
            Line::O { user, sid, sver, ip6, addr } => format!("o={} {} {} IN {} {}", user, sid, sver, if *ip6 { "IP6" } else { "IP4" }, addr),
            Line::S(n) => format!("s={}", n),
            Line::T(a, b) => format!("t={} {}", a, b),
            Line::C(c) => format!("c={}", c),
            Line::A(p) => format!("a={}", p),
            Line::M { kind, port, proto, fmts } => format!("m={} {} {} {}", kind_s(*kind), port, proto, fmts.join(" ")),
            Line::X(p, v) => format!("{}={}", p, v),
        };
        s.push_str(&t);
        s.push_str(eol);
    }
    s
}

// ------------------------------------------------------------------------------------------------
// part 1: direct oracle (from the property text: "serialising any description the stack produced or
// parsed and parsing it back yields the same description")
// ------------------------------------------------------------------------------------------------
/// the keys the printer emits first: read from the regenerated Gen/SdpTables.v (translated from
/// `MediaSection::write_lines` on every run) so that the class matcher follows the code
static TRANSPORT_KEYS: std::sync::OnceLock<Vec<String>> = std::sync::OnceLock::new();
fn transport_keys() -> &'static Vec<String> {
    TRANSPORT_KEYS.get_or_init(|| {
        let fallback = || ["ice-ufrag", "ice-pwd", "fingerprint", "setup", "candidate"].iter().map(|s| s.to_string()).collect::<Vec<_>>();
        let root = std::env::var("RV_ROOT").unwrap_or_else(|_| "/verif".into());
        let Ok(src) = std::fs::read_to_string(format!("{}/coq/Gen/SdpTables.v", root)) else { return fallback() };
        let Some(i) = src.find("Definition transport_keys : list string := [") else { return fallback() };
        let rest = &src[i..];
        let Some(j) = rest.find("].") else { return fallback() };
        let body = &rest[rest.find('[').unwrap() + 1..j];
        let keys: Vec<String> = body.split(';').filter_map(|x| x.trim().strip_suffix("%string").map(|y| y.trim_matches('"').to_string())).collect();
        if keys.is_empty() { fallback() } else { keys }
    })
}
fn is_transport_key(k: &str) -> bool {
    transport_keys().iter().any(|x| x == k)
}
const SPECIAL_KEYS: [&str; 6] = ["sendrecv", "sendonly", "recvonly", "inactive", "mid", "connection"];

/// a description that `parse` can return / `build_description` can build: keys without ':', no
/// attribute named like a direction / mid / connection inside a media section, formats present
fn in_domain(d: &SessionDescription) -> bool {
    d.session.attributes.iter().all(|a| !a.key.contains(':'))
        && d.media_sections.iter().all(|s| {
            !s.formats.is_empty() && s.attributes.iter().all(|a| !a.key.contains(':') && !SPECIAL_KEYS.contains(&a.key.as_str()))
        })
}
/// the listed class `attr_order_not_preserved`: the only difference is that inside a section the
/// transport attributes have moved in front of the others (relative orders kept)
fn only_transport_reorder(d: &SessionDescription, re: &SessionDescription) -> bool {
    let mut n = d.clone();
    let mut moved = false;
    for s in &mut n.media_sections {
        let (t, m): (Vec<Attribute>, Vec<Attribute>) = s.attributes.iter().cloned().partition(|a| is_transport_key(&a.key));
        let mut all = t;
        all.extend(m);
        if all != s.attributes {
            moved = true;
        }
        s.attributes = all;
    }
    moved && n == *re
}
/// (oracle_fail, known)
fn roundtrip_oracle(d: &SessionDescription, re: &Result<SessionDescription, String>) -> (Option<String>, Option<String>) {
    match re {
        Ok(r) if r == d => (None, None),
        Ok(r) if only_transport_reorder(d, r) => (None, Some("attr_order_not_preserved".into())),
        Ok(r) => {
            let mut what = String::from("parse(print(d)) != d");
            if r.session != d.session {
                what.push_str(" (session part differs)");
            }
            for (i, (a, b)) in d.media_sections.iter().zip(r.media_sections.iter()).enumerate() {
                if a != b {
                    what.push_str(&format!(" (section {} differs: {:?} vs {:?})", i, a, b));
                    break;
                }
            }
            if r.media_sections.len() != d.media_sections.len() {
                what.push_str(" (section count differs)");
            }
            (Some(what), None)
        }
        Err(e) => (Some(format!("parse(print(d)) fails: {}", e)), None),
    }
}

fn desc_json(d: &SessionDescription) -> serde_json::Value {
    json!({"sdp": d.to_sdp_string()})
}

/// strings whose last line-field ends (or starts) with whitespace: the parser trims every line, which is
/// below the line-level model (documented assumption); such descriptions are only counted
fn has_edge_whitespace(d: &SessionDescription) -> bool {
    let edge = |s: &str| s != s.trim();
    let attr = |a: &Attribute| match &a.value { Some(v) => edge(v), None => edge(&a.key) };
    edge(&d.session.name)
        || d.session.connection.as_deref().map(edge).unwrap_or(false)
        || d.session.attributes.iter().any(attr)
        || d.media_sections.iter().any(|s| edge(&s.mid) || s.connection.as_deref().map(edge).unwrap_or(false) || s.attributes.iter().any(attr))
}

/// run one description through print / parse; returns the case
fn print_case(d: &SessionDescription, kind: &str, oracle: bool, stats: &mut Stats) -> Case {
    if has_edge_whitespace(d) {
        *stats.c.entry(format!("print:{}:skipped-edge-whitespace", kind)).or_default() += 1;
        return Case { term: "-".into(), desc: json!({"what": "print/parse (skipped: a value ends with whitespace)", "description": desc_json(d)}),
            oracle_fail: None, known: None, nontrivial: false, key: format!("P|{:?}", d), kind: format!("{}-skipped", kind) };
    }
    let dd = d.clone();
    let text = catch(move || dd.to_sdp_string());
    let (term, fail, known, nontrivial);
    match text {
        Err(p) => {
            term = "-".to_string();
            fail = Some(format!("to_sdp_string panicked: {}", p));
            known = None;
            nontrivial = false;
        }
        Ok(text) => {
            let t2 = text.clone();
            let ty = d.sdp_type;
            let re = match catch(move || SessionDescription::parse(ty, &t2)) {
                Ok(Ok(r)) => Ok(r),
                Ok(Err(e)) => Err(format!("{:?}", e)),
                Err(p) => Err(format!("PANIC {}", p)),
            };
            let lines = tokenise(&text);
            let dom = in_domain(d);
            let (f, k) = if oracle && dom { roundtrip_oracle(d, &re) } else { (None, None) };
            let f = match (&re, f) {
                (Err(e), None) if e.starts_with("PANIC") => Some(format!("parse panicked: {}", e)),
                (_, f) => f,
            };
            term = match lines {
                Some(ls) => format!("CPrint ({}) {} {}", desc_t(d), lines_t(&ls), odesc_t(&re.clone().ok())),
                None => "-".into(),
            };
            *stats.c.entry(format!("print:{}:{}", kind, if k.is_some() { "reordered" } else if re.as_ref().map(|r| r == d).unwrap_or(false) { "identical" } else if re.is_ok() { "other" } else { "parse-error" })).or_default() += 1;
            nontrivial = d.media_sections.iter().any(|s| !s.attributes.is_empty());
            fail = f;
            known = k;
        }
    }
    Case {
        term,
        desc: json!({"what": "print/parse", "description": desc_json(d), "debug": format!("{:?}", d)}),
        oracle_fail: fail,
        known,
        nontrivial,
        key: format!("P|{:?}", d),
        kind: kind.into(),
    }
}

#[derive(Default)]
struct Stats {
    c: BTreeMap<String, u64>,
}

// ------------------------------------------------------------------------------------------------
// part 1: generators
// ------------------------------------------------------------------------------------------------
const FP_SHORT: &str = "sha-256 AB:CD:EF:01";
const FP: &str = "sha-256 00:11:22:33:44:55:66:77:88:99:AA:BB:CC:DD:EE:FF:00:11:22:33:44:55:66:77:88:99:AA:BB:CC:DD:EE:FF";

fn gen_attr(r: &mut Rng, exotic: bool) -> Attribute {
    let k = r.below(if exotic { 26 } else { 20 });
    let (key, val): (&str, Option<String>) = match k {
        0 => ("ice-ufrag", Some(format!("u{}", r.below(1000)))),
        1 => ("ice-pwd", Some(format!("pwd{}abcdefghijklmnop", r.below(1000)))),
        2 => ("fingerprint", Some(FP_SHORT.into())),
        3 => ("setup", Some(r.pick(&["active", "passive", "actpass", "holdconn"]).to_string())),
        4 => ("candidate", Some(format!("{} 1 udp 2130706431 192.0.2.{} {} typ host", r.below(9), r.below(255), 1024 + r.below(60000)))),
        5 => ("rtcp-mux", None),
        6 => ("rtpmap", Some(format!("{} {}", r.below(128), r.pick(&["opus/48000/2", "PCMU/8000", "VP8/90000", "rtx/90000", "H264/90000"])))),
        7 => ("fmtp", Some(format!("{} {}", r.below(128), r.pick(&["apt=96", "minptime=10;useinbandfec=1", "0-16", "profile-level-id=42e01f"])))),
        8 => ("extmap", Some(format!("{} {}", 1 + r.below(20), r.pick(&["urn:ietf:params:rtp-hdrext:sdes:mid", "http://www.webrtc.org/experiments/rtp-hdrext/abs-send-time", "urn:ietf:params:rtp-hdrext:toffset"])))),
        9 => ("ssrc", Some(format!("{} cname:{}", r.next() as u32, r.pick(&["a", "x:y", "c d"])))),
        10 => ("ice-options", Some("trickle".into())),
        11 => ("end-of-candidates", None),
        12 => ("msid", Some("stream track".into())),
        13 => ("rtcp-fb", Some(format!("{} nack pli", r.below(128)))),
        14 => ("crypto", Some("1 AES_CM_128_HMAC_SHA1_80 inline:abcd|2^31|1:1".into())),
        15 => ("rtcp", Some(format!("{}", 1024 + r.below(60000)))),
        16 => ("sctp-port", Some("5000".into())),
        17 => ("x-empty", Some(String::new())),
        18 => ("ssrc-group", Some("FID 1 2".into())),
        19 => ("T38FaxVersion", Some("0".into())),
        // exotic: names the parser treats specially, keys with ':' etc.
        20 => (*r.pick(&["sendrecv", "sendonly", "recvonly", "inactive"]), if r.chance(1, 4) { Some("x".into()) } else { None }),
        21 => ("mid", if r.chance(1, 4) { None } else { Some(r.pick(&["7", "late", "", "a:b"]).to_string()) }),
        22 => ("connection", if r.chance(1, 3) { None } else { Some(r.pick(&["new", "existing"]).to_string()) }),
        23 => (*r.pick(&["k:1", ":", "a:b:c", ""]), if r.chance(1, 2) { None } else { Some("v".into()) }),
        24 => ("Setup", Some("active".into())),
        _ => ("candidates", Some("not-a-transport-key".into())),
    };
    Attribute::new(key, val)
}

fn gen_mids(r: &mut Rng, n: usize) -> Vec<String> {
    match r.below(7) {
        6 => (0..n).map(|i| format!("mid-{:03}-{}", i, "long-non-numeric-identifier-0123456789-abcdefghijklmnopqrstuvwxyz")).collect(),
        0 => vec![String::new(); n],
        1 => (0..n).map(|i| i.to_string()).collect(),
        2 => (0..n).map(|i| format!("{}{}", r.pick(&["audio", "video", "data", "m-"]), i)).collect(),
        3 => (0..n).map(|_| r.pick(&["0", "1", "a"]).to_string()).collect(), // duplicates
        4 => (0..n).map(|i| if r.chance(1, 2) { String::new() } else { (i * 7).to_string() }).collect(),
        _ => (0..n).map(|_| r.pick(&["65534", "65535", "65536", "007", "+1", "mid with space", "x:y"]).to_string()).collect(),
    }
}

fn gen_desc(r: &mut Rng, exotic: bool) -> SessionDescription {
    let mut d = SessionDescription::new(*r.pick(&[SdpType::Offer, SdpType::Answer]));
    d.session = SessionSection {
        version: if r.chance(1, 10) { r.below(3) as u8 } else { 0 },
        origin: Origin {
            username: r.pick(&["-", "rustrtc", "alice"]).to_string(),
            session_id: *r.pick(&[0u64, 1, 1790369661, u64::MAX]),
            session_version: r.below(5),
            network_type: NetworkType::Internet,
            address_type: if r.chance(1, 5) { AddressType::Ipv6 } else { AddressType::Ipv4 },
            unicast_address: r.pick(&["0.0.0.0", "127.0.0.1", "::1", "host.example"]).to_string(),
        },
        name: r.pick(&["-", "", "call", "a=b", "two words"]).to_string(),
        timing: Timing { start: *r.pick(&[0u64, 0, 3034423619]), stop: *r.pick(&[0u64, 0, 3042462419]) },
        connection: if r.chance(1, 3) { Some(r.pick(&["IN IP4 192.0.2.1", "IN IP6 ::1"]).to_string()) } else { None },
        attributes: vec![],
    };
    for _ in 0..r.below(5) {
        let a = match r.below(7) {
            0 => Attribute::new("group", Some("BUNDLE 0 1".into())),
            1 => Attribute::new("msid-semantic", Some("WMS *".into())),
            2 => Attribute::new("ice-lite", None),
            3 => Attribute::new("fingerprint", Some(FP_SHORT.into())),
            4 => Attribute::new("setup", Some("actpass".into())),
            5 => Attribute::new("sendonly", None), // session level: no special treatment
            _ => gen_attr(r, exotic),
        };
        d.session.attributes.push(a);
    }
    let n = if r.chance(1, 15) { 0 } else if r.chance(1, 12) { r.range(7, 12) as usize } else { r.range(1, 6) as usize };
    let mids = gen_mids(r, n);
    for i in 0..n {
        let kind = *r.pick(&[MediaKind::Audio, MediaKind::Video, MediaKind::Application, MediaKind::Image]);
        let mut s = MediaSection::new(kind, mids[i].clone());
        s.port = *r.pick(&[9u16, 9, 0, 4000, 65535]);
        s.protocol = r.pick(&["UDP/TLS/RTP/SAVPF", "RTP/AVP", "RTP/SAVP", "UDP/DTLS/SCTP", "udptl"]).to_string();
        let nf = if exotic && r.chance(1, 12) { 0 } else { r.range(1, 4) };
        for _ in 0..nf {
            s.formats.push(r.pick(&["0", "8", "96", "97", "111", "101", "webrtc-datachannel", "t38", "255", "300"]).to_string());
        }
        s.direction = *r.pick(&[Direction::SendRecv, Direction::SendOnly, Direction::RecvOnly, Direction::Inactive]);
        // media-level c=: absent, different from the session-level one, or equal to it (a printer that drops
        // the "redundant" line loses `connection: Some(..)` on the way back)
        s.connection = match r.below(6) {
            0 | 1 => Some("IN IP4 0.0.0.0".into()),
            2 | 3 => d.session.connection.clone().or(Some("IN IP4 192.0.2.1".into())),
            _ => None,
        };
        let na = r.below(11);
        for _ in 0..na {
            s.attributes.push(gen_attr(r, exotic));
        }
        // the shape of what build_description produces: ice first, media, then fingerprint/setup last
        if r.chance(1, 4) {
            s.attributes.push(Attribute::new("fingerprint", Some(FP_SHORT.into())));
            s.attributes.push(Attribute::new("setup", Some("active".into())));
        }
        d.media_sections.push(s);
    }
    d
}

fn hdr_lines(r: &mut Rng) -> Vec<Line> {
    vec![
        Line::V(0),
        Line::O { user: "-".into(), sid: r.below(100000), sver: r.below(3), ip6: false, addr: "127.0.0.1".into() },
        Line::S(r.pick(&["-", "x", ""]).to_string()),
        Line::T(0, 0),
    ]
}

/// raw SDP text as lines; `wild` adds unknown prefixes with ':' and drops mandatory lines
fn gen_raw(r: &mut Rng, wild: bool) -> Vec<Line> {
    let mut ls = hdr_lines(r);
    if wild && r.chance(1, 6) {
        let i = r.below(ls.len() as u64) as usize;
        ls.remove(i);
    }
    if r.chance(1, 3) {
        ls.insert(r.range(1, ls.len() as u64) as usize, Line::C("IN IP4 198.51.100.1".into()));
    }
    let payload = |r: &mut Rng, exotic: bool| -> String {
        let a = gen_attr(r, exotic);
        match a.value {
            Some(v) => format!("{}:{}", a.key, v),
            None => a.key,
        }
    };
    for _ in 0..r.below(4) {
        let p = payload(r, true);
        ls.push(Line::A(p));
    }
    if r.chance(1, 3) {
        ls.push(Line::X(r.pick(&["b", "i", "k", "z"]).to_string(), r.pick(&["AS:64", "info", "x:y=z"]).to_string()));
    }
    let n = r.below(5) as usize;
    let mids = gen_mids(r, n);
    for i in 0..n {
        let kind = *r.pick(&[MediaKind::Audio, MediaKind::Video, MediaKind::Application, MediaKind::Image]);
        let nf = if wild && r.chance(1, 10) { 0 } else { r.range(1, 3) };
        ls.push(Line::M {
            kind,
            port: *r.pick(&[9u16, 0, 5004]),
            proto: r.pick(&["UDP/TLS/RTP/SAVPF", "RTP/AVP"]).to_string(),
            fmts: (0..nf).map(|_| r.pick(&["0", "96", "111", "webrtc-datachannel"]).to_string()).collect(),
        });
        let mut body: Vec<Line> = vec![];
        if r.chance(1, 3) {
            body.push(Line::C(r.pick(&["IN IP4 0.0.0.0", "IN IP4 198.51.100.1"]).to_string()));
        }
        if !mids[i].is_empty() {
            body.push(Line::A(format!("mid:{}", mids[i])));
        }
        if r.chance(2, 3) {
            body.push(Line::A(r.pick(&["sendrecv", "sendonly", "recvonly", "inactive"]).to_string()));
        }
        for _ in 0..r.below(8) {
            let p = payload(r, true);
            body.push(Line::A(p));
        }
        if r.chance(1, 5) {
            body.push(Line::X(r.pick(&["b", "y"]).to_string(), "TIAS:64000".into()));
        }
        if wild && r.chance(1, 5) {
            body.push(Line::X(r.pick(&["x:y", "ab", ":"]).to_string(), "v".into()));
        }
        if r.chance(1, 6) {
            // a second v= / s= line inside the media part (last one wins)
            body.push(Line::S("late".into()));
        }
        // shuffle the body a little (attribute order is what the normal form is about)
        for _ in 0..body.len() {
            let a = r.below(body.len() as u64) as usize;
            let b = r.below(body.len() as u64) as usize;
            body.swap(a, b);
        }
        ls.extend(body);
    }
    ls
}

fn parse_case(ls: &[Line], kind: &str, stats: &mut Stats) -> (Case, Option<SessionDescription>) {
    let text = render_lines(ls, "\r\n");
    let t2 = text.clone();
    let res = catch(move || SessionDescription::parse(SdpType::Offer, &t2));
    let (parsed, fail) = match res {
        Ok(Ok(d)) => (Some(d), None),
        Ok(Err(_)) => (None, None),
        Err(p) => (None, Some(format!("SessionDescription::parse panicked: {}", p))),
    };
    *stats.c.entry(format!("parse:{}:{}", kind, if parsed.is_some() { "ok" } else { "err" })).or_default() += 1;
    let c = Case {
        term: format!("CParse {} {}", lines_t(ls), odesc_t(&parsed)),
        desc: json!({"what": "parse", "sdp": text}),
        oracle_fail: fail,
        known: None,
        nontrivial: parsed.as_ref().map(|d| !d.media_sections.is_empty()).unwrap_or(false),
        key: format!("R|{}", text),
        kind: kind.into(),
    };
    (c, parsed)
}

fn corpus_descs() -> Vec<SessionDescription> {
    let mut v = vec![];
    // F16 witness (same as Proofs/SdpProofs.v f16_witness): a transport attribute after a media attribute
    let mut d = SessionDescription::new(SdpType::Answer);
    let mut s = MediaSection::new(MediaKind::Audio, "0");
    s.formats.push("111".into());
    s.attributes.push(Attribute::new("rtcp-mux", None));
    s.attributes.push(Attribute::new("setup", Some("active".into())));
    d.media_sections.push(s);
    v.push(d.clone());
    // already transport-first: the literal round trip holds
    d.media_sections[0].attributes.swap(0, 1);
    v.push(d.clone());
    // session-level c= and a media-level c= equal to it, plus one that differs (transport-first: literal round trip)
    let mut g = SessionDescription::new(SdpType::Answer);
    g.session.connection = Some("IN IP4 192.0.2.1".into());
    for (i, c) in ["IN IP4 192.0.2.1", "IN IP4 198.51.100.7"].iter().enumerate() {
        let mut s = MediaSection::new(MediaKind::Audio, i.to_string());
        s.formats.push("0".into());
        s.connection = Some(c.to_string());
        s.attributes.push(Attribute::new("setup", Some("passive".into())));
        s.attributes.push(Attribute::new("rtcp-mux", None));
        g.media_sections.push(s);
    }
    v.push(g);
    // no sections, session attributes only
    let mut e = SessionDescription::new(SdpType::Offer);
    e.session.attributes.push(Attribute::new("group", Some("BUNDLE".into())));
    e.session.connection = Some("IN IP4 192.0.2.1".into());
    v.push(e);
    // mid-less section, value-less and empty-valued attributes
    let mut f = SessionDescription::new(SdpType::Offer);
    let mut s = MediaSection::new(MediaKind::Video, "");
    s.formats = vec!["96".into(), "97".into()];
    s.attributes.push(Attribute::new("x-empty", Some(String::new())));
    s.attributes.push(Attribute::new("end-of-candidates", None));
    s.attributes.push(Attribute::new("candidate", Some("1 1 udp 1 192.0.2.1 9 typ host".into())));
    s.attributes.push(Attribute::new("ssrc", Some("1 cname:a:b".into())));
    f.media_sections.push(s);
    v.push(f);
    v
}


// ================================================================================================
// part 2: answers
// ================================================================================================
use rustrtc::peer_connection::{PeerConnection, TransceiverDirection};
use rustrtc::{AudioCapability, MediaCapabilities, RtcConfiguration, RtcpMuxPolicy, SdpCompatibilityMode, TransportMode, VideoCapability};

const URI_RID: &str = "urn:ietf:params:rtp-hdrext:sdes:rtp-stream-id";
const URI_REPAIRED: &str = "urn:ietf:params:rtp-hdrext:sdes:repaired-rtp-stream-id";
const URI_ABS: &str = "http://www.webrtc.org/experiments/rtp-hdrext/abs-send-time";
const URI_MID: &str = "urn:ietf:params:rtp-hdrext:sdes:mid";
const OTHER_URIS: [&str; 4] = [
    "urn:ietf:params:rtp-hdrext:toffset",
    "urn:ietf:params:rtp-hdrext:ssrc-audio-level",
    "http://www.ietf.org/id/draft-holmer-rmcat-transport-wide-cc-extensions-01",
    "urn:3gpp:video-orientation",
];

#[derive(Clone, Debug, PartialEq)]
struct Codec {
    pt: u8,
    name: String, // as written in the SDP (case preserved)
    clock: u32,
    ch: u8,
    rtpmap: bool, // false: static payload type listed without a=rtpmap
    fmtp: Option<String>,
}
#[derive(Clone, Debug, PartialEq)]
struct OSec {
    kind: MediaKind,
    mid: String,
    dir: Option<Direction>, // None: no direction attribute (defaults to sendrecv)
    port: u16,
    codecs: Vec<Codec>,
    rtx: Vec<(u8, u8)>, // (rtx pt, apt)
    ext: Vec<(u32, String)>,
    mux: bool,
    setup: Option<String>,
    fp: bool,
    ice: bool,
    extra: Vec<(String, Option<String>)>,
}
#[derive(Clone, Debug, PartialEq)]
struct Offer {
    groups: Vec<Vec<String>>,
    sess_setup: Option<String>,
    sess_fp: bool,
    sess_ice: bool,
    profile: String,
    secs: Vec<OSec>,
    sid: u64,
}
#[derive(Clone, Debug)]
struct Cfg {
    mode: TransportMode,
    legacy: bool,
    mux_require: bool,
    caps_none: bool,
    audio: Vec<AudioCapability>,
    video: Vec<VideoCapability>,
}
#[derive(Clone, Debug)]
struct Scenario {
    cfg: Cfg,
    pre: Vec<(MediaKind, TransceiverDirection)>,
    dc: bool,
    rounds: Vec<Offer>,
    wf: bool, // every offer is in the oracle's domain
}

fn dir_s(d: Direction) -> &'static str {
    match d {
        Direction::SendRecv => "sendrecv",
        Direction::SendOnly => "sendonly",
        Direction::RecvOnly => "recvonly",
        Direction::Inactive => "inactive",
    }
}

fn render_offer(o: &Offer) -> String {
    let mut s = String::new();
    s.push_str(&format!("v=0\r\no=- {} 2 IN IP4 127.0.0.1\r\ns=-\r\nc=IN IP4 127.0.0.1\r\nt=0 0\r\n", o.sid));
    for g in &o.groups {
        s.push_str(&format!("a=group:BUNDLE {}\r\n", g.join(" ")));
    }
    s.push_str("a=msid-semantic: WMS\r\n");
    if o.sess_ice {
        s.push_str("a=ice-ufrag:sessufrag\r\na=ice-pwd:sesspwdsesspwdsesspwd12\r\n");
    }
    if o.sess_fp {
        s.push_str(&format!("a=fingerprint:{}\r\n", FP));
    }
    if let Some(v) = &o.sess_setup {
        s.push_str(&format!("a=setup:{}\r\n", v));
    }
    for sec in &o.secs {
        let (proto, fmts): (String, Vec<String>) = match sec.kind {
            MediaKind::Application => ("UDP/DTLS/SCTP".into(), vec!["webrtc-datachannel".into()]),
            MediaKind::Image => ("udptl".into(), vec!["t38".into()]),
            _ => {
                let mut f: Vec<String> = sec.codecs.iter().map(|c| c.pt.to_string()).collect();
                f.extend(sec.rtx.iter().map(|(r, _)| r.to_string()));
                (o.profile.clone(), f)
            }
        };
        s.push_str(&format!("m={} {} {} {}\r\n", kind_s(sec.kind), sec.port, proto, fmts.join(" ")));
        s.push_str("c=IN IP4 127.0.0.1\r\n");
        if sec.ice {
            s.push_str("a=ice-ufrag:abcd\r\na=ice-pwd:abcdefghijklmnopqrstuv\r\n");
        }
        if sec.fp {
            s.push_str(&format!("a=fingerprint:{}\r\n", FP));
        }
        if let Some(v) = &sec.setup {
            s.push_str(&format!("a=setup:{}\r\n", v));
        }
        if !sec.mid.is_empty() {
            s.push_str(&format!("a=mid:{}\r\n", sec.mid));
        }
        for (id, uri) in &sec.ext {
            s.push_str(&format!("a=extmap:{} {}\r\n", id, uri));
        }
        if let Some(d) = sec.dir {
            s.push_str(&format!("a={}\r\n", dir_s(d)));
        }
        if sec.mux {
            s.push_str("a=rtcp-mux\r\n");
        }
        match sec.kind {
            MediaKind::Application => s.push_str("a=sctp-port:5000\r\n"),
            MediaKind::Image => s.push_str("a=T38FaxVersion:0\r\na=T38MaxBitRate:14400\r\n"),
            _ => {
                for c in &sec.codecs {
                    if c.rtpmap {
                        if sec.kind == MediaKind::Audio && c.ch != 1 {
                            s.push_str(&format!("a=rtpmap:{} {}/{}/{}\r\n", c.pt, c.name, c.clock, c.ch));
                        } else {
                            s.push_str(&format!("a=rtpmap:{} {}/{}\r\n", c.pt, c.name, c.clock));
                        }
                    }
                    if let Some(f) = &c.fmtp {
                        s.push_str(&format!("a=fmtp:{} {}\r\n", c.pt, f));
                    }
                    if sec.kind == MediaKind::Video {
                        s.push_str(&format!("a=rtcp-fb:{} nack\r\na=rtcp-fb:{} nack pli\r\n", c.pt, c.pt));
                    }
                }
                for (r, p) in &sec.rtx {
                    s.push_str(&format!("a=rtpmap:{} rtx/90000\r\na=fmtp:{} apt={}\r\n", r, r, p));
                }
            }
        }
        for (k, v) in &sec.extra {
            match v {
                Some(v) => s.push_str(&format!("a={}:{}\r\n", k, v)),
                None => s.push_str(&format!("a={}\r\n", k)),
            }
        }
    }
    s
}

// ---- abstraction to the model's records ---------------------------------------------------------
fn uri_t(u: &str) -> String {
    if u == URI_RID {
        "URid".into()
    } else if u == URI_REPAIRED {
        "URepaired".into()
    } else if u == URI_ABS {
        "UAbs".into()
    } else if u == URI_MID {
        "UMid".into()
    } else {
        // stable small number per other URI
        let mut h: u32 = 0;
        for b in u.bytes() {
            h = h.wrapping_mul(31).wrapping_add(b as u32);
        }
        format!("(UOther {})", h % 100000)
    }
}
/// what `to_audio_capabilities` resolves a listed payload type to (name lower-cased)
fn resolved_audio(c: &Codec) -> (u8, String, u32, u8) {
    if c.rtpmap {
        (c.pt, c.name.to_ascii_lowercase(), c.clock, c.ch)
    } else {
        let (n, cl, ch) = match c.pt {
            0 => ("pcmu", 8000, 1),
            8 => ("pcma", 8000, 1),
            9 => ("g722", 8000, 1),
            18 => ("g729", 8000, 1),
            111 => ("opus", 48000, 2),
            101 => ("telephone-event", 8000, 1),
            _ => ("unknown", 8000, 1),
        };
        (c.pt, n.to_string(), cl, ch)
    }
}
fn codec_t(c: &(u8, String, u32, u8)) -> String {
    format!("mkCodec {} {} {} {}", c.0, st(&c.1), c.2, c.3)
}
fn osec_t(s: &OSec) -> String {
    let rtp = matches!(s.kind, MediaKind::Audio | MediaKind::Video);
    let pts: Vec<i128> = if rtp { s.codecs.iter().map(|c| c.pt as i128).chain(s.rtx.iter().map(|(r, _)| *r as i128)).collect() } else { vec![] };
    let codecs: Vec<String> = if s.kind == MediaKind::Audio {
        // rtx entries of an audio section would be listed formats too; the generators give audio no rtx
        s.codecs.iter().map(|c| format!("({})", codec_t(&resolved_audio(c)))).collect()
    } else {
        vec![]
    };
    let apt: Vec<String> = if rtp { s.rtx.iter().map(|(r, p)| format!("({}, {})", r, p)).collect() } else { vec![] };
    let ext: Vec<String> = s.ext.iter().map(|(id, u)| format!("({}, {})", id, uri_t(u))).collect();
    format!(
        "mkOsecP {} {} {} {} {} {} {} {} {} {} {}",
        kind_t(s.kind),
        st(&s.mid),
        dir_t(s.dir.unwrap_or(Direction::SendRecv)),
        zlist(pts),
        list_term(&codecs),
        list_term(&apt),
        list_term(&ext),
        bool_term(s.mux),
        ost(&s.setup),
        s.port,
        bool_term(s.extra.iter().any(|e| e.0 == "bundle-only"))
    )
}
fn offer_t(o: &Offer) -> String {
    format!(
        "mkOffer {} {} {}",
        list_term(&o.groups.iter().map(|g| list_term(&g.iter().map(|m| st(m)).collect::<Vec<_>>())).collect::<Vec<_>>()),
        ost(&o.sess_setup),
        list_term(&o.secs.iter().map(|s| format!("({})", osec_t(s))).collect::<Vec<_>>())
    )
}
fn mode_t(m: &TransportMode) -> &'static str {
    match m {
        TransportMode::WebRtc => "MWebRtc",
        TransportMode::Srtp => "MSrtp",
        TransportMode::Rtp => "MRtp",
    }
}
fn cfg_t(c: &Cfg) -> String {
    let audio: Vec<String> = c.audio.iter().map(|a| format!("({})", codec_t(&(a.payload_type, a.codec_name.to_ascii_lowercase(), a.clock_rate, a.channels)))).collect();
    let video: Vec<String> = c
        .video
        .iter()
        .map(|v| format!("(mkVcap {} {})", v.payload_type, match v.rtx_payload_type { Some(r) => format!("(Some {})", r), None => "None".into() }))
        .collect();
    format!("mkCfg {} {} {} {} {}", mode_t(&c.mode), bool_term(c.legacy), bool_term(c.mux_require), list_term(&audio), list_term(&video))
}
fn tdir_t(d: TransceiverDirection) -> &'static str {
    match d {
        TransceiverDirection::SendRecv => "DSendRecv",
        TransceiverDirection::SendOnly => "DSendOnly",
        TransceiverDirection::RecvOnly => "DRecvOnly",
        TransceiverDirection::Inactive => "DInactive",
    }
}

/// the real answer abstracted to the model's `answer`; the port is part of the abstraction only where the
/// model determines it (WebRTC mode)
fn answer_t(a: &SessionDescription, webrtc: bool) -> String {
    let group = a.session.attributes.iter().find_map(|x| {
        if x.key == "group" {
            x.value.as_ref().and_then(|v| v.strip_prefix("BUNDLE ").map(|r| r.split(' ').map(|m| st(m)).collect::<Vec<_>>()))
        } else {
            None
        }
    });
    let secs: Vec<String> = a
        .media_sections
        .iter()
        .map(|s| {
            let rtp = matches!(s.kind, MediaKind::Audio | MediaKind::Video);
            let pts: Vec<i128> = if rtp { s.formats.iter().filter_map(|f| f.parse::<u8>().ok()).map(|x| x as i128).collect() } else { vec![] };
            let mut apt = vec![];
            let mut ext = vec![];
            for at in &s.attributes {
                if let Some(v) = &at.value {
                    if at.key == "fmtp" {
                        if let Some((pt, rest)) = v.split_once(' ') {
                            for part in rest.split(';') {
                                if let Some(x) = part.trim().strip_prefix("apt=") {
                                    apt.push(format!("({}, {})", pt, x.trim()));
                                }
                            }
                        }
                    } else if at.key == "extmap" {
                        let mut it = v.split_whitespace();
                        if let (Some(id), Some(u)) = (it.next(), it.next()) {
                            ext.push(format!("({}, {})", id.parse::<i128>().unwrap_or(-1), uri_t(u)));
                        }
                    }
                }
            }
            let setup = s.attributes.iter().find(|x| x.key == "setup").and_then(|x| x.value.clone());
            format!(
                "(mkAsec {} {} {} {} {} {} {} {} {} {})",
                kind_t(s.kind),
                st(&s.mid),
                dir_t(s.direction),
                st(&s.protocol),
                zlist(pts),
                list_term(&apt),
                list_term(&ext),
                bool_term(s.attributes.iter().any(|x| x.key == "rtcp-mux")),
                ost(&setup),
                if webrtc { format!("(Some {})", s.port) } else { "None".into() }
            )
        })
        .collect();
    format!("mkAnswer {} {}", opt_term(group.map(|g| list_term(&g))), list_term(&secs))
}

// ---- the direct oracle: valid_answer from the property text / RFC 3264 / JSEP -----------------------
// Works on the two SDP *texts* (the offer as sent, the answer as printed by the stack), parsed by
// the webrtc-rs `sdp` crate -- neither rustrtc's parser nor the harness' abstraction above.
struct View {
    groups: Vec<Vec<String>>,
    sess: Vec<(String, Option<String>)>,
    secs: Vec<SecView>,
}
struct SecView {
    port: isize,
    kind: String,
    formats: Vec<String>,
    attrs: Vec<(String, Option<String>)>,
}
impl SecView {
    fn get(&self, k: &str) -> Option<&Option<String>> {
        self.attrs.iter().find(|a| a.0 == k).map(|a| &a.1)
    }
    fn mid(&self) -> String {
        self.get("mid").and_then(|v| v.clone()).unwrap_or_default()
    }
    fn dir(&self) -> &'static str {
        for (k, _) in &self.attrs {
            for d in ["sendrecv", "sendonly", "recvonly", "inactive"] {
                if k == d {
                    return d;
                }
            }
        }
        "sendrecv"
    }
    fn apt(&self) -> Vec<(String, String)> {
        let mut v = vec![];
        for (k, val) in &self.attrs {
            if k == "fmtp" {
                if let Some(val) = val {
                    if let Some((pt, rest)) = val.split_once(' ') {
                        for part in rest.split(';') {
                            if let Some(x) = part.trim().strip_prefix("apt=") {
                                v.push((pt.to_string(), x.trim().to_string()));
                            }
                        }
                    }
                }
            }
        }
        v
    }
    fn extmap(&self) -> Vec<(String, String)> {
        let mut v = vec![];
        for (k, val) in &self.attrs {
            if k == "extmap" {
                if let Some(val) = val {
                    let mut it = val.split_whitespace();
                    if let (Some(id), Some(u)) = (it.next(), it.next()) {
                        v.push((id.split('/').next().unwrap_or(id).to_string(), u.to_string()));
                    }
                }
            }
        }
        v
    }
}
fn view(text: &str) -> Result<View, String> {
    let mut cur = std::io::Cursor::new(text.as_bytes());
    let d = ::sdp::SessionDescription::unmarshal(&mut cur).map_err(|e| format!("reference SDP parser rejects the text: {e}"))?;
    let sess: Vec<(String, Option<String>)> = d.attributes.iter().map(|a| (a.key.clone(), a.value.clone())).collect();
    let groups = sess
        .iter()
        .filter(|a| a.0 == "group")
        .filter_map(|a| a.1.as_ref())
        .filter(|v| v.starts_with("BUNDLE"))
        .map(|v| v.split_whitespace().skip(1).map(|m| m.to_string()).collect())
        .collect();
    let secs = d
        .media_descriptions
        .iter()
        .map(|m| SecView {
            port: m.media_name.port.value,
            kind: m.media_name.media.clone(),
            formats: m.media_name.formats.clone(),
            attrs: m.attributes.iter().map(|a| (a.key.clone(), a.value.clone())).collect(),
        })
        .collect();
    Ok(View { groups, sess, secs })
}

#[derive(Default)]
struct Verdict {
    fails: Vec<String>,  // violations that match no listed class
    known: Vec<String>,  // listed classes hit
}
struct OracleCtx<'a> {
    cfg: &'a Cfg,
    reinvite: bool, // a local description existed when the answer was built
}
fn local_pts(cfg: &Cfg, kind: &str) -> Vec<String> {
    match kind {
        "audio" => {
            if cfg.audio.is_empty() { vec!["111".into()] } else { cfg.audio.iter().map(|a| a.payload_type.to_string()).collect() }
        }
        "video" => {
            if cfg.video.is_empty() { vec!["96".into()] } else { cfg.video.iter().map(|a| a.payload_type.to_string()).collect() }
        }
        _ => vec![],
    }
}
fn valid_answer_oracle(offer_text: &str, answer_text: &str, ctx: &OracleCtx) -> Verdict {
    let mut v = Verdict::default();
    let (o, a) = match (view(offer_text), view(answer_text)) {
        (Ok(o), Ok(a)) => (o, a),
        (Err(e), _) => {
            v.fails.push(format!("offer: {}", e));
            return v;
        }
        (_, Err(e)) => {
            v.fails.push(format!("answer: {}", e));
            return v;
        }
    };
    // ---- number, order, kinds, mids
    if o.secs.len() != a.secs.len() {
        v.fails.push(format!("answer has {} media sections, offer has {}", a.secs.len(), o.secs.len()));
        return v;
    }
    let offered_bundle = !o.groups.is_empty();
    let midless_multi = o.secs.len() > 1 && o.secs.iter().all(|s| s.mid().is_empty());
    let all_answer_mids_empty = a.secs.iter().all(|s| s.mid().is_empty());
    for (i, (os, as_)) in o.secs.iter().zip(a.secs.iter()).enumerate() {
        if os.kind != as_.kind {
            v.fails.push(format!("section {}: kind {} answered with {}", i, os.kind, as_.kind));
        }
        if os.mid() != as_.mid() {
            // listed class: the answer drops every a=mid when no BUNDLE group was offered and there are two
            // or more sections or the LegacySip compatibility mode is on (with an offered group the mids are
            // kept in every mode since ca1331b)
            if all_answer_mids_empty && !offered_bundle && (ctx.cfg.legacy || o.secs.len() > 1) {
                v.known.push("mid_dropped_without_bundle".into());
            } else {
                v.fails.push(format!("section {}: mid {:?} answered with mid {:?}", i, os.mid(), as_.mid()));
            }
        }
        // ---- a rejected / disabled m-line (port 0, not bundle-only) must be answered with port 0 (RFC 3264 section 6)
        if os.port == 0 && os.get("bundle-only").is_none() && as_.port != 0 {
            // listed class: the answer's port never depends on the offered one
            v.known.push("rejected_section_answered_live".into());
        }
        let rtp = os.kind == "audio" || os.kind == "video";
        // ---- payload types
        if rtp {
            let bad: Vec<&String> = as_.formats.iter().filter(|f| !os.formats.contains(f)).collect();
            if !bad.is_empty() {
                let local = local_pts(ctx.cfg, &os.kind);
                let elsewhere = |f: &String| midless_multi && o.secs.iter().enumerate().any(|(j, s)| j != i && s.formats.contains(f));
                if bad.iter().all(|f| local.contains(f) || elsewhere(f)) {
                    // listed class: the answer lists the locally configured payload types whatever was offered
                    if bad.iter().any(|f| local.contains(f)) {
                        v.known.push("first_answer_local_codecs".into());
                    }
                    // listed class: mid-less sections are looked up as "the first mid-less section"
                    if bad.iter().any(|f| !local.contains(f)) {
                        v.known.push("midless_lookup_first_section".into());
                    }
                } else {
                    v.fails.push(format!("section {}: answer uses payload types {:?} that the offer did not list {:?}", i, bad, os.formats));
                }
            }
            // ---- RTX associations
            let oapt = os.apt();
            for p in as_.apt() {
                if !oapt.contains(&p) {
                    if midless_multi && o.secs.iter().enumerate().any(|(j, s)| j != i && s.apt().contains(&p)) {
                        v.known.push("midless_lookup_first_section".into());
                    } else {
                        v.fails.push(format!("section {}: RTX association {}->apt {} was not offered", i, p.0, p.1));
                    }
                }
            }
        }
        // ---- header extensions
        let oext = os.extmap();
        let aext = as_.extmap();
        for (k, e) in aext.iter().enumerate() {
            if !oext.contains(e) {
                // listed class: with mid-less offers the ids are looked up in the FIRST mid-less section
                let first_same_mid = o.secs.iter().find(|s| s.mid() == os.mid());
                if os.mid().is_empty() && o.secs.len() > 1 && first_same_mid.map(|s| s.extmap().contains(e)).unwrap_or(false) {
                    v.known.push("midless_lookup_first_section".into());
                } else {
                    v.fails.push(format!("section {}: extmap {} {} was not offered for this section ({:?})", i, e.0, e.1, oext));
                }
            }
            if aext[..k].iter().any(|x| x.0 == e.0) {
                let first_same_mid = o.secs.iter().find(|s| s.mid() == os.mid());
                if os.mid().is_empty() && o.secs.len() > 1 && first_same_mid.map(|s| !std::ptr::eq(s, os)).unwrap_or(false) {
                    v.known.push("midless_lookup_first_section".into());
                } else {
                    v.fails.push(format!("section {}: duplicate extension id {} in the answer", i, e.0));
                }
            }
        }
        // ---- rtcp-mux
        if as_.get("rtcp-mux").is_some() && os.get("rtcp-mux").is_none() {
            v.fails.push(format!("section {}: answer has rtcp-mux, offer has not", i));
        }
        // ---- direction
        let ok = match (os.dir(), as_.dir()) {
            ("sendrecv", _) => true,
            ("sendonly", "recvonly") | ("sendonly", "inactive") => true,
            ("recvonly", "sendonly") | ("recvonly", "inactive") => true,
            ("inactive", "inactive") => true,
            _ => false,
        };
        if !ok {
            // listed class: a mid-less re-offer is matched to transceivers differently by
            // set_remote_description and create_answer when spare same-kind transceivers exist
            if ctx.reinvite && o.secs.iter().all(|s| s.mid().is_empty()) {
                v.known.push("midless_reoffer_direction".into());
            } else {
                v.fails.push(format!("section {}: offered {} answered {}", i, os.dir(), as_.dir()));
            }
        }
        // ---- DTLS setup
        let a_setup = as_.get("setup").cloned().flatten().or_else(|| a.sess.iter().find(|x| x.0 == "setup").and_then(|x| x.1.clone()));
        if let Some(s) = a_setup {
            let o_media = os.get("setup").cloned().flatten();
            let o_eff = o_media.clone().or_else(|| o.sess.iter().find(|x| x.0 == "setup").and_then(|x| x.1.clone()));
            let role_ok = s == "active" || s == "passive";
            let compat = match o_eff.as_deref() {
                Some("active") => s == "passive",
                Some("passive") => s == "active",
                Some("actpass") => role_ok,
                Some(_) => false,
                None => true,
            };
            if !(role_ok && compat) {
                // (finding F29, session-level a=setup ignored, is fixed by aa4c5b4: no listed class here)
                let _ = &o_media;
                v.fails.push(format!("section {}: offered setup {:?} answered {:?}", i, o_eff, s));
            }
        }
    }
    // ---- BUNDLE membership
    let offered: Vec<&String> = o.groups.iter().flatten().collect();
    for g in &a.groups {
        for m in g {
            if !offered.contains(&m) {
                // listed class: the answer groups every section although the offer grouped only some
                if offered_bundle && o.secs.iter().any(|s| s.mid() == *m) {
                    v.known.push("bundle_superset".into());
                } else {
                    v.fails.push(format!("answer BUNDLE group contains mid {:?} which the offer did not group ({:?})", m, o.groups));
                }
            }
        }
    }
    let _ = ctx.reinvite;
    v.known.sort();
    v.known.dedup();
    v
}

// ---- running a scenario on the real stack ---------------------------------------------------------
enum RoundOut {
    Answer(SessionDescription),
    SrdErr(String),
    CaErr(String),
    Panic(String),
}

fn build_config(c: &Cfg) -> RtcConfiguration {
    let mut cfg = RtcConfiguration::default();
    cfg.transport_mode = c.mode.clone();
    cfg.sdp_compatibility = if c.legacy { SdpCompatibilityMode::LegacySip } else { SdpCompatibilityMode::Standard };
    cfg.rtcp_mux_policy = if c.mux_require { RtcpMuxPolicy::Require } else { RtcpMuxPolicy::Negotiate };
    cfg.media_capabilities = if c.caps_none && c.audio.is_empty() && c.video.is_empty() {
        None
    } else {
        Some(MediaCapabilities { audio: c.audio.clone(), video: c.video.clone(), application: None, image: vec![] })
    };
    cfg.bind_ip = Some("127.0.0.1".into());
    cfg
}

struct RoundRec {
    offer_text: String,
    changed: bool,
    out: RoundOut,
    had_local: bool,
}

async fn run_scenario(sc: &Scenario) -> Vec<RoundRec> {
    let pc = PeerConnection::new(build_config(&sc.cfg));
    for (k, d) in &sc.pre {
        pc.add_transceiver(*k, *d);
    }
    if sc.dc {
        let _ = pc.create_data_channel("c08", None);
    }
    let mut recs = vec![];
    let mut prev: Option<SessionDescription> = None;
    for o in &sc.rounds {
        let text = render_offer(o);
        let parsed = match SessionDescription::parse(SdpType::Offer, &text) {
            Ok(d) => d,
            Err(e) => {
                recs.push(RoundRec { offer_text: text, changed: true, out: RoundOut::SrdErr(format!("parse: {:?}", e)), had_local: false });
                break;
            }
        };
        let changed = match &prev {
            None => true,
            Some(p) => p.session.connection != parsed.session.connection || p.session.attributes != parsed.session.attributes || p.media_sections != parsed.media_sections,
        };
        let had_local = pc.local_description().is_some();
        let pc2 = pc.clone();
        let p2 = parsed.clone();
        let h = tokio::spawn(async move {
            match pc2.set_remote_description(p2).await {
                Err(e) => RoundOut::SrdErr(format!("{:?}", e)),
                Ok(()) => match pc2.create_answer().await {
                    Err(e) => RoundOut::CaErr(format!("{:?}", e)),
                    Ok(a) => RoundOut::Answer(a),
                },
            }
        });
        let out = match h.await {
            Ok(o) => o,
            Err(e) => RoundOut::Panic(if e.is_panic() {
                let p = e.into_panic();
                if let Some(s) = p.downcast_ref::<&str>() { s.to_string() } else if let Some(s) = p.downcast_ref::<String>() { s.clone() } else { "panic".into() }
            } else {
                "cancelled".into()
            }),
        };
        let stop = !matches!(out, RoundOut::Answer(_));
        if let RoundOut::Answer(a) = &out {
            if let Err(e) = pc.set_local_description(a.clone()) {
                recs.push(RoundRec { offer_text: text, changed, out: RoundOut::CaErr(format!("set_local_description(answer): {:?}", e)), had_local });
                break;
            }
        }
        prev = Some(parsed);
        recs.push(RoundRec { offer_text: text, changed, out, had_local });
        if stop {
            break;
        }
    }
    pc.close();
    recs
}

fn scenario_case(sc: &Scenario, recs: &[RoundRec], kind: &str, stats: &mut Stats) -> (Vec<Case>, Vec<SessionDescription>) {
    let mut rounds_t = vec![];
    let mut fails: Vec<String> = vec![];
    let mut known: Vec<String> = vec![];
    let mut answers = vec![];
    let mut jr = vec![];
    let mut compare = true;
    for (i, rec) in recs.iter().enumerate() {
        let o = &sc.rounds[i];
        let out_t = match &rec.out {
            RoundOut::Answer(a) => {
                answers.push(a.clone());
                if sc.wf {
                    let vd = valid_answer_oracle(&rec.offer_text, &a.to_sdp_string(), &OracleCtx { cfg: &sc.cfg, reinvite: rec.had_local });
                    for f in vd.fails {
                        fails.push(format!("round {}: {}", i, f));
                    }
                    known.extend(vd.known);
                }
                *stats.c.entry(format!("answer:{}:ok", kind)).or_default() += 1;
                format!("ROk ({})", answer_t(a, sc.cfg.mode == TransportMode::WebRtc))
            }
            RoundOut::CaErr(e) => {
                *stats.c.entry(format!("answer:{}:create_answer-err", kind)).or_default() += 1;
                jr.push(json!({"round": i, "create_answer_error": e}));
                "RErr".into()
            }
            RoundOut::SrdErr(e) => {
                *stats.c.entry(format!("answer:{}:set_remote-err", kind)).or_default() += 1;
                jr.push(json!({"round": i, "set_remote_description_error": e}));
                compare = false;
                "RSkip".into()
            }
            RoundOut::Panic(p) => {
                fails.push(format!("round {}: set_remote_description/create_answer panicked on a structurally valid offer: {}", i, p));
                compare = false;
                "RSkip".into()
            }
        };
        rounds_t.push(format!("({}, {}, {})", offer_t(o), bool_term(rec.changed), out_t));
        jr.push(json!({"round": i, "offer": rec.offer_text, "changed": rec.changed,
            "answer": match &rec.out { RoundOut::Answer(a) => Some(a.to_sdp_string()), _ => None }}));
    }
    // input distribution: sections per offer and mid scheme
    for o in &sc.rounds {
        let n = o.secs.len();
        *stats.c.entry(format!("offer:sections:{}", if n <= 6 { n.to_string() } else { "7-12".into() })).or_default() += 1;
        let mids: Vec<&String> = o.secs.iter().map(|x| &x.mid).collect();
        let mut d = mids.clone();
        d.sort();
        d.dedup();
        let scheme = if mids.iter().all(|m| m.is_empty()) { "absent" }
            else if d.len() < mids.len() { if mids.iter().any(|m| m.is_empty()) { "partly-absent/duplicate" } else { "duplicate" } }
            else if mids.iter().any(|m| m.is_empty()) { "partly-absent" }
            else if mids.iter().any(|m| m.len() > 40) { "long" }
            else if mids.iter().all(|m| m.chars().all(|c| c.is_ascii_digit())) { "numeric" }
            else { "non-numeric" };
        *stats.c.entry(format!("offer:mids:{}", scheme)).or_default() += 1;
        let nrej = o.secs.iter().filter(|x| x.port == 0).count();
        if nrej > 0 {
            let pos = if o.secs[0].port == 0 { "first" } else if o.secs[n - 1].port == 0 { "last" } else { "middle" };
            *stats.c.entry(format!("offer:rejected-sections:{}", pos)).or_default() += 1;
            if o.secs.iter().any(|x| x.port == 0 && x.extra.iter().any(|e| e.0 == "bundle-only")) {
                *stats.c.entry("offer:rejected-sections:bundle-only".into()).or_default() += 1;
            }
        }
    }
    known.sort();
    known.dedup();
    let pre_t: Vec<String> = sc.pre.iter().map(|(k, d)| format!("({}, {})", kind_t(*k), tdir_t(*d))).collect();
    let term = if compare || !rounds_t.is_empty() {
        format!("CAnswer ({}) {} {} {}", cfg_t(&sc.cfg), list_term(&pre_t), bool_term(sc.dc), list_term(&rounds_t))
    } else {
        "-".into()
    };
    let desc = json!({"what": "answer", "config": format!("{:?}", (&sc.cfg.mode, sc.cfg.legacy, sc.cfg.mux_require, sc.cfg.caps_none,
                        sc.cfg.audio.iter().map(|a| (a.payload_type, a.codec_name.clone())).collect::<Vec<_>>(),
                        sc.cfg.video.iter().map(|a| (a.payload_type, a.codec_name.clone(), a.rtx_payload_type)).collect::<Vec<_>>())),
                     "pre_added": format!("{:?}", sc.pre), "data_channel": sc.dc, "rounds": jr});
    let key = format!("A|{:?}|{:?}|{}|{:?}", sc.cfg, sc.pre, sc.dc, sc.rounds);
    for k in &known {
        *stats.c.entry(format!("known:{}", k)).or_default() += 1;
    }
    let mut cases = vec![Case {
        term,
        desc: desc.clone(),
        oracle_fail: if fails.is_empty() { None } else { Some(fails.join("; ")) },
        known: known.first().cloned(),
        nontrivial: !answers.is_empty(),
        key: key.clone(),
        kind: kind.into(),
    }];
    // one listed class per case record: further classes hit by the same scenario are reported as
    // oracle-only records (term "-")
    for k in known.iter().skip(1) {
        cases.push(Case { term: "-".into(), desc: desc.clone(), oracle_fail: None, known: Some(k.clone()), nontrivial: false, key: format!("{}|{}", key, k), kind: format!("{}-extra-class", kind) });
    }
    (cases, answers)
}

// ---- part 2 generators ---------------------------------------------------------------------------
fn acodec(pt: u8, name: &str, clock: u32, ch: u8) -> Codec {
    Codec { pt, name: name.into(), clock, ch, rtpmap: true, fmtp: None }
}
fn gen_audio_codecs(r: &mut Rng) -> Vec<Codec> {
    let pool: Vec<Codec> = vec![
        acodec(0, "PCMU", 8000, 1),
        acodec(8, "PCMA", 8000, 1),
        acodec(9, "G722", 8000, 1),
        acodec(18, "G729", 8000, 1),
        acodec(111, "opus", 48000, 2),
        acodec(101, "telephone-event", 8000, 1),
        acodec(13, "CN", 8000, 1),
        acodec(109, "OPUS", 48000, 2),
        acodec(96, "opus", 48000, 2),
        acodec(97, "iLBC", 8000, 1),
        acodec(98, "telephone-event", 48000, 1),
        acodec(110, "pcmu", 8000, 1),
        acodec(112, "opus", 48000, 1),
        acodec(3, "GSM", 8000, 1),
    ];
    let n = r.range(1, 5) as usize;
    let mut out: Vec<Codec> = vec![];
    for _ in 0..n {
        let mut c = r.pick(&pool).clone();
        if out.iter().any(|x| x.pt == c.pt) {
            continue;
        }
        if c.pt < 96 && r.chance(1, 3) {
            c.rtpmap = false; // static payload type without rtpmap
        }
        if c.pt == 111 && r.chance(1, 8) {
            c.rtpmap = false;
        }
        if c.name.eq_ignore_ascii_case("opus") && r.chance(1, 2) {
            c.fmtp = Some("minptime=10;useinbandfec=1".into());
        }
        if c.name == "telephone-event" && r.chance(1, 2) {
            c.fmtp = Some("0-15".into());
        }
        out.push(c);
    }
    out
}
fn gen_video_codecs(r: &mut Rng) -> (Vec<Codec>, Vec<(u8, u8)>) {
    let names = ["VP8", "VP9", "H264", "AV1", "vp8", "H265"];
    let n = r.range(1, 4) as usize;
    let mut used: Vec<u8> = vec![];
    let mut fresh = |r: &mut Rng, used: &mut Vec<u8>| -> u8 {
        loop {
            let pt = if r.chance(2, 3) { 96 + r.below(12) as u8 } else { 96 + r.below(32) as u8 };
            if !used.contains(&pt) {
                used.push(pt);
                return pt;
            }
        }
    };
    let mut codecs = vec![];
    let mut rtx = vec![];
    for _ in 0..n {
        let pt = fresh(r, &mut used);
        let name = *r.pick(&names);
        let mut c = Codec { pt, name: name.into(), clock: 90000, ch: 1, rtpmap: true, fmtp: None };
        if name == "H264" {
            c.fmtp = Some("packetization-mode=1;profile-level-id=42e01f".into());
        }
        codecs.push(c);
        if r.chance(1, 2) {
            let rp = fresh(r, &mut used);
            rtx.push((rp, pt));
        }
    }
    (codecs, rtx)
}
fn gen_ext(r: &mut Rng, kind: MediaKind, distinct: bool) -> Vec<(u32, String)> {
    let n = r.below(6) as usize;
    let mut out: Vec<(u32, String)> = vec![];
    for _ in 0..n {
        let uri = match r.below(8) {
            0 => URI_ABS.to_string(),
            1 => URI_MID.to_string(),
            2 if kind == MediaKind::Video => URI_RID.to_string(),
            3 if kind == MediaKind::Video => URI_REPAIRED.to_string(),
            4 => URI_ABS.to_string(),
            _ => r.pick(&OTHER_URIS).to_string(),
        };
        let id = if r.chance(1, 8) { 15 + r.below(6) as u32 } else { 1 + r.below(14) as u32 };
        if distinct && (out.iter().any(|e| e.0 == id) || out.iter().any(|e| e.1 == uri)) {
            continue;
        }
        out.push((id, uri));
    }
    out
}
fn gen_dir(r: &mut Rng) -> Option<Direction> {
    match r.below(6) {
        0 => None,
        1 | 2 => Some(Direction::SendRecv),
        3 => Some(Direction::SendOnly),
        4 => Some(Direction::RecvOnly),
        _ => Some(Direction::Inactive),
    }
}
fn gen_sec(r: &mut Rng, kind: MediaKind, mid: String, wf: bool, webrtcish: bool) -> OSec {
    let (codecs, rtx) = match kind {
        MediaKind::Audio => (gen_audio_codecs(r), vec![]),
        MediaKind::Video => gen_video_codecs(r),
        _ => (vec![], vec![]),
    };
    let rtp = matches!(kind, MediaKind::Audio | MediaKind::Video);
    let mut extra = vec![];
    if rtp && r.chance(1, 3) {
        let ssrc = 1000 + r.below(100000);
        if kind == MediaKind::Video && r.chance(1, 2) {
            extra.push(("ssrc-group".to_string(), Some(format!("FID {} {}", ssrc, ssrc + 1))));
        }
        extra.push(("ssrc".to_string(), Some(format!("{} cname:c08", ssrc))));
    }
    if kind == MediaKind::Video && r.chance(1, 6) {
        extra.push(("rid".to_string(), Some("h send".into())));
        extra.push(("rid".to_string(), Some("l send".into())));
        extra.push(("simulcast".to_string(), Some("send h;l".into())));
    }
    OSec {
        kind,
        mid,
        dir: gen_dir(r),
        port: if webrtcish { 9 } else { 30000 + 2 * r.below(1000) as u16 },
        codecs,
        rtx,
        ext: if rtp { gen_ext(r, kind, wf) } else { vec![] },
        mux: rtp && r.chance(3, 5),
        setup: None,
        fp: false,
        ice: webrtcish && r.chance(2, 3),
        extra,
    }
}
fn disable_sec(r: &mut Rng, s: &mut OSec) {
    s.port = 0;
    if r.chance(1, 3) && !s.extra.iter().any(|e| e.0 == "bundle-only") {
        s.extra.push(("bundle-only".to_string(), None));
    }
}
fn pick_kind(r: &mut Rng) -> MediaKind {
    match r.below(10) {
        0..=3 => MediaKind::Audio,
        4..=7 => MediaKind::Video,
        8 => MediaKind::Application,
        _ => MediaKind::Image,
    }
}
/// mid scheme: 0 numeric, 1 named, 2 absent, 3 (odd) duplicates, 4 (odd) partly absent, 5 numeric near u16::MAX,
/// 6 long (64+ characters), 7 RFC 4566 token punctuation, 8 differing only in case, 9 numerically equal but
/// textually distinct ("1", "01", "+1", "001" ...)
fn mid_for(r: &mut Rng, scheme: u64, i: usize, kind: MediaKind) -> String {
    match scheme {
        0 => i.to_string(),
        1 => format!("{}{}", kind_s(kind), i),
        2 => String::new(),
        3 => r.pick(&["0", "1", "a", "audio", "65535"]).to_string(),
        4 => if r.chance(1, 2) { String::new() } else { i.to_string() },
        5 => (65530 + i).to_string(),
        6 => format!("{}-{:02}-0123456789abcdefghijklmnopqrstuvwxyzABCDEFGHIJKLMNOPQRSTUVWXYZ", kind_s(kind), i),
        7 => format!("{}{}", ["m!#", "$%&", "'*+", "-.^", "_`{", "|}~", "a.b", "x-y", "p_q", "z+z", "k~k", "w^w"][i % 12], i),
        8 => ["a", "A", "b", "B", "audio", "AUDIO", "Audio", "c", "C", "video", "VIDEO", "Video"][i % 12].to_string(),
        _ => ["1", "01", "+1", "001", "2", "02", "+2", "0", "00", "+0", "3", "03"][i % 12].to_string(),
    }
}
fn gen_offer(r: &mut Rng, mode: &TransportMode, wf: bool) -> (Offer, u64) {
    let webrtcish = *mode == TransportMode::WebRtc || r.chance(1, 4);
    // 1..6 sections mostly; one offer in ten has 7..12 (beyond the property's stated range, on request)
    let n = if r.chance(1, 3) { 1 } else if r.chance(1, 7) { r.range(7, 12) as usize } else { r.range(1, 6) as usize };
    let scheme = if wf { *r.pick(&[0u64, 0, 0, 1, 2, 2, 5, 6, 7, 8, 9]) } else { *r.pick(&[3u64, 3, 4, 4, 0, 2, 6, 8, 9]) };
    let mut secs = vec![];
    for i in 0..n {
        let kind = pick_kind(r);
        let mid = mid_for(r, scheme, i, kind);
        secs.push(gen_sec(r, kind, mid, wf, webrtcish));
    }
    // rejected / disabled m-lines (port 0, RFC 3264 5.1 / 8.2), with and without a=bundle-only: any position
    if r.chance(1, 4) {
        let k = if r.chance(3, 4) { 1 } else { 2 };
        for _ in 0..k {
            let rnd = r.below(secs.len() as u64) as usize;
            let i = *r.pick(&[0usize, secs.len() / 2, secs.len() - 1, rnd]);
            disable_sec(r, &mut secs[i]);
        }
    }
    // BUNDLE
    let mids: Vec<String> = secs.iter().map(|s| s.mid.clone()).filter(|m| !m.is_empty()).collect();
    let groups: Vec<Vec<String>> = if mids.is_empty() {
        if !wf && r.chance(1, 6) { vec![vec![]] } else { vec![] }
    } else {
        match r.below(10) {
            0..=4 => vec![mids.clone()],
            5 | 6 => vec![],
            7 => vec![mids.iter().filter(|_| r.chance(1, 2)).cloned().collect::<Vec<_>>()].into_iter().filter(|g: &Vec<String>| !g.is_empty()).collect(),
            8 if mids.len() >= 2 => vec![mids[..1].to_vec(), mids[1..].to_vec()],
            _ => vec![mids.clone()],
        }
    };
    // DTLS attributes
    let mut o = Offer { groups, sess_setup: None, sess_fp: false, sess_ice: false, profile: String::new(), secs, sid: 1000 + r.below(1000) };
    let dtls = *mode == TransportMode::WebRtc || (webrtcish && r.chance(1, 2));
    if dtls {
        let v = r.pick(&["actpass", "actpass", "actpass", "active", "passive"]).to_string();
        match r.below(10) {
            0 => {
                // no setup at all
                o.sess_fp = true;
            }
            1 | 2 => {
                // session level fingerprint + setup
                o.sess_fp = true;
                o.sess_setup = Some(v);
            }
            _ => {
                let sess_fp = r.chance(1, 4);
                o.sess_fp = sess_fp;
                for s in &mut o.secs {
                    s.fp = !sess_fp;
                    s.setup = Some(v.clone());
                }
                if !wf && r.chance(1, 2) {
                    for s in &mut o.secs {
                        if r.chance(1, 2) {
                            s.setup = Some(r.pick(&["active", "passive", "actpass", "holdconn"]).to_string());
                        }
                    }
                }
            }
        }
        o.sess_ice = r.chance(1, 6);
    }
    o.profile = if dtls { r.pick(&["UDP/TLS/RTP/SAVPF", "UDP/TLS/RTP/SAVPF", "RTP/SAVPF"]).to_string() } else { r.pick(&["RTP/AVP", "RTP/SAVP", "RTP/AVPF"]).to_string() };
    (o, scheme)
}
fn mutate_offer(r: &mut Rng, prev: &Offer, scheme: u64, mode: &TransportMode, wf: bool) -> Offer {
    let mut o = prev.clone();
    if r.chance(1, 7) {
        return o; // identical re-offer
    }
    let webrtcish = prev.secs.iter().any(|s| s.port == 9);
    for s in &mut o.secs {
        if r.chance(1, 2) {
            s.dir = gen_dir(r);
        }
        let rtp = matches!(s.kind, MediaKind::Audio | MediaKind::Video);
        if rtp && r.chance(1, 3) {
            let (c, x) = match s.kind {
                MediaKind::Audio => (gen_audio_codecs(r), vec![]),
                _ => gen_video_codecs(r),
            };
            s.codecs = c;
            s.rtx = x;
        } else if s.kind == MediaKind::Audio && s.codecs.len() > 1 && r.chance(1, 3) {
            s.codecs.remove(0); // subset re-offer
        }
        if rtp && r.chance(1, 5) {
            s.ext = gen_ext(r, s.kind, wf);
        }
        if rtp && r.chance(1, 6) {
            s.mux = !s.mux;
        }
        if !wf && r.chance(1, 8) {
            s.setup = Some(r.pick(&["active", "passive", "actpass"]).to_string());
        }
    }
    if o.secs.len() < 12 && r.chance(1, 4) {
        let kind = pick_kind(r);
        let i = o.secs.len();
        let mid = mid_for(r, scheme, i, kind);
        let mut s = gen_sec(r, kind, mid.clone(), wf, webrtcish);
        if let Some(first) = prev.secs.first() {
            s.setup = first.setup.clone();
            s.fp = first.fp;
        }
        if !mid.is_empty() && !o.groups.is_empty() && r.chance(3, 4) {
            o.groups[0].push(mid);
        }
        if r.chance(1, 4) {
            disable_sec(r, &mut s); // a re-offer that adds an m-line which is (already) switched off
        }
        o.secs.push(s);
    }
    if r.chance(1, 6) {
        // a re-offer that switches an existing m-line off, or back on
        let i = r.below(o.secs.len() as u64) as usize;
        if o.secs[i].port == 0 {
            o.secs[i].port = if webrtcish { 9 } else { 30000 + 2 * r.below(1000) as u16 };
            o.secs[i].extra.retain(|e| e.0 != "bundle-only");
        } else {
            disable_sec(r, &mut o.secs[i]);
        }
    }
    let _ = mode;
    o
}
fn gen_cfg(r: &mut Rng) -> Cfg {
    let mode = match r.below(10) {
        0..=5 => TransportMode::WebRtc,
        6 | 7 => TransportMode::Srtp,
        _ => TransportMode::Rtp,
    };
    let audio = match r.below(7) {
        0 | 1 | 2 => vec![],
        3 => vec![AudioCapability::pcmu(), AudioCapability::pcma()],
        4 => vec![AudioCapability::opus(), AudioCapability::pcmu(), AudioCapability::telephone_event()],
        5 => vec![AudioCapability::pcma()],
        _ => {
            let mut c = AudioCapability::opus();
            c.payload_type = 109;
            vec![c, AudioCapability::g722()]
        }
    };
    let video = match r.below(6) {
        0 | 1 | 2 => vec![],
        3 => vec![VideoCapability::vp8_with_rtx(97)],
        4 => vec![VideoCapability::h264()],
        _ => {
            let mut h = VideoCapability::h264();
            h.payload_type = 102;
            h.rtx_payload_type = Some(103);
            vec![VideoCapability::default(), h]
        }
    };
    Cfg { mode, legacy: r.chance(1, 5), mux_require: r.chance(3, 4), caps_none: r.chance(1, 2), audio, video }
}
fn gen_scenario(r: &mut Rng, wf: bool) -> Scenario {
    let cfg = gen_cfg(r);
    let (o, scheme) = gen_offer(r, &cfg.mode, wf);
    let mut pre = vec![];
    if r.chance(1, 2) {
        let n = r.range(1, 3);
        for _ in 0..n {
            let k = if r.chance(2, 3) { o.secs[r.below(o.secs.len() as u64) as usize].kind } else { pick_kind(r) };
            let d = *r.pick(&[TransceiverDirection::SendRecv, TransceiverDirection::SendRecv, TransceiverDirection::RecvOnly, TransceiverDirection::SendOnly, TransceiverDirection::Inactive]);
            pre.push((k, d));
        }
    }
    let dc = r.chance(1, 6);
    let nr = *r.pick(&[1usize, 1, 1, 2, 2, 3]);
    let mut rounds = vec![o];
    for _ in 1..nr {
        let next = mutate_offer(r, rounds.last().unwrap(), scheme, &cfg.mode, wf);
        rounds.push(next);
    }
    Scenario { cfg, pre, dc, rounds, wf }
}

fn default_cfg() -> Cfg {
    Cfg { mode: TransportMode::WebRtc, legacy: false, mux_require: true, caps_none: true, audio: vec![], video: vec![] }
}
fn simple_sec(kind: MediaKind, mid: &str, codecs: Vec<Codec>) -> OSec {
    OSec { kind, mid: mid.into(), dir: Some(Direction::SendRecv), port: 9, codecs, rtx: vec![], ext: vec![], mux: true, setup: Some("actpass".into()), fp: true, ice: true, extra: vec![] }
}
fn simple_offer(groups: Vec<Vec<String>>, secs: Vec<OSec>) -> Offer {
    Offer { groups, sess_setup: None, sess_fp: false, sess_ice: false, profile: "UDP/TLS/RTP/SAVPF".into(), secs, sid: 1 }
}
fn corpus_scenarios() -> Vec<Scenario> {
    let vp8 = || Codec { pt: 96, name: "VP8".into(), clock: 90000, ch: 1, rtpmap: true, fmtp: None };
    let opus = || acodec(111, "opus", 48000, 2);
    let mut v = vec![];
    // F15: PCMU-only offer, fresh PeerConnection, default configuration
    v.push(Scenario { cfg: default_cfg(), pre: vec![], dc: false, wf: true,
        rounds: vec![simple_offer(vec![vec!["0".into()]], vec![simple_sec(MediaKind::Audio, "0", vec![acodec(0, "PCMU", 8000, 1)])])] });
    // local capabilities inside the offer: every part of valid_answer holds
    v.push(Scenario { cfg: default_cfg(), pre: vec![(MediaKind::Audio, TransceiverDirection::SendRecv)], dc: false, wf: true,
        rounds: vec![simple_offer(vec![vec!["0".into(), "1".into()]], vec![
            simple_sec(MediaKind::Audio, "0", vec![opus(), acodec(0, "PCMU", 8000, 1)]),
            { let mut s = simple_sec(MediaKind::Video, "1", vec![vp8()]); s.rtx = vec![(97, 96)];
              s.ext = vec![(3, URI_ABS.into()), (4, URI_MID.into()), (10, URI_RID.into()), (11, URI_REPAIRED.into())]; s }])] });
    // two sections with mids but no BUNDLE group: the answer drops the mids
    v.push(Scenario { cfg: default_cfg(), pre: vec![], dc: false, wf: true,
        rounds: vec![simple_offer(vec![], vec![simple_sec(MediaKind::Audio, "0", vec![opus()]), simple_sec(MediaKind::Video, "1", vec![vp8()])])] });
    // BUNDLE group over a strict subset of the sections
    v.push(Scenario { cfg: default_cfg(), pre: vec![], dc: false, wf: true,
        rounds: vec![simple_offer(vec![vec!["0".into()]], vec![simple_sec(MediaKind::Audio, "0", vec![opus()]), simple_sec(MediaKind::Video, "1", vec![vp8()])])] });
    // mid-less audio + video with different ids for abs-send-time
    v.push(Scenario { cfg: default_cfg(), pre: vec![], dc: false, wf: true,
        rounds: vec![simple_offer(vec![], vec![
            { let mut s = simple_sec(MediaKind::Audio, "", vec![opus()]); s.ext = vec![(3, URI_ABS.into())]; s },
            { let mut s = simple_sec(MediaKind::Video, "", vec![vp8()]); s.ext = vec![(5, URI_ABS.into()), (3, OTHER_URIS[0].into())]; s }])] });
    // session-level a=setup:active, no media-level setup (F29, fixed: must be answered passive)
    v.push(Scenario { cfg: default_cfg(), pre: vec![], dc: false, wf: true,
        rounds: vec![{ let mut o = simple_offer(vec![vec!["0".into()]], vec![{ let mut s = simple_sec(MediaKind::Audio, "0", vec![opus()]); s.setup = None; s.fp = false; s }]);
                       o.sess_fp = true; o.sess_setup = Some("active".into()); o }] });
    // re-INVITE with an audio subset (the repo's own always-failing test is about this area)
    {
        let mut cfg = default_cfg();
        cfg.audio = vec![AudioCapability::opus(), AudioCapability::pcmu(), AudioCapability::pcma()];
        cfg.caps_none = false;
        let o1 = simple_offer(vec![vec!["0".into()]], vec![simple_sec(MediaKind::Audio, "0", vec![opus(), acodec(0, "PCMU", 8000, 1), acodec(8, "PCMA", 8000, 1)])]);
        let mut o2 = o1.clone();
        o2.secs[0].codecs = vec![acodec(8, "PCMA", 8000, 1)];
        let mut o3 = o1.clone();
        o3.secs[0].codecs = vec![acodec(9, "G722", 8000, 1)]; // empty intersection: falls back to the local list
        v.push(Scenario { cfg, pre: vec![], dc: false, wf: true, rounds: vec![o1, o2, o3] });
    }
    // a=mid:65535 (F5, fixed with saturating arithmetic) and a data channel section
    v.push(Scenario { cfg: default_cfg(), pre: vec![], dc: true, wf: true,
        rounds: vec![simple_offer(vec![vec!["65535".into(), "65534".into()]], vec![simple_sec(MediaKind::Audio, "65535", vec![opus()]), simple_sec(MediaKind::Application, "65534", vec![])])] });
    // rejected m-lines (port 0): middle position, then a re-offer that adds a disabled one and one with bundle-only
    {
        let mut v1 = simple_sec(MediaKind::Video, "1", vec![vp8()]);
        v1.port = 0;
        let o1 = simple_offer(vec![vec!["0".into(), "2".into()]], vec![simple_sec(MediaKind::Audio, "0", vec![opus()]), v1, simple_sec(MediaKind::Application, "2", vec![])]);
        let mut o2 = o1.clone();
        let mut v3 = simple_sec(MediaKind::Video, "3", vec![vp8()]);
        v3.port = 0;
        o2.secs.push(v3);
        let mut a4 = simple_sec(MediaKind::Audio, "4", vec![opus()]);
        a4.port = 0;
        a4.extra.push(("bundle-only".into(), None));
        o2.secs.push(a4);
        o2.groups[0].push("4".into());
        v.push(Scenario { cfg: default_cfg(), pre: vec![], dc: false, wf: true, rounds: vec![o1, o2] });
        // first and last position, mid-less, plain RTP
        let mut cfg = default_cfg();
        cfg.mode = TransportMode::Rtp;
        let mk = |k: MediaKind, port: u16, c: Vec<Codec>| { let mut s = simple_sec(k, "", c); s.setup = None; s.fp = false; s.ice = false; s.port = port; s.mux = false; s };
        let mut o = simple_offer(vec![], vec![mk(MediaKind::Video, 0, vec![vp8()]), mk(MediaKind::Audio, 40000, vec![acodec(0, "PCMU", 8000, 1)]), mk(MediaKind::Audio, 0, vec![acodec(8, "PCMA", 8000, 1)])]);
        o.profile = "RTP/AVP".into();
        v.push(Scenario { cfg, pre: vec![], dc: false, wf: true, rounds: vec![o] });
    }
    // duplicate mids + a pre-added transceiver: outside the property's domain, model only
    v.push(Scenario { cfg: default_cfg(), pre: vec![(MediaKind::Audio, TransceiverDirection::SendRecv)], dc: false, wf: false,
        rounds: vec![simple_offer(vec![], vec![simple_sec(MediaKind::Video, "a", vec![vp8()]), simple_sec(MediaKind::Audio, "a", vec![opus()])])] });
    // plain RTP / SDES modes, legacy SIP compatibility
    for (mode, legacy) in [(TransportMode::Rtp, true), (TransportMode::Srtp, false), (TransportMode::Rtp, false)] {
        let mut cfg = default_cfg();
        cfg.mode = mode;
        cfg.legacy = legacy;
        let mut s = simple_sec(MediaKind::Audio, "", vec![acodec(0, "PCMU", 8000, 1), acodec(111, "opus", 48000, 2)]);
        s.setup = None; s.fp = false; s.ice = false; s.port = 40000; s.mux = false;
        let mut o = simple_offer(vec![], vec![s]);
        o.profile = "RTP/AVP".into();
        v.push(Scenario { cfg, pre: vec![(MediaKind::Audio, TransceiverDirection::SendRecv)], dc: false, wf: true, rounds: vec![o] });
    }
    v
}

// ------------------------------------------------------------------------------------------------
#[tokio::main(flavor = "multi_thread", worker_threads = 4)]
async fn main() {
    let args = parse_args();
    silence_panics();
    let mut out = Out::new(&args.out);
    let mut r = Rng::new(args.seed);
    let mut stats = Stats::default();
    let thorough = args.tier == "thorough";

    // ---- part 1: corpus
    for d in corpus_descs() {
        out.push(print_case(&d, "corpus", true, &mut stats));
    }
    // ---- part 2: corpus
    for sc in corpus_scenarios() {
        let recs = run_scenario(&sc).await;
        let (cs, answers) = scenario_case(&sc, &recs, "corpus", &mut stats);
        for c in cs {
            out.push(c);
        }
        for a in answers {
            out.push(print_case(&a, "answer-print", true, &mut stats));
        }
    }
    // ---- part 1: generated descriptions (domain of the property: oracle on) and exotic ones (model only)
    let n_desc = if thorough { 9000 } else { 600 };
    for i in 0..n_desc {
        let exotic = i % 3 == 2;
        let d = gen_desc(&mut r, exotic);
        out.push(print_case(&d, if exotic { "desc-exotic" } else { "desc" }, true, &mut stats));
    }
    // ---- part 1: raw texts -> parse, then the parsed description through print/parse again
    let n_raw = if thorough { 6000 } else { 400 };
    for i in 0..n_raw {
        let wild = i % 4 == 3;
        let ls = gen_raw(&mut r, wild);
        let (c, parsed) = parse_case(&ls, if wild { "raw-wild" } else { "raw" }, &mut stats);
        out.push(c);
        if let Some(d) = parsed {
            // a description the stack parsed: the round-trip oracle applies (unknown prefixes with
            // ':' are outside RFC 4566 line syntax, so `wild` texts are model-only)
            out.push(print_case(&d, if wild { "parsed-wild" } else { "parsed" }, !wild, &mut stats));
        }
    }
    // ---- part 2: generated scenarios
    let n_sc = if thorough { 20000 } else { 2500 };
    let mut printed = 0;
    for i in 0..n_sc {
        let wf = i % 5 != 4;
        let sc = gen_scenario(&mut r, wf);
        let recs = run_scenario(&sc).await;
        let (cs, answers) = scenario_case(&sc, &recs, if wf { "scenario" } else { "scenario-odd" }, &mut stats);
        for c in cs {
            out.push(c);
        }
        // every answer the stack built is a description it produced: print/parse oracle (a sample, they are alike)
        if printed < (if thorough { 2000 } else { 120 }) {
            for a in answers {
                out.push(print_case(&a, "answer-print", true, &mut stats));
                printed += 1;
            }
        }
    }
    out.finish(json!({"generator": {"counts": stats.c}}));
}
