// scratch probe for C08 (deleted before delivery)
use rustrtc::peer_connection::{PeerConnection, TransceiverDirection};
use rustrtc::sdp::{MediaKind, SdpType, SessionDescription};
use rustrtc::{RtcConfiguration, TransportMode};

const FP: &str = "sha-256 00:11:22:33:44:55:66:77:88:99:AA:BB:CC:DD:EE:FF:00:11:22:33:44:55:66:77:88:99:AA:BB:CC:DD:EE:FF";

async fn answer(cfg: RtcConfiguration, pre: &[MediaKind], offer: &str) -> Result<SessionDescription, String> {
    let pc = PeerConnection::new(cfg);
    for k in pre { pc.add_transceiver(*k, TransceiverDirection::SendRecv); }
    let d = SessionDescription::parse(SdpType::Offer, offer).map_err(|e| format!("parse {e:?}"))?;
    pc.set_remote_description(d).await.map_err(|e| format!("srd {e:?}"))?;
    pc.create_answer().await.map_err(|e| format!("ca {e:?}"))
}

fn hdr() -> String { "v=0\r\no=- 1 1 IN IP4 127.0.0.1\r\ns=-\r\nt=0 0\r\n".to_string() }

#[tokio::main(flavor = "multi_thread", worker_threads = 2)]
async fn main() {
    let t0 = std::time::Instant::now();
    // F15
    let o = format!("{}a=group:BUNDLE 0\r\nm=audio 9 UDP/TLS/RTP/SAVPF 0\r\nc=IN IP4 0.0.0.0\r\na=mid:0\r\na=sendrecv\r\na=rtpmap:0 PCMU/8000\r\na=rtcp-mux\r\na=ice-ufrag:abcd\r\na=ice-pwd:abcdefghijklmnopqrstuv\r\na=fingerprint:{}\r\na=setup:actpass\r\n", hdr(), FP);
    let a = answer(RtcConfiguration::default(), &[], &o).await.unwrap();
    println!("F15 ({:?}):\n{}", t0.elapsed(), a.to_sdp_string());
    let re = SessionDescription::parse(SdpType::Answer, &a.to_sdp_string()).unwrap();
    println!("F16 roundtrip equal: {}", re == a);
    for (x, y) in a.media_sections.iter().zip(re.media_sections.iter()) {
        println!(" keys before {:?}\n keys after  {:?}", x.attributes.iter().map(|a| a.key.clone()).collect::<Vec<_>>(), y.attributes.iter().map(|a| a.key.clone()).collect::<Vec<_>>());
    }
    // mids without bundle, two sections
    let o = format!("{}m=audio 9 UDP/TLS/RTP/SAVPF 111\r\na=mid:0\r\na=rtpmap:111 opus/48000/2\r\na=fingerprint:{}\r\na=setup:actpass\r\nm=video 9 UDP/TLS/RTP/SAVPF 96\r\na=mid:1\r\na=rtpmap:96 VP8/90000\r\na=fingerprint:{}\r\na=setup:actpass\r\n", hdr(), FP, FP);
    let t1 = std::time::Instant::now();
    let a = answer(RtcConfiguration::default(), &[], &o).await.unwrap();
    println!("NO-BUNDLE 2 sections ({:?}): mids {:?}", t1.elapsed(), a.media_sections.iter().map(|s| s.mid.clone()).collect::<Vec<_>>());
    // partial bundle
    let o = format!("{}a=group:BUNDLE 0\r\nm=audio 9 UDP/TLS/RTP/SAVPF 111\r\na=mid:0\r\na=rtpmap:111 opus/48000/2\r\na=fingerprint:{}\r\na=setup:actpass\r\nm=video 9 UDP/TLS/RTP/SAVPF 96\r\na=mid:1\r\na=rtpmap:96 VP8/90000\r\na=fingerprint:{}\r\na=setup:actpass\r\n", hdr(), FP, FP);
    let a = answer(RtcConfiguration::default(), &[], &o).await.unwrap();
    println!("PARTIAL BUNDLE: session attrs {:?}", a.session.attributes);
    // midless extmap
    let o = format!("{}m=audio 9 UDP/TLS/RTP/SAVPF 111\r\na=rtpmap:111 opus/48000/2\r\na=extmap:3 http://www.webrtc.org/experiments/rtp-hdrext/abs-send-time\r\na=fingerprint:{}\r\na=setup:actpass\r\nm=video 9 UDP/TLS/RTP/SAVPF 96\r\na=rtpmap:96 VP8/90000\r\na=extmap:5 http://www.webrtc.org/experiments/rtp-hdrext/abs-send-time\r\na=extmap:3 urn:ietf:params:rtp-hdrext:toffset\r\na=fingerprint:{}\r\na=setup:actpass\r\n", hdr(), FP, FP);
    let a = answer(RtcConfiguration::default(), &[], &o).await.unwrap();
    for s in &a.media_sections { println!("MIDLESS {:?} mid={:?} extmaps {:?}", s.kind, s.mid, s.attributes.iter().filter(|a| a.key == "extmap").map(|a| a.value.clone()).collect::<Vec<_>>()); }
    // setup mix
    for (s1, s2) in [("active", "passive"), ("passive", "active"), ("holdconn", "holdconn"), ("actpass", "actpass")] {
        let o = format!("{}a=group:BUNDLE 0 1\r\nm=audio 9 UDP/TLS/RTP/SAVPF 111\r\na=mid:0\r\na=rtpmap:111 opus/48000/2\r\na=fingerprint:{}\r\na=setup:{}\r\nm=video 9 UDP/TLS/RTP/SAVPF 96\r\na=mid:1\r\na=rtpmap:96 VP8/90000\r\na=fingerprint:{}\r\na=setup:{}\r\n", hdr(), FP, s1, FP, s2);
        let a = answer(RtcConfiguration::default(), &[], &o).await.unwrap();
        println!("SETUP offer ({},{}) answer {:?}", s1, s2, a.media_sections.iter().map(|s| s.attributes.iter().find(|a| a.key == "setup").and_then(|a| a.value.clone())).collect::<Vec<_>>());
    }
    // session-level setup
    let o = format!("{}a=fingerprint:{}\r\na=setup:active\r\nm=audio 9 UDP/TLS/RTP/SAVPF 111\r\na=mid:0\r\na=rtpmap:111 opus/48000/2\r\n", hdr(), FP);
    let a = answer(RtcConfiguration::default(), &[], &o).await.unwrap();
    println!("SESSION SETUP active -> answer {:?}", a.media_sections.iter().map(|s| s.attributes.iter().find(|a| a.key == "setup").and_then(|a| a.value.clone())).collect::<Vec<_>>());
    // duplicate mids with pre-added transceiver
    let o = format!("{}m=video 9 UDP/TLS/RTP/SAVPF 96\r\na=mid:a\r\na=rtpmap:96 VP8/90000\r\na=fingerprint:{}\r\na=setup:actpass\r\nm=audio 9 UDP/TLS/RTP/SAVPF 111\r\na=mid:a\r\na=rtpmap:111 opus/48000/2\r\na=fingerprint:{}\r\na=setup:actpass\r\n", hdr(), FP, FP);
    let a = answer(RtcConfiguration::default(), &[MediaKind::Audio], &o).await;
    println!("DUP MIDS: {:?}", a.map(|a| a.media_sections.iter().map(|s| (s.kind, s.mid.clone())).collect::<Vec<_>>()));
    // timing per mode
    for mode in [TransportMode::WebRtc, TransportMode::Srtp, TransportMode::Rtp] {
        let t = std::time::Instant::now();
        let n = 20;
        for _ in 0..n {
            let mut cfg = RtcConfiguration::default();
            cfg.transport_mode = mode.clone();
            let o = format!("{}a=group:BUNDLE 0 1\r\nm=audio 4000 RTP/AVP 0\r\nc=IN IP4 127.0.0.1\r\na=mid:0\r\na=rtpmap:0 PCMU/8000\r\na=fingerprint:{}\r\na=setup:actpass\r\nm=video 4002 RTP/AVP 96\r\nc=IN IP4 127.0.0.1\r\na=mid:1\r\na=rtpmap:96 VP8/90000\r\na=fingerprint:{}\r\na=setup:actpass\r\n", hdr(), FP, FP);
            let r = answer(cfg, &[], &o).await;
            if let Err(e) = r { println!("{:?} err {}", mode, e); break; }
        }
        println!("mode {:?}: {:?} per answer", mode, t.elapsed() / n);
    }
}
