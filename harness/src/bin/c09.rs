//! C09 — signaling state machine and atomicity of rejected calls.
//!
//! Drives real `PeerConnection`s (public API only) with call sequences over the alphabet
//! {create_offer, create_answer, set_local(offer|answer|pranswer|rollback),
//!  set_remote(offer|answer|pranswer|rollback), close} with well-formed, changed and malformed
//! descriptions, on fresh and previously negotiated connections, in the three transport modes
//! and with a failing environment (unbindable `bind_ip`).  After every call it snapshots
//! `signaling_state()`, both stored descriptions and every transceiver's
//! kind / mid / direction / payload map / extmap; at the end it probes the mid counter
//! (add_transceiver + create_offer).
//!
//! * direct oracle (independent of the model): a JSEP table written from RFC 8829 / W3C, and a
//!   byte-wise comparison of the full snapshot before/after every call that returned Err, plus
//!   the probe of the mid counter against a twin that did not make the rejected call;
//! * correspondence: the same sequences as Gallina terms for `Run/C09Run.v`.
use rustrtc::peer_connection::{PeerConnection, SignalingState, TransceiverDirection};
use rustrtc::sdp::{Attribute, Direction, MediaKind, MediaSection, SdpType, SessionDescription};
use rustrtc::{RtcConfiguration, RtcError, TransportMode};
use serde_json::json;
use std::collections::{BTreeMap, HashMap};
use futures::FutureExt;
use std::panic::AssertUnwindSafe;
use std::time::Duration;
use vh::*;

// ---------------------------------------------------------------- interning (tokens)
#[derive(Default)]
struct Interner {
    map: HashMap<String, i64>,
}
impl Interner {
    fn id(&mut self, s: &str) -> i64 {
        let n = self.map.len() as i64 + 1;
        *self.map.entry(s.to_string()).or_insert(n)
    }
}

// ---------------------------------------------------------------- configurations
#[derive(Clone, Debug, PartialEq)]
struct Cfg {
    mode: TransportMode,
    init: Vec<(MediaKind, TransceiverDirection)>,
    bad_env: bool,
    /// RTP port range of exactly one port: the first media socket binds, any further one fails
    one_port: bool,
}
impl Cfg {
    fn key(&self) -> String {
        format!("{:?}/{}/{}", self.mode, self.init.iter().map(|(k, d)| format!("{:?}:{:?}", k, d)).collect::<Vec<_>>().join("+"), if self.bad_env { "badenv" } else if self.one_port { "oneport" } else { "ok" })
    }
    fn rtc(&self) -> RtcConfiguration {
        let mut c = RtcConfiguration::default();
        c.transport_mode = self.mode.clone();
        if self.bad_env {
            // TEST-NET-3: not assigned to any local interface, every bind() fails with EADDRNOTAVAIL
            c.bind_ip = Some("203.0.113.77".into());
        }
        if self.one_port {
            c.bind_ip = Some("127.0.0.1".into());
            let p = free_even_port();
            c.rtp_start_port = Some(p);
            c.rtp_end_port = Some(p);
        }
        c
    }
    fn make(&self) -> PeerConnection {
        let pc = PeerConnection::new(self.rtc());
        for (k, d) in &self.init {
            pc.add_transceiver(*k, *d);
        }
        pc
    }
}

/// an even UDP port on 127.0.0.1 that is free right now
fn free_even_port() -> u16 {
    for _ in 0..400 {
        if let Ok(s) = std::net::UdpSocket::bind("127.0.0.1:0") {
            if let Ok(a) = s.local_addr() { if a.port() % 2 == 0 { return a.port(); } }
        }
    }
    40000
}

fn mode_term(m: &TransportMode) -> &'static str {
    match m {
        TransportMode::WebRtc => "WebRtc",
        TransportMode::Srtp => "Srtp",
        TransportMode::Rtp => "Rtp",
    }
}
fn kind_term(k: MediaKind) -> &'static str {
    match k {
        MediaKind::Audio => "Audio",
        MediaKind::Video => "Video",
        MediaKind::Application => "Application",
        MediaKind::Image => "Image",
    }
}
fn tdir_term(d: TransceiverDirection) -> &'static str {
    match d {
        TransceiverDirection::SendRecv => "SendRecv",
        TransceiverDirection::SendOnly => "SendOnly",
        TransceiverDirection::RecvOnly => "RecvOnly",
        TransceiverDirection::Inactive => "Inactive",
    }
}
fn sdir_term(d: Direction) -> &'static str {
    match d {
        Direction::SendRecv => "SendRecv",
        Direction::SendOnly => "SendOnly",
        Direction::RecvOnly => "RecvOnly",
        Direction::Inactive => "Inactive",
    }
}
fn ty_term(t: SdpType) -> &'static str {
    match t {
        SdpType::Offer => "Offer",
        SdpType::Answer => "Answer",
        SdpType::Pranswer => "Pranswer",
        SdpType::Rollback => "Rollback",
    }
}
fn sig_term(s: SignalingState) -> &'static str {
    match s {
        SignalingState::Stable => "Stable",
        SignalingState::HaveLocalOffer => "HaveLocalOffer",
        SignalingState::HaveRemoteOffer => "HaveRemoteOffer",
        SignalingState::Closed => "Closed",
    }
}

// ---------------------------------------------------------------- abstraction of descriptions
/// canonical text of a description: what `local_description()` / `remote_description()` must
/// keep.  Candidate lines, connection lines and m-line ports are dropped because the gathering
/// task legitimately rewrites them inside the stored *local* description.
fn canon_desc(d: &SessionDescription) -> String {
    let mut out = format!("type={}\n", d.sdp_type.as_str());
    for line in d.to_sdp_string().lines() {
        if line.starts_with("a=candidate") || line.starts_with("a=end-of-candidates") || line.starts_with("c=") {
            continue;
        }
        if let Some(rest) = line.strip_prefix("m=") {
            let mut parts: Vec<&str> = rest.split(' ').collect();
            if parts.len() > 1 {
                parts[1] = "P";
            }
            out.push_str("m=");
            out.push_str(&parts.join(" "));
        } else {
            out.push_str(line);
        }
        out.push('\n');
    }
    out
}

/// the harness's own reading of `a=rtpmap` / static formats (RFC 3551) — compared, through the
/// tokens, with what the transceiver reports afterwards
fn section_pm(sec: &MediaSection) -> String {
    let mut m: BTreeMap<u8, String> = BTreeMap::new();
    for a in &sec.attributes {
        if a.key == "rtpmap" {
            if let Some(v) = &a.value {
                let parts: Vec<&str> = v.split_whitespace().collect();
                if parts.len() >= 2 {
                    if let Ok(pt) = parts[0].parse::<u8>() {
                        let c: Vec<&str> = parts[1].split('/').collect();
                        if c.len() >= 2 {
                            let clock: u32 = c[1].parse().unwrap_or(90000);
                            let ch: u8 = if c.len() >= 3 { c[2].parse().unwrap_or(0) } else { 0 };
                            m.insert(pt, format!("{}/{}/{}", c[0], clock, ch));
                        }
                    }
                }
            }
        }
    }
    for f in &sec.formats {
        if let Ok(pt) = f.parse::<u8>() {
            if !m.contains_key(&pt) {
                let st = match pt {
                    0 => Some("PCMU/8000/1"),
                    8 => Some("PCMA/8000/1"),
                    9 => Some("G722/8000/1"),
                    18 => Some("G729/8000/1"),
                    _ => None,
                };
                if let Some(s) = st {
                    m.insert(pt, s.to_string());
                }
            }
        }
    }
    m.iter().map(|(k, v)| format!("{}={}", k, v)).collect::<Vec<_>>().join(",")
}
fn section_em(sec: &MediaSection) -> String {
    let mut m: BTreeMap<u8, String> = BTreeMap::new();
    for a in &sec.attributes {
        if a.key == "extmap" {
            if let Some(v) = &a.value {
                let parts: Vec<&str> = v.split_whitespace().collect();
                if parts.len() >= 2 {
                    if let Ok(id) = parts[0].parse::<u8>() {
                        m.insert(id, parts[1].to_string());
                    }
                }
            }
        }
    }
    m.iter().map(|(k, v)| format!("{}={}", k, v)).collect::<Vec<_>>().join(",")
}

fn mid_term(it: &mut Interner, m: &str) -> String {
    if m.is_empty() {
        "MEmpty".into()
    } else if let Ok(n) = m.parse::<u16>() {
        if n.to_string() == m { format!("(MNum {})", n) } else { format!("(MStr {})", it.id(&format!("mid|{}", m))) }
    } else {
        format!("(MStr {})", it.id(&format!("mid|{}", m)))
    }
}
fn map_token(it: &mut Interner, what: &str, canon: &str) -> i64 {
    if canon.is_empty() { 0 } else { it.id(&format!("{}|{}", what, canon)) }
}

fn desc_term(it: &mut Interner, d: &SessionDescription) -> String {
    let id = it.id(&format!("D|{}", canon_desc(d)));
    let media = it.id(&format!("M|{:?}|{:?}|{:?}", d.session.connection, d.session.attributes, d.media_sections));
    let fp = match d.dtls_fingerprint() {
        Ok(None) => "FpNone".to_string(),
        Ok(Some(f)) if f.algorithm == "sha-256" => format!("(FpSha {})", it.id(&format!("fp|{}", f.value))),
        Ok(Some(_)) => "FpOtherAlg".to_string(),
        Err(_) => "FpInvalid".to_string(),
    };
    let secs: Vec<String> = d
        .media_sections
        .iter()
        .map(|s| {
            let pm = map_token(it, "pm", &section_pm(s));
            let em = map_token(it, "em", &section_em(s));
            format!("mkSec {} {} {} {} {}", kind_term(s.kind), mid_term(it, &s.mid), sdir_term(s.direction), pm, em)
        })
        .collect();
    format!("(mkDesc {} {} {} {} {})", ty_term(d.sdp_type), id, media, fp, list_term(&secs))
}

// ---------------------------------------------------------------- snapshots
#[derive(Clone, Debug, PartialEq)]
struct TxSnap {
    kind: MediaKind,
    mid: Option<String>,
    dir: TransceiverDirection,
    pm: String,
    em: String,
}
#[derive(Clone, Debug, PartialEq)]
struct Snap {
    sig: SignalingState,
    local: Option<String>,
    remote: Option<String>,
    txs: Vec<TxSnap>,
}
fn snapshot(pc: &PeerConnection) -> Snap {
    Snap {
        sig: pc.signaling_state(),
        local: pc.local_description().map(|d| canon_desc(&d)),
        remote: pc.remote_description().map(|d| canon_desc(&d)),
        txs: pc
            .get_transceivers()
            .iter()
            .map(|t| {
                let pmm: BTreeMap<u8, String> = t.get_payload_map().iter().map(|(k, v)| (*k, format!("{}/{}/{}", v.name, v.clock_rate, v.channels))).collect();
                let emm: BTreeMap<u8, String> = t.get_extmap().iter().map(|(k, v)| (*k, v.clone())).collect();
                TxSnap {
                    kind: t.kind(),
                    mid: t.mid(),
                    dir: t.direction(),
                    pm: pmm.iter().map(|(k, v)| format!("{}={}", k, v)).collect::<Vec<_>>().join(","),
                    em: emm.iter().map(|(k, v)| format!("{}={}", k, v)).collect::<Vec<_>>().join(","),
                }
            })
            .collect(),
    }
}
fn tx_term(it: &mut Interner, t: &TxSnap) -> String {
    let mid = match &t.mid {
        None => "None".to_string(),
        Some(m) => format!("(Some {})", mid_term(it, m)),
    };
    format!("mkTx {} {} {} {} {}", kind_term(t.kind), mid, tdir_term(t.dir), map_token(it, "pm", &t.pm), map_token(it, "em", &t.em))
}
fn snap_json(s: &Snap) -> serde_json::Value {
    // compact: state | local type | remote type | kind:mid:direction:payload map:extmap ids per transceiver
    let ty = |o: &Option<String>| o.as_ref().map(|x| x.lines().next().unwrap_or("").trim_start_matches("type=").to_string()).unwrap_or_else(|| "-".into());
    let em = |e: &str| e.split(',').filter(|x| !x.is_empty()).map(|x| x.split('=').next().unwrap_or("").to_string()).collect::<Vec<_>>().join("+");
    json!(format!("{}|L:{}|R:{}|{}", sig_term(s.sig), ty(&s.local), ty(&s.remote),
        s.txs.iter().map(|t| format!("{}:{}:{}:[{}]:[{}]", kind_term(t.kind), t.mid.clone().unwrap_or_else(|| "none".into()), tdir_term(t.dir), t.pm, em(&t.em))).collect::<Vec<_>>().join(" ")))
}

// ---------------------------------------------------------------- the alphabet
#[derive(Clone, Copy, Debug, PartialEq, Eq, Hash)]
enum LocalVar {
    Own, Changed, NoCodecs,
    // application-edited descriptions (what create_offer / create_answer returned, modified before being applied)
    SwapMids, RenameMid, DropSection, DupSection, FlipDir,
}
#[derive(Clone, Copy, Debug, PartialEq, Eq, Hash)]
enum RemoteVar { Base, Changed, Malformed }
#[derive(Clone, Debug, PartialEq)]
enum Letter {
    CreateOffer,
    CreateAnswer,
    Close,
    SetLocal(SdpType, LocalVar),
    SetRemote(SdpType, RemoteVar),
    /// a hand-made remote description from the corpus
    SetRemoteRaw(usize),
    SetLocalRaw(usize),
}
fn letter_name(l: &Letter) -> String {
    match l {
        Letter::CreateOffer => "create_offer".into(),
        Letter::CreateAnswer => "create_answer".into(),
        Letter::Close => "close".into(),
        Letter::SetLocal(t, v) => format!("set_local({},{:?})", t.as_str(), v),
        Letter::SetRemote(t, v) => format!("set_remote({},{:?})", t.as_str(), v),
        Letter::SetRemoteRaw(i) => format!("set_remote(raw#{})", i),
        Letter::SetLocalRaw(i) => format!("set_local(raw#{})", i),
    }
}
fn alphabet() -> Vec<Letter> {
    use Letter::*;
    let mut v = vec![CreateOffer, CreateAnswer, Close];
    for t in [SdpType::Offer, SdpType::Answer] {
        v.push(SetLocal(t, LocalVar::Own));
        v.push(SetLocal(t, LocalVar::Changed));
    }
    v.push(SetLocal(SdpType::Offer, LocalVar::NoCodecs));
    v.push(SetLocal(SdpType::Pranswer, LocalVar::Own));
    v.push(SetLocal(SdpType::Rollback, LocalVar::Own));
    for t in [SdpType::Offer, SdpType::Answer] {
        v.push(SetRemote(t, RemoteVar::Base));
        v.push(SetRemote(t, RemoteVar::Changed));
        v.push(SetRemote(t, RemoteVar::Malformed));
    }
    v.push(SetRemote(SdpType::Pranswer, RemoteVar::Base));
    v.push(SetRemote(SdpType::Pranswer, RemoteVar::Changed));
    v.push(SetRemote(SdpType::Rollback, RemoteVar::Base));
    v
}

/// replace the codecs of a section by static PCMA (payload map {8}) and drop its extmaps
fn to_pcma(s: &mut MediaSection) {
    s.formats = vec!["8".into()];
    s.attributes.retain(|a| !matches!(a.key.as_str(), "rtpmap" | "fmtp" | "rtcp-fb" | "extmap"));
}

/// only a dynamic payload type without rtpmap: `extract_payload_map` yields the EMPTY map (the
/// branch `if !payload_map.is_empty()` of every description path); extmaps are kept
fn to_no_codecs(s: &mut MediaSection) {
    s.formats = vec!["126".into()];
    s.attributes.retain(|a| !matches!(a.key.as_str(), "rtpmap" | "fmtp" | "rtcp-fb"));
}

/// descriptions "from the other side", built once per configuration from a peer with the same
/// transport mode (so that fingerprints, ICE credentials and crypto lines are genuine)
struct Remote {
    base: SessionDescription,
    changed: SessionDescription,
    malformed: SessionDescription,
}
async fn make_remote(cfg: &Cfg) -> Remote {
    let peer_cfg = Cfg { mode: cfg.mode.clone(), init: vec![(MediaKind::Audio, TransceiverDirection::SendRecv)], bad_env: false, one_port: false };
    let peer = peer_cfg.make();
    let base = peer.create_offer().await.expect("peer offer");
    peer.close();
    let mut changed = base.clone();
    to_pcma(&mut changed.media_sections[0]);
    changed.media_sections[0].direction = Direction::SendOnly;
    // a second m-line with a high mid: moves the mid counter, needs a new transceiver in an offer
    let mut v = changed.media_sections[0].clone();
    v.kind = MediaKind::Video;
    v.mid = "5".into();
    v.direction = Direction::RecvOnly;
    v.formats = vec!["96".into()];
    v.attributes.retain(|a| a.key != "ssrc" && a.key != "msid");
    v.attributes.push(Attribute::new("rtpmap", Some("96 VP8/90000".into())));
    v.attributes.push(Attribute::new("extmap", Some("7 urn:example:ext".into())));
    changed.media_sections.push(v);
    let mut malformed = base.clone();
    malformed.media_sections[0].mid = String::new();
    if cfg.mode != TransportMode::WebRtc {
        to_no_codecs(&mut malformed.media_sections[0]);
    }
    if cfg.mode == TransportMode::WebRtc {
        for s in &mut malformed.media_sections {
            for a in &mut s.attributes {
                if a.key == "fingerprint" {
                    a.value = Some("sha-1 AA:BB:CC:DD:EE:FF:00:11:22:33:44:55:66:77:88:99:AA:BB:CC:DD".into());
                }
            }
        }
        for a in &mut malformed.session.attributes {
            if a.key == "fingerprint" {
                a.value = Some("sha-1 AA:BB:CC:DD:EE:FF:00:11:22:33:44:55:66:77:88:99:AA:BB:CC:DD".into());
            }
        }
    }
    Remote { base, changed, malformed }
}
/// what this side would offer if nothing has been generated on the connection under test yet
async fn make_canned_local(cfg: &Cfg) -> SessionDescription {
    let mut c = cfg.clone();
    c.bad_env = false;
    c.one_port = false;
    if c.init.is_empty() {
        c.init = vec![(MediaKind::Audio, TransceiverDirection::SendRecv)];
    }
    let pc = c.make();
    let d = pc.create_offer().await.expect("canned local offer");
    pc.close();
    d
}

struct World {
    remote: Remote,
    canned_local: SessionDescription,
    raw: Vec<SessionDescription>,
}

// ---------------------------------------------------------------- running one sequence
#[derive(Clone, Debug, PartialEq)]
enum Res {
    Ok,
    Err(&'static str, String), // model class, message
    Panic(String),
}
fn panic_msg(e: Box<dyn std::any::Any + Send>) -> String {
    if let Some(s) = e.downcast_ref::<&str>() { s.to_string() } else if let Some(s) = e.downcast_ref::<String>() { s.clone() } else { "panic".into() }
}
/// a panic inside the implementation is an observable result, never a harness crash
async fn guarded<T, F: std::future::Future<Output = Result<T, RtcError>>>(f: F) -> Result<T, Res> {
    match AssertUnwindSafe(f).catch_unwind().await {
        Ok(Ok(v)) => Ok(v),
        Ok(Err(e)) => Err(classify(&e)),
        Err(p) => Err(Res::Panic(panic_msg(p))),
    }
}
fn classify(e: &RtcError) -> Res {
    let msg = format!("{}", e);
    match e {
        RtcError::InvalidState(_) => Res::Err("EInvalidState", msg),
        RtcError::NotImplemented(_) => Res::Err("ENotImplemented", msg),
        RtcError::InvalidConfiguration(_) => Res::Err("EInvalidConfig", msg),
        RtcError::Internal(_) => Res::Err("EInternal", msg),
        _ => Res::Err("EOther", msg),
    }
}
/// the environment (socket bind / ICE start) failed inside the call
fn is_transport_failure(r: &Res) -> bool {
    match r {
        Res::Err("EInternal", m) => m.contains("RTP direct error") || m.contains("RTP socket bind failed") || m.contains("ICE direct error") || m.contains("ICE error"),
        _ => false,
    }
}

struct Step {
    name: String,
    call_term: String, // Gallina `call`
    kind: Kind,
    res: Res,
    before: Snap,
    after: Snap,
}
#[derive(Clone, Copy, Debug, PartialEq)]
enum Kind {
    CreateOffer,
    CreateAnswer,
    SetLocal(SdpType),
    SetRemote(SdpType),
    Close,
    Env,
}

struct Trace {
    steps: Vec<Step>,
    probe: Option<String>,
    probe_env: bool,
    init: Snap,
}

async fn apply_letter(pc: &PeerConnection, w: &World, last_gen: &mut Option<SessionDescription>, it: &mut Interner, l: &Letter) -> (String, Kind, Res) {
    match l {
        Letter::CreateOffer => {
            let r = guarded(pc.create_offer()).await;
            let res = match r {
                Ok(d) => { *last_gen = Some(d); Res::Ok }
                Err(e) => e,
            };
            (format!("CreateOffer {}", bool_term(is_transport_failure(&res))), Kind::CreateOffer, res)
        }
        Letter::CreateAnswer => {
            let r = guarded(pc.create_answer()).await;
            let res = match r {
                Ok(d) => { *last_gen = Some(d); Res::Ok }
                Err(e) => e,
            };
            (format!("CreateAnswer {}", bool_term(is_transport_failure(&res))), Kind::CreateAnswer, res)
        }
        Letter::Close => {
            pc.close();
            ("Close".into(), Kind::Close, Res::Ok)
        }
        Letter::SetLocal(t, v) => {
            let mut d = last_gen.clone().unwrap_or_else(|| w.canned_local.clone());
            d.sdp_type = *t;
            match v {
                LocalVar::Changed => { if let Some(s) = d.media_sections.first_mut() { to_pcma(s); } }
                LocalVar::NoCodecs => { if let Some(s) = d.media_sections.first_mut() { to_no_codecs(s); } }
                LocalVar::Own => {}
                LocalVar::SwapMids => {
                    // exchange the mids of the first two m-lines of different kinds (else rotate the first two)
                    let n = d.media_sections.len();
                    if n >= 2 {
                        let j = (1..n).find(|&j| d.media_sections[j].kind != d.media_sections[0].kind).unwrap_or(1);
                        let a = d.media_sections[0].mid.clone();
                        d.media_sections[0].mid = d.media_sections[j].mid.clone();
                        d.media_sections[j].mid = a;
                    } else if let Some(s) = d.media_sections.first_mut() {
                        // one m-line only: present it as the other kind under the same mid
                        s.kind = if s.kind == MediaKind::Audio { MediaKind::Video } else { MediaKind::Audio };
                    }
                }
                LocalVar::RenameMid => { if let Some(s) = d.media_sections.first_mut() { s.mid = "9".into(); } }
                LocalVar::DropSection => { d.media_sections.pop(); }
                LocalVar::DupSection => { if let Some(s) = d.media_sections.first().cloned() { d.media_sections.push(s); } }
                LocalVar::FlipDir => { if let Some(s) = d.media_sections.first_mut() { s.direction = if s.direction == Direction::Inactive { Direction::SendRecv } else { Direction::Inactive }; } }
            }
            let term = format!("SetLocal {}", desc_term(it, &d));
            let res = match catch(AssertUnwindSafe(|| pc.set_local_description(d))) { Ok(Ok(())) => Res::Ok, Ok(Err(e)) => classify(&e), Err(p) => Res::Panic(p) };
            (term, Kind::SetLocal(*t), res)
        }
        Letter::SetLocalRaw(i) => {
            let d = w.raw[*i].clone();
            let t = d.sdp_type;
            let term = format!("SetLocal {}", desc_term(it, &d));
            let res = match catch(AssertUnwindSafe(|| pc.set_local_description(d))) { Ok(Ok(())) => Res::Ok, Ok(Err(e)) => classify(&e), Err(p) => Res::Panic(p) };
            (term, Kind::SetLocal(t), res)
        }
        Letter::SetRemote(t, v) => {
            let mut d = match v { RemoteVar::Base => w.remote.base.clone(), RemoteVar::Changed => w.remote.changed.clone(), RemoteVar::Malformed => w.remote.malformed.clone() };
            d.sdp_type = *t;
            let dt = desc_term(it, &d);
            let res = match guarded(pc.set_remote_description(d)).await { Ok(()) => Res::Ok, Err(e) => e };
            (format!("SetRemote {} {}", dt, bool_term(is_transport_failure(&res))), Kind::SetRemote(*t), res)
        }
        Letter::SetRemoteRaw(i) => {
            let d = w.raw[*i].clone();
            let t = d.sdp_type;
            let dt = desc_term(it, &d);
            let res = match guarded(pc.set_remote_description(d)).await { Ok(()) => Res::Ok, Err(e) => e };
            (format!("SetRemote {} {}", dt, bool_term(is_transport_failure(&res))), Kind::SetRemote(t), res)
        }
    }
}

async fn probe_mid(pc: &PeerConnection) -> (Option<String>, bool) {
    let t = pc.add_transceiver(MediaKind::Video, TransceiverDirection::RecvOnly);
    let r = pc.create_offer().await;
    let env = match &r { Err(e) => is_transport_failure(&classify(e)), Ok(_) => false };
    (t.mid(), env)
}

async fn run_seq(cfg: &Cfg, w: &World, it: &mut Interner, seq: &[Letter]) -> Trace {
    let pc = cfg.make();
    let init = snapshot(&pc);
    let mut last_gen: Option<SessionDescription> = None;
    let mut steps = vec![];
    for l in seq {
        let before = snapshot(&pc);
        let (call_term, kind, res) = apply_letter(&pc, w, &mut last_gen, it, l).await;
        let after = snapshot(&pc);
        steps.push(Step { name: letter_name(l), call_term, kind, res, before, after });
    }
    let (probe, probe_env) = probe_mid(&pc).await;
    pc.close();
    drop(pc);
    tokio::task::yield_now().await;
    Trace { steps, probe, probe_env, init }
}

// ---------------------------------------------------------------- direct property oracle
/// RFC 8829 §3.2 / W3C webrtc §4.3.1, on the four states this API reports.  `None` = forbidden.
fn jsep(q: SignalingState, k: Kind) -> Option<SignalingState> {
    use SignalingState::*;
    match k {
        Kind::Close => return Some(Closed),
        Kind::Env => return Some(q),
        _ => {}
    }
    match (q, k) {
        (Closed, _) => None,
        (_, Kind::CreateOffer) => Some(q),
        (HaveRemoteOffer, Kind::CreateAnswer) => Some(q),
        (Stable, Kind::SetLocal(SdpType::Offer)) | (HaveLocalOffer, Kind::SetLocal(SdpType::Offer)) => Some(HaveLocalOffer),
        (Stable, Kind::SetRemote(SdpType::Offer)) | (HaveRemoteOffer, Kind::SetRemote(SdpType::Offer)) => Some(HaveRemoteOffer),
        (HaveLocalOffer, Kind::SetRemote(SdpType::Answer)) => Some(Stable),
        (HaveLocalOffer, Kind::SetRemote(SdpType::Pranswer)) => Some(HaveLocalOffer),
        (HaveRemoteOffer, Kind::SetLocal(SdpType::Answer)) => Some(Stable),
        (HaveRemoteOffer, Kind::SetLocal(SdpType::Pranswer)) => Some(HaveRemoteOffer),
        _ => None,
    }
}

fn diff_snap(a: &Snap, b: &Snap) -> String {
    let mut d = vec![];
    if a.sig != b.sig { d.push(format!("signaling state {:?} -> {:?}", a.sig, b.sig)); }
    if a.local != b.local { d.push("stored local description changed".to_string()); }
    if a.remote != b.remote { d.push("stored remote description changed".to_string()); }
    if a.txs.len() != b.txs.len() { d.push(format!("transceiver count {} -> {}", a.txs.len(), b.txs.len())); }
    for (i, (x, y)) in a.txs.iter().zip(b.txs.iter()).enumerate() {
        if x.mid != y.mid { d.push(format!("transceiver {} mid {:?} -> {:?}", i, x.mid, y.mid)); }
        if x.dir != y.dir { d.push(format!("transceiver {} direction {:?} -> {:?}", i, x.dir, y.dir)); }
        if x.pm != y.pm { d.push(format!("transceiver {} payload map [{}] -> [{}]", i, x.pm, y.pm)); }
        if x.em != y.em { d.push(format!("transceiver {} extmap [{}] -> [{}]", i, x.em, y.em)); }
    }
    d.join("; ")
}

/// (first unlisted failure, listed-finding class hit)
fn oracle(tr: &Trace, twin_probe: Option<&Option<String>>) -> (Option<String>, Option<String>) {
    let mut fail: Option<String> = None;
    let known: Option<String> = None;
    let mut closed_seen = false;
    for (i, st) in tr.steps.iter().enumerate() {
        let mut set = |s: String| { if fail.is_none() { fail = Some(s); } };
        if let Res::Panic(m) = &st.res { set(format!("call {} ({}) panicked: {}", i, st.name, m)); continue; }
        let q = st.before.sig;
        let spec = jsep(q, st.kind);
        let is_err = matches!(st.res, Res::Err(..));
        // --- conformance
        match spec {
            None => {
                if !is_err { set(format!("call {} ({}) is forbidden by the JSEP machine in state {:?} but returned Ok", i, st.name, q)); }
            }
            Some(q2) => {
                if !is_err && st.after.sig != q2 { set(format!("call {} ({}) succeeded in state {:?}: JSEP prescribes {:?}, reported {:?}", i, st.name, q, q2, st.after.sig)); }
            }
        }
        if is_err && st.after.sig != q {
            { set(format!("call {} ({}) returned Err ({:?}) but the signaling state moved {:?} -> {:?}", i, st.name, st.res, q, st.after.sig)); }
        }
        if let Kind::SetLocal(SdpType::Pranswer) | Kind::SetRemote(SdpType::Pranswer) = st.kind {
            if st.after.sig != q { set(format!("call {} ({}): a provisional answer changed the signaling state {:?} -> {:?}", i, st.name, q, st.after.sig)); }
        }
        if let Kind::SetLocal(SdpType::Rollback) | Kind::SetRemote(SdpType::Rollback) = st.kind {
            if !is_err { set(format!("call {} ({}): rollback was not refused", i, st.name)); }
        }
        if closed_seen && st.after.sig != SignalingState::Closed { set(format!("call {} ({}): state left Closed", i, st.name)); }
        if st.kind == Kind::Close {
            closed_seen = true;
            if st.after.sig != SignalingState::Closed { set(format!("call {}: close() did not report Closed", i)); }
        }
        // --- atomicity
        if is_err && st.before != st.after {
            { set(format!("call {} ({}) returned Err ({:?}) but changed: {}", i, st.name, st.res, diff_snap(&st.before, &st.after))); }
        }
    }
    // --- the mid counter: a rejected final call must not change what the next transceiver gets
    if let (Some(last), Some(tp)) = (tr.steps.last(), twin_probe) {
        if matches!(last.res, Res::Err(..)) && *tp != tr.probe {
            if fail.is_none() {
                fail = Some(format!("last call ({}) returned Err ({:?}) but moved the mid counter: the next transceiver gets mid {:?}, without the rejected call {:?}", last.name, last.res, tr.probe, tp));
            }
        }
    }
    (fail, known)
}

// ---------------------------------------------------------------- emitting a case
fn emit(out: &mut Out, it: &mut Interner, cfg: &Cfg, seq_names: Vec<String>, tr: &Trace, kind: &str, fail: Option<String>, known: Option<String>) {
    let init_t: Vec<String> = tr.init.txs.iter().map(|t| tx_term(it, t)).collect();
    let mut calls = vec![];
    let mut obs = vec![];
    let mut modelable = true;
    for st in &tr.steps {
        calls.push(st.call_term.clone());
        let r = match &st.res {
            Res::Ok => "Ok".to_string(),
            Res::Err(c, _) if *c != "EOther" => format!("(Err {})", c),
            _ => { modelable = false; "Ok".to_string() }
        };
        let lid = st.after.local.as_ref().map(|c| it.id(&format!("D|{}", c))).unwrap_or(-1);
        let rid = st.after.remote.as_ref().map(|c| it.id(&format!("D|{}", c))).unwrap_or(-1);
        let txs: Vec<String> = st.after.txs.iter().map(|t| tx_term(it, t)).collect();
        obs.push(format!("mkOb {} {} {} {} {}", r, sig_term(st.after.sig), z(lid as i128), z(rid as i128), list_term(&txs)));
    }
    let probe = match &tr.probe { None => "None".to_string(), Some(m) => format!("(Some {})", mid_term(it, m)) };
    let term = if modelable {
        format!("mkCase {} {} {} {} {} {}", mode_term(&cfg.mode), list_term(&init_t), list_term(&calls), list_term(&obs), bool_term(tr.probe_env), probe)
    } else { "-".to_string() };
    let nontrivial = tr.steps.iter().any(|s| s.before != s.after) || tr.steps.iter().any(|s| matches!(s.res, Res::Err(..)));
    out.push(Case {
        term,
        desc: json!({"config": cfg.key(), "calls": seq_names,
            "results": tr.steps.iter().map(|s| match &s.res { Res::Ok => "Ok".to_string(), Res::Err(c, m) => format!("{}: {}", c, m), Res::Panic(m) => format!("PANIC {}", m) }).collect::<Vec<_>>(),
            "snapshots": tr.steps.iter().map(|s| snap_json(&s.after)).collect::<Vec<_>>(),
            "probe_mid": tr.probe}),
        oracle_fail: fail,
        known,
        nontrivial,
        key: {
            use std::hash::{Hash, Hasher};
            let mut h = std::collections::hash_map::DefaultHasher::new();
            cfg.key().hash(&mut h);
            for st in &tr.steps { st.call_term.hash(&mut h); }
            format!("{:016x}", h.finish())
        },
        kind: kind.to_string(),
    });
}

// ---------------------------------------------------------------- hand-made descriptions (corpus)
fn raw_descs(base: &SessionDescription, mode: &TransportMode) -> Vec<SessionDescription> {
    let mut v = vec![];
    // 0: answer whose only numeric mid is 7 (the design-phase witness for the mid counter)
    let mut d = base.clone();
    d.sdp_type = SdpType::Answer;
    d.media_sections[0].mid = "7".into();
    v.push(d);
    // 1/2: Linphone-style offer without a=mid on audio + video; 2 = same with other codecs
    let mut d = base.clone();
    d.sdp_type = SdpType::Offer;
    d.media_sections[0].mid = String::new();
    let mut vs = d.media_sections[0].clone();
    vs.kind = MediaKind::Video;
    vs.formats = vec!["96".into()];
    vs.attributes.retain(|a| !matches!(a.key.as_str(), "rtpmap" | "fmtp" | "ssrc" | "msid"));
    vs.attributes.push(Attribute::new("rtpmap", Some("96 VP8/90000".into())));
    d.media_sections.push(vs);
    v.push(d.clone());
    to_pcma(&mut d.media_sections[0]);
    d.media_sections[1].direction = Direction::Inactive;
    v.push(d);
    // 3: offer with non-numeric mids
    let mut d = base.clone();
    d.sdp_type = SdpType::Offer;
    d.media_sections[0].mid = "audio0".into();
    v.push(d);
    // 4: offer with an application section (data channel) after the audio section
    let mut d = base.clone();
    d.sdp_type = SdpType::Offer;
    let mut app = MediaSection::new(MediaKind::Application, "1");
    app.protocol = "UDP/DTLS/SCTP".into();
    app.formats = vec!["webrtc-datachannel".into()];
    app.attributes = d.media_sections[0].attributes.iter().filter(|a| matches!(a.key.as_str(), "ice-ufrag" | "ice-pwd" | "fingerprint" | "setup")).cloned().collect();
    app.attributes.push(Attribute::new("sctp-port", Some("5000".into())));
    d.media_sections.push(app);
    v.push(d);
    // 5/6: WebRTC fingerprint classes: none, unparsable
    let mut d = base.clone();
    d.sdp_type = SdpType::Offer;
    for s in &mut d.media_sections { s.attributes.retain(|a| a.key != "fingerprint"); }
    d.session.attributes.retain(|a| a.key != "fingerprint");
    v.push(d);
    let mut d = base.clone();
    d.sdp_type = SdpType::Offer;
    if *mode == TransportMode::WebRtc {
        for s in &mut d.media_sections { for a in &mut s.attributes { if a.key == "fingerprint" { a.value = Some("sha-256 ZZ:11".into()); } } }
    }
    v.push(d);
    // 7: offer with two sections carrying the same mid but different kinds
    let mut d = base.clone();
    d.sdp_type = SdpType::Offer;
    let mut vs = d.media_sections[0].clone();
    vs.kind = MediaKind::Video;
    d.media_sections.push(vs);
    v.push(d);
    // 8: answer with more sections than transceivers, high mids
    let mut d = base.clone();
    d.sdp_type = SdpType::Answer;
    let mut vs = d.media_sections[0].clone();
    vs.mid = "65000".into();
    to_pcma(&mut vs);
    d.media_sections.push(vs);
    v.push(d);
    // 9/10: offer / answer whose m-line carries no usable codec (empty payload map), extmaps kept
    let mut d = base.clone();
    d.sdp_type = SdpType::Offer;
    to_no_codecs(&mut d.media_sections[0]);
    v.push(d.clone());
    d.sdp_type = SdpType::Answer;
    d.media_sections[0].direction = Direction::RecvOnly;
    v.push(d);
    // 11: offer without any m-line
    let mut d = base.clone();
    d.sdp_type = SdpType::Offer;
    d.media_sections.clear();
    v.push(d);
    // 12/13: local offers for a connection with audio+video transceivers: audio only, then audio+video
    let mut d = base.clone();
    d.sdp_type = SdpType::Offer;
    v.push(d.clone());
    let mut vs = d.media_sections[0].clone();
    vs.kind = MediaKind::Video;
    vs.mid = "1".into();
    vs.formats = vec!["96".into()];
    vs.attributes.retain(|a| !matches!(a.key.as_str(), "rtpmap" | "fmtp" | "ssrc" | "msid"));
    vs.attributes.push(Attribute::new("rtpmap", Some("96 VP8/90000".into())));
    d.media_sections.push(vs);
    v.push(d);
    v
}

// ---------------------------------------------------------------- live pair (DTLS really started)
/// Two WebRTC-mode connections on loopback negotiate and connect; then the answerer receives a
/// remote re-offer whose fingerprint differs (must be refused without any change), and one with
/// the same fingerprint and other codecs (applied).  The sequence is emitted for the model with
/// `EnvDtlsStarted` where the transports came up.
async fn live_pair(out: &mut Out, it: &mut Interner) -> serde_json::Value {
    let cfg = Cfg { mode: TransportMode::WebRtc, init: vec![(MediaKind::Audio, TransceiverDirection::SendRecv)], bad_env: false, one_port: false };
    let a = cfg.make();
    let b = cfg.make();
    let init = snapshot(&b);
    let mut steps: Vec<Step> = vec![];
    let _ = a.create_offer().await;
    let _ = tokio::time::timeout(Duration::from_secs(5), a.wait_for_gathering_complete()).await;
    let offer = match a.create_offer().await { Ok(o) => o, Err(e) => return json!({"live_pair": format!("skipped: {e}")}) };
    if a.set_local_description(offer.clone()).is_err() { return json!({"live_pair": "skipped: set_local failed"}); }
    macro_rules! rec {
        ($name:expr, $term:expr, $kind:expr, $res:expr, $before:expr) => {{
            let after = snapshot(&b);
            steps.push(Step { name: $name.to_string(), call_term: $term, kind: $kind, res: $res, before: $before, after });
        }};
    }
    let before = snapshot(&b);
    let t = format!("SetRemote {} false", desc_term(it, &offer));
    let r = match b.set_remote_description(offer.clone()).await { Ok(()) => Res::Ok, Err(e) => classify(&e) };
    rec!("set_remote(offer from A)", t, Kind::SetRemote(SdpType::Offer), r, before);
    let before = snapshot(&b);
    let r = match b.create_answer().await { Ok(_) => Res::Ok, Err(e) => classify(&e) };
    rec!("create_answer", "CreateAnswer false".to_string(), Kind::CreateAnswer, r, before);
    let _ = tokio::time::timeout(Duration::from_secs(5), b.wait_for_gathering_complete()).await;
    let before = snapshot(&b);
    let answer = b.create_answer().await;
    let (answer, r) = match answer { Ok(d) => (Some(d), Res::Ok), Err(e) => (None, classify(&e)) };
    rec!("create_answer", "CreateAnswer false".to_string(), Kind::CreateAnswer, r, before);
    let Some(answer) = answer else { return json!({"live_pair": "skipped: no answer"}); };
    let before = snapshot(&b);
    let t = format!("SetLocal {}", desc_term(it, &answer));
    let r = match b.set_local_description(answer.clone()) { Ok(()) => Res::Ok, Err(e) => classify(&e) };
    rec!("set_local(answer)", t, Kind::SetLocal(SdpType::Answer), r, before);
    let _ = a.set_remote_description(answer).await;
    let conn = tokio::time::timeout(Duration::from_secs(8), async { tokio::try_join!(a.wait_for_connected(), b.wait_for_connected()) }).await;
    let connected = matches!(conn, Ok(Ok(_)));
    if !connected {
        a.close();
        b.close();
        return json!({"live_pair": "skipped: the pair did not connect on loopback within 8 s"});
    }
    let before = snapshot(&b);
    rec!("(environment) DTLS transport started", "EnvDtlsStarted".to_string(), Kind::Env, Res::Ok, before);
    // re-offer with another certificate fingerprint and other codecs
    let other_fp = "sha-256 00:11:22:33:44:55:66:77:88:99:AA:BB:CC:DD:EE:FF:00:11:22:33:44:55:66:77:88:99:AA:BB:CC:DD:EE:FF";
    let mut o2 = offer.clone();
    for s in &mut o2.media_sections {
        to_pcma(s);
        for at in &mut s.attributes { if at.key == "fingerprint" { at.value = Some(other_fp.into()); } }
    }
    for at in &mut o2.session.attributes { if at.key == "fingerprint" { at.value = Some(other_fp.into()); } }
    let before = snapshot(&b);
    let t = format!("SetRemote {} false", desc_term(it, &o2));
    let r = match b.set_remote_description(o2).await { Ok(()) => Res::Ok, Err(e) => classify(&e) };
    rec!("set_remote(re-offer, other fingerprint, other codecs)", t, Kind::SetRemote(SdpType::Offer), r, before);
    // the same re-offer as answer / pranswer in the wrong state
    let mut o3 = offer.clone();
    for s in &mut o3.media_sections { to_pcma(s); }
    let mut o3a = o3.clone();
    o3a.sdp_type = SdpType::Answer;
    let before = snapshot(&b);
    let t = format!("SetRemote {} false", desc_term(it, &o3a));
    let r = match b.set_remote_description(o3a).await { Ok(()) => Res::Ok, Err(e) => classify(&e) };
    rec!("set_remote(answer, other codecs) in stable", t, Kind::SetRemote(SdpType::Answer), r, before);
    // genuine re-offer: same fingerprint, other codecs
    let before = snapshot(&b);
    let t = format!("SetRemote {} false", desc_term(it, &o3));
    let r = match b.set_remote_description(o3).await { Ok(()) => Res::Ok, Err(e) => classify(&e) };
    rec!("set_remote(re-offer, same fingerprint, other codecs)", t, Kind::SetRemote(SdpType::Offer), r, before);
    let before = snapshot(&b);
    let r = match b.create_answer().await { Ok(_) => Res::Ok, Err(e) => classify(&e) };
    rec!("create_answer", "CreateAnswer false".to_string(), Kind::CreateAnswer, r, before);
    let (probe, probe_env) = probe_mid(&b).await;
    a.close();
    b.close();
    let names: Vec<String> = steps.iter().map(|s| s.name.clone()).collect();
    let tr = Trace { steps, probe, probe_env, init };
    let (fail, known) = oracle(&tr, None);
    let refused = matches!(&tr.steps[5].res, Res::Err("EInvalidState", m) if m.contains("fingerprint"));
    let fail = fail.or(if refused { None } else { Some(format!("live pair: the re-offer with another fingerprint was not refused with InvalidState after DTLS start: {:?}", tr.steps[5].res)) });
    emit(out, it, &cfg, names, &tr, "corpus-live", fail, known);
    json!({"live_pair": "connected; fingerprint-change re-offer replayed", "refused": refused})
}

// ---------------------------------------------------------------- main
fn all_seqs(alpha: &[Letter], max_len: usize) -> Vec<Vec<Letter>> {
    let mut out: Vec<Vec<Letter>> = vec![];
    let mut frontier: Vec<Vec<Letter>> = vec![vec![]];
    for _ in 0..max_len {
        let mut next = vec![];
        for p in &frontier {
            for l in alpha {
                let mut q = p.clone();
                q.push(l.clone());
                next.push(q);
            }
        }
        out.extend(next.iter().cloned());
        frontier = next;
    }
    out
}

// ---------------------------------------------------------------- racing calls (two OS threads)
#[derive(Clone, Copy, Debug, PartialEq)]
enum RaceOp { SetLocalOffer, SetRemoteOffer, CreateOffer, Close }
fn race_kind(o: RaceOp) -> Kind {
    match o { RaceOp::SetLocalOffer => Kind::SetLocal(SdpType::Offer), RaceOp::SetRemoteOffer => Kind::SetRemote(SdpType::Offer), RaceOp::CreateOffer => Kind::CreateOffer, RaceOp::Close => Kind::Close }
}
/// Is (results, final state) the outcome of SOME sequential order of the two calls under the JSEP
/// table?  A call the table allows may return Err only because the operation lock was busy.
/// the JSEP self-loops this API documents as refused (InvalidState, state unchanged)
fn refused_though_allowed(q: SignalingState, k: Kind) -> bool {
    use SignalingState::*;
    matches!((q, k), (HaveLocalOffer, Kind::SetLocal(SdpType::Offer)) | (HaveRemoteOffer, Kind::SetRemote(SdpType::Offer))
        | (HaveLocalOffer, Kind::CreateOffer) | (HaveRemoteOffer, Kind::CreateOffer))
}
fn linearizable(ops: [RaceOp; 2], res: [&Res; 2], fin: SignalingState) -> bool {
    for order in [[0usize, 1], [1, 0]] {
        let mut q = SignalingState::Stable;
        let mut ok = true;
        for &i in &order {
            let is_err = matches!(res[i], Res::Err(..));
            match jsep(q, race_kind(ops[i])) {
                Some(q2) => {
                    if !is_err { q = q2; }
                    else if !(matches!(res[i], Res::Err(_, m) if m.contains("in progress")) || refused_though_allowed(q, race_kind(ops[i]))) { ok = false; }
                }
                None => { if !is_err { ok = false; } }
            }
        }
        if ok && q == fin { return true; }
    }
    false
}
fn run_races(out: &mut Out, thorough: bool) -> serde_json::Value {
    use std::sync::atomic::{AtomicUsize, Ordering};
    use std::sync::Arc;
    let rt = tokio::runtime::Builder::new_multi_thread().worker_threads(2).enable_all().build().unwrap();
    let cfg = Cfg { mode: TransportMode::Rtp, init: vec![(MediaKind::Audio, TransceiverDirection::SendRecv)], bad_env: false, one_port: false };
    let (local_offer, remote_offer) = rt.block_on(async {
        let a = cfg.make();
        let lo = a.create_offer().await.expect("offer");
        let b = cfg.make();
        let ro = b.create_offer().await.expect("offer");
        a.close();
        b.close();
        (lo, ro)
    });
    let mul = if thorough { 5 } else { 1 };
    // (op of thread 1, op of thread 2, spin iterations thread 1 waits after the barrier, trials)
    let plan: Vec<(RaceOp, RaceOp, u64, usize)> = vec![
        (RaceOp::SetLocalOffer, RaceOp::SetRemoteOffer, 500, 1000 * mul), (RaceOp::SetLocalOffer, RaceOp::SetRemoteOffer, 200, 500 * mul),
        (RaceOp::SetLocalOffer, RaceOp::SetRemoteOffer, 0, 200 * mul),
        (RaceOp::SetLocalOffer, RaceOp::Close, 0, 400 * mul), (RaceOp::SetLocalOffer, RaceOp::Close, 100, 300 * mul),
        (RaceOp::CreateOffer, RaceOp::SetRemoteOffer, 0, 200 * mul), (RaceOp::SetRemoteOffer, RaceOp::Close, 0, 200 * mul),
    ];
    let mut summary = serde_json::Map::new();
    for (o1, o2, skew, trials) in plan {
        let mut outcomes: BTreeMap<String, (u64, bool, String)> = BTreeMap::new();
        for _ in 0..trials {
            let pc = rt.block_on(async { cfg.make() });
            let gate = Arc::new(AtomicUsize::new(0));
            let run = |op: RaceOp, pc: PeerConnection, gate: Arc<AtomicUsize>, wait: u64, lo: SessionDescription, ro: SessionDescription, h: tokio::runtime::Handle| {
                std::thread::spawn(move || {
                    gate.fetch_add(1, Ordering::SeqCst);
                    while gate.load(Ordering::SeqCst) < 2 { std::hint::spin_loop(); }
                    for _ in 0..wait { std::hint::spin_loop(); }
                    match op {
                        RaceOp::SetLocalOffer => match catch(AssertUnwindSafe(|| pc.set_local_description(lo))) { Ok(Ok(())) => Res::Ok, Ok(Err(e)) => classify(&e), Err(p) => Res::Panic(p) },
                        RaceOp::SetRemoteOffer => match h.block_on(guarded(pc.set_remote_description(ro))) { Ok(()) => Res::Ok, Err(e) => e },
                        RaceOp::CreateOffer => match h.block_on(guarded(pc.create_offer())) { Ok(_) => Res::Ok, Err(e) => e },
                        RaceOp::Close => { pc.close(); Res::Ok }
                    }
                })
            };
            let t1 = run(o1, pc.clone(), gate.clone(), skew, local_offer.clone(), remote_offer.clone(), rt.handle().clone());
            let t2 = run(o2, pc.clone(), gate.clone(), 0, local_offer.clone(), remote_offer.clone(), rt.handle().clone());
            let r1 = t1.join().unwrap_or(Res::Panic("thread".into()));
            let r2 = t2.join().unwrap_or(Res::Panic("thread".into()));
            let fin = pc.signaling_state();
            let lin = linearizable([o1, o2], [&r1, &r2], fin);
            let short = |r: &Res| match r { Res::Ok => "Ok".to_string(), Res::Err(c, m) => if m.contains("in progress") { "Err(busy)".to_string() } else { format!("Err({})", c) }, Res::Panic(_) => "PANIC".to_string() };
            let key = format!("{}|{}|{:?}", short(&r1), short(&r2), fin);
            let e = outcomes.entry(key).or_insert((0, lin, format!("{:?} / {:?}", r1, r2)));
            e.0 += 1;
            pc.close();
        }
        let name = format!("{:?} || {:?} (thread 1 delayed by {} spins)", o1, o2, skew);
        for (k, (n, lin, detail)) in &outcomes {
            let fail = if *lin { None } else {
                Some(format!("racing {}: outcome [result 1 | result 2 | final state] = [{}] ({} of {} trials) is not the outcome of any sequential order of the two calls ({})", name, k, n, trials, detail))
            };
            out.push(Case { term: "-".into(), desc: json!({"race": name, "outcome": k, "count": n, "trials": trials}), oracle_fail: fail, known: None,
                nontrivial: true, key: format!("race|{}|{}", name, k), kind: "race".into() });
        }
        summary.insert(name, json!(outcomes.iter().map(|(k, v)| (k.clone(), v.0)).collect::<BTreeMap<_, _>>()));
    }
    serde_json::Value::Object(summary)
}

fn main() {
    let args = parse_args();
    silence_panics();
    let mut out = Out::new(&args.out);
    let races = run_races(&mut out, args.tier == "thorough");
    let rt = tokio::runtime::Builder::new_current_thread().enable_all().build().unwrap();
    rt.block_on(async_main(args, out, races));
}

async fn async_main(args: Args, mut out: Out, races: serde_json::Value) {
    let mut r = Rng::new(args.seed);
    let thorough = args.tier == "thorough";
    let mut it = Interner::default();
    let alpha = alphabet();
    let audio = (MediaKind::Audio, TransceiverDirection::SendRecv);
    let video = (MediaKind::Video, TransceiverDirection::RecvOnly);
    let modes = [TransportMode::Rtp, TransportMode::Srtp, TransportMode::WebRtc];
    let inits: Vec<Vec<(MediaKind, TransceiverDirection)>> = vec![vec![audio], vec![], vec![audio, video]];

    let mut stats: BTreeMap<String, u64> = BTreeMap::new();
    let mut per_cfg: BTreeMap<String, u64> = BTreeMap::new();
    let mut err_calls = 0u64;
    let mut ok_calls = 0u64;
    let mut lens: BTreeMap<usize, u64> = BTreeMap::new();

    // jobs: (kind, cfg, sequence)
    let mut jobs: Vec<(String, Cfg, Vec<Letter>)> = vec![];
    let off_prefix = vec![Letter::CreateOffer, Letter::SetLocal(SdpType::Offer, LocalVar::Own), Letter::SetRemote(SdpType::Answer, RemoteVar::Base)];
    let ans_prefix = vec![Letter::SetRemote(SdpType::Offer, RemoteVar::Base), Letter::CreateAnswer, Letter::SetLocal(SdpType::Answer, LocalVar::Own)];

    // ---- corpus (witnesses first)
    let c_rtp = Cfg { mode: TransportMode::Rtp, init: vec![audio], bad_env: false, one_port: false };
    let c_bad = Cfg { mode: TransportMode::Rtp, init: vec![audio], bad_env: true, one_port: false };
    for m in &modes {
        let c = Cfg { mode: m.clone(), init: vec![audio], bad_env: false, one_port: false };
        // F13: [create_offer; set_local(offer); set_local(offer')]
        jobs.push(("corpus".into(), c.clone(), vec![Letter::CreateOffer, Letter::SetLocal(SdpType::Offer, LocalVar::Own), Letter::SetLocal(SdpType::Offer, LocalVar::Changed)]));
        // mid counter: rejected answer with mid 7 / rejected answer with mids 0 and 5
        jobs.push(("corpus".into(), c.clone(), vec![Letter::SetRemoteRaw(0)]));
        jobs.push(("corpus".into(), c.clone(), vec![Letter::SetRemote(SdpType::Answer, RemoteVar::Changed)]));
        for raw in 1..9usize {
            jobs.push(("corpus".into(), c.clone(), vec![Letter::SetRemoteRaw(raw), Letter::CreateAnswer, Letter::SetLocal(SdpType::Answer, LocalVar::Own), Letter::SetRemote(SdpType::Offer, RemoteVar::Changed)]));
        }
        let c2 = Cfg { mode: m.clone(), init: vec![audio, video], bad_env: false, one_port: false };
        jobs.push(("corpus".into(), c2.clone(), vec![Letter::SetRemoteRaw(1), Letter::CreateAnswer, Letter::SetLocal(SdpType::Pranswer, LocalVar::Own), Letter::SetLocal(SdpType::Answer, LocalVar::Own), Letter::SetRemoteRaw(2), Letter::CreateAnswer, Letter::SetLocal(SdpType::Answer, LocalVar::Changed)]));
        jobs.push(("corpus".into(), c2.clone(), vec![Letter::CreateOffer, Letter::SetLocal(SdpType::Offer, LocalVar::Own), Letter::SetRemoteRaw(8), Letter::CreateOffer, Letter::SetLocal(SdpType::Offer, LocalVar::Changed), Letter::SetRemote(SdpType::Pranswer, RemoteVar::Changed), Letter::SetRemote(SdpType::Answer, RemoteVar::Base)]));
        // empty payload maps on every path (initial / re-offer / answer), also in WebRTC mode
        jobs.push(("corpus".into(), c.clone(), vec![Letter::SetRemoteRaw(9), Letter::CreateAnswer, Letter::SetLocal(SdpType::Answer, LocalVar::Own), Letter::SetRemote(SdpType::Offer, RemoteVar::Base), Letter::CreateAnswer, Letter::SetLocal(SdpType::Answer, LocalVar::Own), Letter::SetRemoteRaw(9)]));
        jobs.push(("corpus".into(), c.clone(), vec![Letter::CreateOffer, Letter::SetLocal(SdpType::Offer, LocalVar::Own), Letter::SetRemote(SdpType::Pranswer, RemoteVar::Base), Letter::SetRemoteRaw(10), Letter::CreateOffer, Letter::SetLocal(SdpType::Offer, LocalVar::NoCodecs), Letter::SetRemoteRaw(10)]));
        // offer without m-lines: create_answer with / without transceivers
        jobs.push(("corpus".into(), c.clone(), vec![Letter::SetRemoteRaw(11), Letter::CreateAnswer]));
        jobs.push(("corpus".into(), Cfg { mode: m.clone(), init: vec![], bad_env: false, one_port: false }, vec![Letter::SetRemoteRaw(11), Letter::CreateAnswer]));
        // re-offer with a data-channel m-line after a completed negotiation (matched_rtp skips it)
        let mut q = ans_prefix.clone();
        q.extend(vec![Letter::SetRemoteRaw(4), Letter::CreateAnswer, Letter::SetLocal(SdpType::Answer, LocalVar::Own), Letter::SetRemoteRaw(4), Letter::SetRemote(SdpType::Offer, RemoteVar::Base)]);
        jobs.push(("corpus".into(), c.clone(), q));
        // local re-offer that introduces a mid for a transceiver that has none yet
        jobs.push(("corpus".into(), c2.clone(), vec![Letter::SetLocalRaw(12), Letter::SetRemote(SdpType::Answer, RemoteVar::Base), Letter::SetLocalRaw(13), Letter::SetRemote(SdpType::Answer, RemoteVar::Changed), Letter::CreateOffer]));
        // a long re-negotiation chain, roles alternating
        let mut chain = off_prefix.clone();
        chain.extend(vec![Letter::SetRemote(SdpType::Offer, RemoteVar::Changed), Letter::CreateAnswer, Letter::SetLocal(SdpType::Pranswer, LocalVar::Own), Letter::SetLocal(SdpType::Answer, LocalVar::Own),
            Letter::CreateOffer, Letter::SetLocal(SdpType::Offer, LocalVar::Changed), Letter::SetRemote(SdpType::Pranswer, RemoteVar::Changed), Letter::SetRemote(SdpType::Answer, RemoteVar::Base), Letter::Close, Letter::CreateOffer]);
        jobs.push(("corpus".into(), c.clone(), chain));
    }
    // environment failure (listed finding): bind() fails
    jobs.push(("corpus".into(), c_bad.clone(), vec![Letter::SetRemote(SdpType::Offer, RemoteVar::Base)]));
    jobs.push(("corpus".into(), c_bad.clone(), vec![Letter::CreateOffer]));
    jobs.push(("corpus".into(), c_bad.clone(), vec![Letter::SetRemote(SdpType::Offer, RemoteVar::Base), Letter::CreateAnswer, Letter::SetRemote(SdpType::Offer, RemoteVar::Changed)]));

    // SRTP mode: start_direct finds no local candidate (about 2 s per call, hence corpus only)
    let c_bad_srtp = Cfg { mode: TransportMode::Srtp, init: vec![audio], bad_env: true, one_port: false };
    jobs.push(("corpus".into(), c_bad_srtp.clone(), vec![Letter::SetRemote(SdpType::Offer, RemoteVar::Base), Letter::Close]));

    // ---- exhaustive enumerations
    for s in all_seqs(&alpha, 3) { jobs.push(("exhaustive".into(), c_rtp.clone(), s)); }
    if thorough {
        // length 4 over one representative per call kind (11 letters)
        let core: Vec<Letter> = alpha.iter().cloned().filter(|l| match l {
            Letter::SetLocal(_, v) => *v == LocalVar::Own,
            Letter::SetRemote(SdpType::Offer, v) | Letter::SetRemote(SdpType::Answer, v) | Letter::SetRemote(SdpType::Pranswer, v) => *v == RemoteVar::Changed,
            _ => true }).collect();
        for s in all_seqs(&core, 4).into_iter().filter(|s| s.len() == 4) { jobs.push(("exhaustive-core4".into(), c_rtp.clone(), s)); }
    }
    if thorough {
        // length 5 over 8 letters on a fresh RTP connection
        let small: Vec<Letter> = vec![Letter::CreateOffer, Letter::CreateAnswer, Letter::Close,
            Letter::SetLocal(SdpType::Offer, LocalVar::Own), Letter::SetLocal(SdpType::Answer, LocalVar::Changed),
            Letter::SetRemote(SdpType::Offer, RemoteVar::Changed), Letter::SetRemote(SdpType::Answer, RemoteVar::Base), Letter::SetRemote(SdpType::Pranswer, RemoteVar::Changed)];
        for s in all_seqs(&small, 5).into_iter().filter(|s| s.len() == 5) { jobs.push(("exhaustive-small5".into(), c_rtp.clone(), s)); }
    }
    for m in &modes {
        for init in &inits {
            let c = Cfg { mode: m.clone(), init: init.clone(), bad_env: false, one_port: false };
            if c == c_rtp { continue; }
            let depth = if thorough { 3 } else { 2 };
            for s in all_seqs(&alpha, depth) { jobs.push(("exhaustive".into(), c.clone(), s)); }
        }
    }
    for s in all_seqs(&alpha, if thorough { 3 } else { 2 }) { jobs.push(("exhaustive-badenv".into(), c_bad.clone(), s)); }
    // previously negotiated connections
    for m in &modes {
        let c = Cfg { mode: m.clone(), init: vec![audio], bad_env: false, one_port: false };
        let neg_depth = if thorough && *m == TransportMode::Rtp { 3 } else { 2 };
        for pre in [&off_prefix, &ans_prefix] {
            jobs.push(("negotiated".into(), c.clone(), pre.clone()));
            for s in all_seqs(&alpha, neg_depth) {
                let mut q = pre.clone();
                q.extend(s);
                jobs.push(("negotiated".into(), c.clone(), q));
            }
        }
    }
    // ---- calls after close(): every later call must return Err and change nothing
    for m in &modes {
        let c = Cfg { mode: m.clone(), init: vec![audio], bad_env: false, one_port: false };
        let depth = if *m == TransportMode::Rtp || thorough { 2 } else { 1 };
        let mut pres: Vec<Vec<Letter>> = vec![vec![Letter::CreateOffer, Letter::Close], vec![Letter::SetRemote(SdpType::Offer, RemoteVar::Base), Letter::Close],
            vec![Letter::CreateOffer, Letter::SetLocal(SdpType::Offer, LocalVar::Own), Letter::Close]];
        let mut p = off_prefix.clone(); p.push(Letter::Close); pres.push(p);
        let mut p = ans_prefix.clone(); p.push(Letter::Close); pres.push(p);
        for pre in &pres {
            for s in all_seqs(&alpha, depth) {
                let mut q = pre.clone();
                q.extend(s);
                jobs.push(("after-close".into(), c.clone(), q));
            }
        }
    }
    // ---- application-edited local descriptions: mids swapped between kinds / renamed, an m-line
    // dropped / duplicated, direction flipped, applied as offer / answer / pranswer at four points
    {
        let edits = [LocalVar::SwapMids, LocalVar::RenameMid, LocalVar::DropSection, LocalVar::DupSection, LocalVar::FlipDir];
        let tys = [SdpType::Offer, SdpType::Answer, SdpType::Pranswer];
        let after: Vec<Vec<Letter>> = vec![vec![], vec![Letter::CreateOffer], vec![Letter::SetRemote(SdpType::Answer, RemoteVar::Base)],
            vec![Letter::SetLocal(SdpType::Offer, LocalVar::Own)], vec![Letter::CreateAnswer, Letter::SetLocal(SdpType::Answer, LocalVar::Own)]];
        for m in &modes {
            for init in [vec![audio, video], vec![audio]] {
                let c = Cfg { mode: m.clone(), init: init.clone(), bad_env: false, one_port: false };
                let pres: Vec<Vec<Letter>> = vec![vec![], vec![Letter::CreateOffer], off_prefix.clone(),
                    { let mut p = off_prefix.clone(); p.push(Letter::CreateOffer); p }, vec![Letter::SetRemote(SdpType::Offer, RemoteVar::Base), Letter::CreateAnswer]];
                for pre in &pres {
                    for e in edits {
                        for t in tys {
                            for suf in &after {
                                if init.len() == 1 && !suf.is_empty() && suf.len() != 1 { continue; }
                                let mut q = pre.clone();
                                q.push(Letter::SetLocal(t, e));
                                q.extend(suf.clone());
                                jobs.push(("edited-local".into(), c.clone(), q));
                            }
                        }
                    }
                }
            }
        }
    }
    // ---- one usable RTP port: the first media socket binds, the socket of an added non-bundled
    // m-line does not -- a re-INVITE on a negotiated connection that fails LATE (after handle_reinvite)
    {
        let c1 = Cfg { mode: TransportMode::Rtp, init: vec![audio], bad_env: false, one_port: true };
        for pre in [&ans_prefix, &off_prefix] {
            let mut q = pre.clone();
            q.push(Letter::SetRemote(SdpType::Offer, RemoteVar::Changed));
            jobs.insert(0, ("corpus".into(), c1.clone(), q));
            for s in all_seqs(&alpha, if thorough { 3 } else { 2 }) {
                let mut q = pre.clone();
                q.extend(s);
                jobs.push(("negotiated-oneport".into(), c1.clone(), q));
            }
        }
        // offerer side: changed answer / pranswer to a re-offer
        let mut q = off_prefix.clone();
        q.extend(vec![Letter::CreateOffer, Letter::SetLocal(SdpType::Offer, LocalVar::Own), Letter::SetRemote(SdpType::Pranswer, RemoteVar::Changed), Letter::SetRemote(SdpType::Answer, RemoteVar::Changed)]);
        jobs.insert(0, ("corpus".into(), c1.clone(), q));
    }
    // ---- random longer sequences, weighted towards calls that are accepted in the current state
    let nrand = if thorough { 12000 } else { 1500 };
    for _ in 0..nrand {
        let c = Cfg { mode: r.pick(&modes).clone(), init: r.pick(&inits).clone(), bad_env: r.chance(1, 12), one_port: false };
        let c = if c.bad_env && c.mode != TransportMode::Rtp { Cfg { bad_env: false, ..c } } else { c };
        let n = r.range(4, if thorough { 10 } else { 7 }) as usize;
        let mut s = vec![];
        if r.chance(1, 3) { s.extend(if r.chance(1, 2) { off_prefix.clone() } else { ans_prefix.clone() }); }
        for _ in 0..n { s.push(r.pick(&alpha).clone()); }
        jobs.push(("random".into(), c, s));
    }

    // ---- run
    let mut worlds: HashMap<String, World> = HashMap::new();
    let mut probes: HashMap<String, Option<String>> = HashMap::new();
    let pkey = |c: &Cfg, s: &[Letter]| format!("{}|{}", c.key(), s.iter().map(letter_name).collect::<Vec<_>>().join(";"));
    let mut known_hits = 0u64;
    let live = live_pair(&mut out, &mut it).await;
    for (kind, cfg, seq) in jobs {
        if !worlds.contains_key(&cfg.key()) {
            let remote = make_remote(&cfg).await;
            let canned_local = make_canned_local(&cfg).await;
            let raw = raw_descs(&remote.base, &cfg.mode);
            worlds.insert(cfg.key(), World { remote, canned_local, raw });
        }
        let w = &worlds[&cfg.key()];
        let tr = run_seq(&cfg, w, &mut it, &seq).await;
        probes.insert(pkey(&cfg, &seq), tr.probe.clone());
        // twin for the mid-counter oracle: the same sequence without its last (rejected) call
        let mut twin: Option<Option<String>> = None;
        if let Some(last) = tr.steps.last() {
            if matches!(last.res, Res::Err(..)) {
                let pre = seq[..seq.len() - 1].to_vec();
                let k = pkey(&cfg, &pre);
                if !probes.contains_key(&k) {
                    let t2 = run_seq(&cfg, w, &mut it, &pre).await;
                    probes.insert(k.clone(), t2.probe.clone());
                }
                twin = Some(probes[&k].clone());
            }
        }
        let (fail, known) = oracle(&tr, twin.as_ref());
        if known.is_some() { known_hits += 1; }
        for st in &tr.steps {
            *stats.entry(st.name.clone()).or_default() += 1;
            if matches!(st.res, Res::Err(..)) { err_calls += 1 } else { ok_calls += 1 }
        }
        *per_cfg.entry(cfg.key()).or_default() += 1;
        *lens.entry(seq.len()).or_default() += 1;
        emit(&mut out, &mut it, &cfg, seq.iter().map(letter_name).collect(), &tr, &kind, fail, known);
    }
    out.finish(json!({"generator": {"alphabet": alpha.iter().map(letter_name).collect::<Vec<_>>(), "calls_by_letter": stats, "cases_by_config": per_cfg,
        "sequence_lengths": lens, "calls_ok": ok_calls, "calls_err": err_calls, "cases_hitting_listed_finding": known_hits, "distinct_tokens": it.map.len(), "live": live, "races": races}}));
}
