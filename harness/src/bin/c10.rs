//! C10 — any two compatibly configured endpoints connect and exchange data and media.
//!
//! For one point of the configuration lattice (`Model/Lattice.v`): build both real `PeerConnection`s,
//! run a complete non-trickle offer/answer exchange through SDP *text*, wait for Connected on both,
//! send one data-channel message and one RTP packet per media kind in each direction, and read what the
//! live pair derived (a=setup, BUNDLE, rtcp-mux, DTLS roles, use_srtp profile, DTLS exporter output,
//! SDES key material, installed SRTP keys).  The direct oracle checks the property text on those
//! observations; the same observations go to the Coq model (`Run/C10Run.v`), which must predict them
//! from the lattice point alone.
//!
//! quick: a pairwise covering array over the lattice options (+ a fixed corpus); thorough: the full
//! lattice.  Every point runs in its own tokio runtime, several at a time; a failed point is retried
//! once before it is reported.
use bytes::Bytes;
use rustrtc::media::frame::{AudioFrame, MediaSample, VideoFrame};
use rustrtc::media::track::sample_track;
use rustrtc::media::MediaStreamTrack;
use rustrtc::transports::dtls::DtlsState;
use rustrtc::transports::ice::IceGathererState;
use rustrtc::transports::sctp::{DataChannel, DataChannelConfig, DataChannelEvent};
use rustrtc::{
    BundlePolicy, IceTcpPolicy, MediaKind, PeerConnection, RtcConfiguration, RtcpMuxPolicy, RtpCodecParameters,
    SdpCompatibilityMode, SdpType, SessionDescription, TransportMode,
};
use serde_json::json;
use std::collections::{BTreeMap, BTreeSet};
use std::sync::atomic::{AtomicUsize, Ordering};
use std::sync::{Arc, Mutex};
use std::time::{Duration, Instant};
use vh::*;

// ------------------------------------------------------------------------------------ the lattice (mirrors Model/Lattice.v)
const MODES: [&str; 3] = ["WebRtc", "Srtp", "Rtp"];
const MIXES: [&str; 7] = ["data", "audio", "video", "audio_video", "data_audio", "data_video", "data_audio_video"];
const BUNDLES: [&str; 3] = ["Balanced", "MaxCompat", "MaxBundle"];
const MUXES: [&str; 2] = ["Require", "Negotiate"];
const TCPS: [&str; 3] = ["Disabled", "Enabled", "PassiveOnly"];
const COMPATS: [&str; 2] = ["Standard", "LegacySip"];

const NF: usize = 14;
#[derive(Clone, Copy, Debug, PartialEq, Eq, PartialOrd, Ord, Hash)]
struct Point {
    mode: usize,
    mix: usize,
    bundle: usize,
    mux: usize,
    ice_lite: bool,
    tcp: usize,
    udp_mux: bool,
    latching: bool,
    compat: usize,
    s_offers: bool,
    mux_p: usize,      // rtcp-mux policy of the peer P (mux is S's)
    compat_p: usize,   // SDP compatibility mode of the peer P (compat is S's)
    tcp_only: bool,    // ice_gather_udp_hosts = false on both ends (ICE-TCP is the only path)
    dcep: bool,        // the data channel is opened in-band (DCEP) by the offerer instead of negotiated on both ends
}

impl Point {
    fn has_data(&self) -> bool { matches!(self.mix, 0 | 4 | 5 | 6) }
    fn has_audio(&self) -> bool { matches!(self.mix, 1 | 3 | 4 | 6) }
    fn has_video(&self) -> bool { matches!(self.mix, 2 | 3 | 5 | 6) }
    fn webrtc(&self) -> bool { self.mode == 0 }
    /// transcription of `point_valid` (the Coq side re-checks it on every case)
    fn valid(&self) -> bool {
        let cfg_wf = (!self.udp_mux || self.webrtc()) && (self.tcp == 0 || self.webrtc())
            && (!self.tcp_only || (self.tcp == 1 && !self.udp_mux));
        let mix_wf = !self.has_data() || self.webrtc();
        let canonical = (self.ice_lite || self.udp_mux || self.s_offers) && (!self.dcep || self.has_data());
        cfg_wf && mix_wf && canonical
    }
    fn fields(&self) -> [usize; NF] {
        [self.mode, self.mix, self.bundle, self.mux, self.ice_lite as usize, self.tcp, self.udp_mux as usize,
         self.latching as usize, self.compat, self.s_offers as usize, self.mux_p, self.compat_p,
         self.tcp_only as usize, self.dcep as usize]
    }
    fn term(&self) -> String {
        format!(
            "(mkPoint TransportMode_{} Mix_{} BundlePolicy_{} RtcpMuxPolicy_{} {} IceTcpPolicy_{} {} {} SdpCompatibilityMode_{} {} RtcpMuxPolicy_{} SdpCompatibilityMode_{} {} {})",
            MODES[self.mode], MIXES[self.mix], BUNDLES[self.bundle], MUXES[self.mux], bool_term(self.ice_lite),
            TCPS[self.tcp], bool_term(self.udp_mux), bool_term(self.latching), COMPATS[self.compat], bool_term(self.s_offers),
            MUXES[self.mux_p], COMPATS[self.compat_p], bool_term(self.tcp_only), bool_term(self.dcep)
        )
    }
    fn json(&self) -> serde_json::Value {
        json!({"mode": MODES[self.mode], "mix": MIXES[self.mix], "bundle_policy": BUNDLES[self.bundle],
               "rtcp_mux_policy_S": MUXES[self.mux], "ice_lite_on_S": self.ice_lite, "ice_tcp": TCPS[self.tcp],
               "udp_mux_on_S": self.udp_mux, "latching": self.latching, "compat_S": COMPATS[self.compat],
               "S_offers": self.s_offers, "rtcp_mux_policy_P": MUXES[self.mux_p], "compat_P": COMPATS[self.compat_p],
               "tcp_only": self.tcp_only, "dcep": self.dcep})
    }
    fn key(&self) -> String { format!("{:?}", self.fields()) }
}

fn all_points() -> Vec<Point> {
    let mut v = Vec::new();
    for mode in 0..3 { for mix in 0..7 { for bundle in 0..3 { for mux in 0..2 { for lite in 0..2 {
    for tcp in 0..3 { for um in 0..2 { for la in 0..2 { for compat in 0..2 { for so in 0..2 {
    for mux_p in 0..2 { for compat_p in 0..2 { for to in 0..2 { for dc in 0..2 {
        let p = Point { mode, mix, bundle, mux, ice_lite: lite == 1, tcp, udp_mux: um == 1, latching: la == 1, compat, s_offers: so == 1,
                        mux_p, compat_p, tcp_only: to == 1, dcep: dc == 1 };
        if p.valid() { v.push(p); }
    }}}}
    }}}}}}}}}}
    v
}
fn lattice() -> Vec<Point> { all_points() }

/// greedy pairwise covering array: every pair of option values that occurs together in some lattice
/// point occurs together in some selected point
fn pairwise(lat: &[Point], rng: &mut Rng) -> Vec<Point> {
    use std::collections::HashSet;
    let mut need: HashSet<(u8, u8, u8, u8)> = HashSet::new();
    for p in lat {
        let f = p.fields();
        for i in 0..NF { for j in (i + 1)..NF { need.insert((i as u8, f[i] as u8, j as u8, f[j] as u8)); } }
    }
    let gain = |p: &Point, need: &HashSet<(u8, u8, u8, u8)>| {
        let f = p.fields();
        let mut c = 0;
        for i in 0..NF { for j in (i + 1)..NF { if need.contains(&(i as u8, f[i] as u8, j as u8, f[j] as u8)) { c += 1; } } }
        c
    };
    let mut out = Vec::new();
    while !need.is_empty() {
        // best of a random sample of candidates (the lattice is large); fall back to a full scan near the end
        let mut best = (0usize, 0usize);
        for _ in 0..1500 {
            let k = rng.below(lat.len() as u64) as usize;
            let c = gain(&lat[k], &need);
            if c > best.0 { best = (c, k); }
        }
        if best.0 < 3 {
            for k in 0..lat.len() { let c = gain(&lat[k], &need); if c > best.0 { best = (c, k); } }
        }
        if best.0 == 0 { break; }
        let f = lat[best.1].fields();
        for i in 0..NF { for j in (i + 1)..NF { need.remove(&(i as u8, f[i] as u8, j as u8, f[j] as u8)); } }
        out.push(lat[best.1]);
    }
    out
}

// ------------------------------------------------------------------------------------ configuration
/// Fixed ports for the options that need one (single-port UDP mux, the ICE-TCP listener) come from BELOW the kernel's
/// ephemeral range (32768..60999), handed out by a process-wide counter and probed once. A probe on port 0 is released
/// before the endpoint binds the port itself, and with 12..32 points in flight another point's ephemeral socket
/// sometimes took it in between: that end then gathered no candidate at all and the pair sat in New/New until the
/// timeout (about 1 fixed-port point in 200, seen as `answer candidates=0` in a first attempt; it connected on the
/// retry). Ports of this range are never chosen by the kernel and never handed out twice while in use.
static NEXT_FIXED_PORT: AtomicUsize = AtomicUsize::new(0);
fn fixed_port(tcp: bool) -> u16 {
    for _ in 0..12000 {
        // (start offset by the process id: two harness processes at once do not walk the same ports in step)
        let port = 20000 + ((std::process::id() as usize * 997 + NEXT_FIXED_PORT.fetch_add(1, Ordering::SeqCst)) % 12000) as u16;
        let free = if tcp { std::net::TcpListener::bind(("127.0.0.1", port)).is_ok() } else { std::net::UdpSocket::bind(("127.0.0.1", port)).is_ok() };
        if free { return port; }
    }
    // nothing free in the private range (not seen): fall back to a probe on port 0
    if tcp { std::net::TcpListener::bind("127.0.0.1:0").unwrap().local_addr().unwrap().port() }
    else { std::net::UdpSocket::bind("127.0.0.1:0").unwrap().local_addr().unwrap().port() }
}
fn free_udp_port() -> u16 { fixed_port(false) }
fn free_tcp_port() -> u16 { fixed_port(true) }

fn make_cfg(p: &Point, is_s: bool, is_answerer: bool) -> RtcConfiguration {
    let mut c = RtcConfiguration::default();
    c.transport_mode = [TransportMode::WebRtc, TransportMode::Srtp, TransportMode::Rtp][p.mode].clone();
    c.bundle_policy = [BundlePolicy::Balanced, BundlePolicy::MaxCompat, BundlePolicy::MaxBundle][p.bundle].clone();
    c.rtcp_mux_policy = [RtcpMuxPolicy::Require, RtcpMuxPolicy::Negotiate][if is_s { p.mux } else { p.mux_p }].clone();
    c.ice_tcp_policy = [IceTcpPolicy::Disabled, IceTcpPolicy::Enabled, IceTcpPolicy::PassiveOnly][p.tcp].clone();
    c.enable_latching = p.latching;
    c.sdp_compatibility = [SdpCompatibilityMode::Standard, SdpCompatibilityMode::LegacySip][if is_s { p.compat } else { p.compat_p }].clone();
    if p.tcp_only {
        // ICE-TCP as the only path: no UDP host candidates; the answerer (controlled) listens on a TCP port
        // (passive candidate), the offerer (controlling) advertises active candidates and connects out
        c.ice_gather_udp_hosts = false;
        if is_answerer {
            let port = free_tcp_port();
            c.tcp_port_range_start = Some(port);
            c.tcp_port_range_end = Some(port);
        }
    }
    c.enable_ice_lite = is_s && p.ice_lite;
    if is_s && p.udp_mux {
        c.ice_udp_mux = true;
        c.ice_udp_mux_port = Some(free_udp_port());
    }
    // The first DATA chunk of a direction is sometimes sent before the peer's association is fully up and is then
    // only delivered by the T3 retransmission after sctp_rto_initial (default 3 s, i.e. 6 s per point for the two
    // directions; under load this dominated the run time of the full lattice). The lattice has no SCTP timer axis:
    // run with a 400 ms initial RTO (>= sctp_rto_min), everything else default.
    c.sctp_rto_initial = Duration::from_millis(400);
    // the property is about a loopback network
    c.bind_ip = Some("127.0.0.1".into());
    c.disable_ipv6 = true;
    c
}

// ------------------------------------------------------------------------------------ observations
#[derive(Clone, Debug, Default)]
struct Keys { profile: String, tx_key: Vec<u8>, tx_salt: Vec<u8>, rx_key: Vec<u8>, rx_salt: Vec<u8> }

#[derive(Clone, Debug, Default)]
struct SideObs {
    setup: Option<String>,          // what set_remote_description of the peer picks: first media-level, else session-level
    setups: Vec<String>,            // media-level values in section order
    session_setup: Option<String>,
    setups_all_equal: bool,
    bundle: bool,
    mux_any: bool,
    mux_all: bool,
    role: Option<bool>,
    dtls_client: Option<bool>,
    dtls_connected: bool,
    profile: Option<u16>,
    exporter: Vec<u8>,
    suite: Option<String>,
    sdes_local: Vec<u8>,
    sdes_remote: Vec<u8>,
    keys: Option<Keys>,
}

fn b64_decode(s: &str) -> Option<Vec<u8>> {
    let mut out = Vec::new();
    let mut acc = 0u32;
    let mut bits = 0;
    for ch in s.bytes() {
        let v = match ch {
            b'A'..=b'Z' => ch - b'A',
            b'a'..=b'z' => ch - b'a' + 26,
            b'0'..=b'9' => ch - b'0' + 52,
            b'+' => 62,
            b'/' => 63,
            b'=' => break,
            _ => return None,
        } as u32;
        acc = (acc << 6) | v;
        bits += 6;
        if bits >= 8 { bits -= 8; out.push((acc >> bits) as u8); acc &= (1 << bits) - 1; }
    }
    Some(out)
}

/// (suite, decoded inline key||salt) of the first a=crypto of the first media section
fn first_crypto(d: &SessionDescription) -> (Option<String>, Vec<u8>) {
    if let Some(m) = d.media_sections.first() {
        if let Some(c) = m.get_crypto_attributes().into_iter().next() {
            let kp = c.key_params.strip_prefix("inline:").unwrap_or("");
            let kp = kp.split('|').next().unwrap_or("");
            return (Some(c.crypto_suite.clone()), b64_decode(kp).unwrap_or_default());
        }
    }
    (None, Vec::new())
}

fn describe(d: &SessionDescription, o: &mut SideObs) {
    let mut setups = Vec::new();
    let mut mux = Vec::new();
    for m in &d.media_sections {
        for a in &m.attributes {
            if a.key == "setup" { setups.push(a.value.clone().unwrap_or_default()); }
        }
        if m.kind == MediaKind::Audio || m.kind == MediaKind::Video {
            mux.push(m.attributes.iter().any(|a| a.key == "rtcp-mux"));
        }
    }
    o.session_setup = d.session.attributes.iter().find(|a| a.key == "setup").and_then(|a| a.value.clone());
    o.setup = setups.first().cloned().or(o.session_setup.clone());
    o.setups = setups.clone();
    o.setups_all_equal = setups.windows(2).all(|w| w[0] == w[1])
        && (setups.is_empty() || setups.len() == d.media_sections.len());
    o.bundle = d.session.attributes.iter().any(|a| a.key == "group" && a.value.as_deref().is_some_and(|v| v.starts_with("BUNDLE")));
    o.mux_any = mux.iter().any(|x| *x);
    o.mux_all = !mux.is_empty() && mux.iter().all(|x| *x);
}

fn observe_live(pc: &PeerConnection, webrtc: bool, o: &mut SideObs) {
    o.role = pc.verif_dtls_role();
    if let Some(d) = pc.verif_dtls_transport() {
        o.dtls_client = Some(d.verif_is_client());
        if let DtlsState::Connected(_, prof) = d.get_state() {
            o.dtls_connected = true;
            o.profile = prof;
            // the length setup_srtp asks for is a function of the profile; ask for what the live
            // session holds so the model can check the length too
        }
    }
    if let Some(t) = pc.verif_rtp_transport() {
        if let Some((profile, tx_key, tx_salt, rx_key, rx_salt)) = t.verif_srtp_keys() {
            if webrtc {
                if let Some(d) = pc.verif_dtls_transport() {
                    let n = 2 * (tx_key.len() + tx_salt.len());
                    o.exporter = d.export_keying_material("EXTRACTOR-dtls_srtp", n).unwrap_or_default();
                }
            }
            o.keys = Some(Keys { profile, tx_key, tx_salt, rx_key, rx_salt });
        }
    }
}

// ------------------------------------------------------------------------------------ one run of one point
#[derive(Clone, Debug, Default)]
struct RunResult {
    stage: String,              // last stage reached
    error: Option<String>,      // why it stopped early (runtime)
    connected: bool,
    connect_ms: u64,
    data_ok: Option<(bool, bool)>,                 // (offerer->answerer, answerer->offerer)
    data_ms: u64,
    dcep_label_ok: Option<bool>,
    ans_dc_ok: Option<(bool, bool, bool)>,   // answerer-created in-band channel: (announced with same id, off->ans, ans->off)
    diag: Option<String>,
    /// data points only, read as soon as both ends report Connected: does each end hold an SCTP transport?
    /// (offerer, answerer). start_dtls creates it before Connected is reported and only close() drops it, so
    /// this is a fact about the state, not about elapsed time.
    sctp_present: Option<(bool, bool)>,
    rtp_ok: BTreeMap<String, (bool, bool)>,        // kind -> (off->ans, ans->off)
    off: SideObs,
    ans: SideObs,
    offer_sdp: String,
    answer_sdp: String,
    panic: Option<String>,
}

struct MediaEnd {
    kind: MediaKind,
    source: Arc<rustrtc::media::track::SampleStreamSource>,
}

fn params_for(kind: MediaKind) -> RtpCodecParameters {
    match kind {
        MediaKind::Audio => RtpCodecParameters { payload_type: 111, name: "opus".into(), clock_rate: 48000, channels: 2 },
        _ => RtpCodecParameters { payload_type: 96, name: "VP8".into(), clock_rate: 90000, channels: 0 },
    }
}

fn add_media(pc: &PeerConnection, p: &Point, reversed: bool) -> Result<Vec<MediaEnd>, String> {
    let mut v = Vec::new();
    let mut kinds = Vec::new();
    if p.has_audio() { kinds.push(MediaKind::Audio); }
    if p.has_video() { kinds.push(MediaKind::Video); }
    if reversed { kinds.reverse(); }
    for kind in kinds {
        let fk = match kind { MediaKind::Audio => rustrtc::media::frame::MediaKind::Audio, _ => rustrtc::media::frame::MediaKind::Video };
        let (source, track, _fb) = sample_track(fk, 64);
        pc.add_track(track, params_for(kind)).map_err(|e| format!("add_track: {e}"))?;
        v.push(MediaEnd { kind, source: Arc::new(source) });
    }
    if reversed { v.reverse(); }   // callers pair the two ends' media by index: keep audio first
    Ok(v)
}

fn payload_for(kind: MediaKind, from_offerer: bool, n: u32) -> Vec<u8> {
    // VP8 payload descriptor 0x10 (S=1, PID 0) + P-frame header byte; opus: arbitrary bytes
    let mut v = Vec::new();
    if kind == MediaKind::Video { v.extend_from_slice(&[0x10, 0x01]); }
    v.extend_from_slice(b"C10/");
    v.push(if from_offerer { b'O' } else { b'A' });
    v.push(if kind == MediaKind::Audio { b'a' } else { b'v' });
    v.extend_from_slice(&n.to_be_bytes());
    v.extend((0..64u8).map(|i| i.wrapping_mul(7).wrapping_add(n as u8)));
    v
}

fn sample_for(kind: MediaKind, from_offerer: bool, n: u32) -> MediaSample {
    let data = Bytes::from(payload_for(kind, from_offerer, n));
    match kind {
        MediaKind::Audio => MediaSample::Audio(AudioFrame { rtp_timestamp: 960 * n, clock_rate: 48000, data, ..Default::default() }),
        _ => MediaSample::Video(VideoFrame { rtp_timestamp: 3000 * n, data, is_last_packet: true, ..Default::default() }),
    }
}

/// send samples every 20 ms from `src` until the peer's receiving track of that kind yields one whose
/// bytes are exactly one of the payloads sent (intact), or the deadline passes
async fn rtp_one_way(src: &MediaEnd, rx_pc: &PeerConnection, from_offerer: bool, deadline: Duration) -> bool {
    let kind = src.kind;
    let Some(t) = rx_pc.get_transceivers().into_iter().find(|t| t.kind() == kind) else { return false };
    let Some(receiver) = t.receiver() else { return false };
    let track = receiver.track();
    let source = src.source.clone();
    let stop = Arc::new(std::sync::atomic::AtomicBool::new(false));
    let stop2 = stop.clone();
    let sender = tokio::spawn(async move {
        let mut n = 0u32;
        while !stop2.load(Ordering::SeqCst) && n < 2000 {
            let _ = source.send(sample_for(kind, from_offerer, n));
            n += 1;
            tokio::time::sleep(Duration::from_millis(20)).await;
        }
    });
    let t0 = Instant::now();
    let mut ok = false;
    while t0.elapsed() < deadline {
        match tokio::time::timeout(Duration::from_millis(500), track.recv()).await {
            Ok(Ok(sample)) => {
                let data = match &sample { MediaSample::Audio(a) => a.data.clone(), MediaSample::Video(v) => v.data.clone() };
                // intact = byte-identical to a payload this sender produced (the counter is in the payload)
                let tag = if kind == MediaKind::Video { 2 } else { 0 };
                if data.len() > tag + 10 {
                    let n = u32::from_be_bytes([data[tag + 6], data[tag + 7], data[tag + 8], data[tag + 9]]);
                    if data[..] == payload_for(kind, from_offerer, n)[..] { ok = true; break; }
                }
            }
            Ok(Err(_)) => break,
            Err(_) => {}
        }
    }
    stop.store(true, Ordering::SeqCst);
    let _ = sender.await;
    ok
}

async fn dc_one_way(tx_pc: &PeerConnection, id: u16, rx_dc: &Arc<DataChannel>, msg: &[u8], deadline: Duration) -> bool {
    let t0 = Instant::now();
    // SCTP may still be coming up right after Connected: retry the send until it is accepted
    loop {
        match tx_pc.send_data(id, msg).await {
            Ok(()) => break,
            Err(_) if t0.elapsed() < deadline => tokio::time::sleep(Duration::from_millis(50)).await,
            Err(_) => return false,
        }
    }
    while t0.elapsed() < deadline {
        match tokio::time::timeout(Duration::from_millis(500), rx_dc.recv()).await {
            Ok(Some(DataChannelEvent::Message(b))) => return b.as_ref() == msg,
            Ok(Some(_)) => {}
            Ok(None) => return false,
            Err(_) => {}
        }
    }
    false
}

async fn gather(pc: &PeerConnection, direct: bool, d: Duration) -> bool {
    if direct { return true; }
    let t0 = Instant::now();
    while pc.ice_transport().gather_state() != IceGathererState::Complete {
        if t0.elapsed() > d { return false; }
        tokio::time::sleep(Duration::from_millis(10)).await;
    }
    true
}

#[derive(Clone)]
struct Timeouts { gather: Duration, connect: Duration, deliver: Duration, deliver_data: Duration, answer_delay: Duration, scn: Scn }

/// Scenario variants of a run that are not lattice options (the model's prediction does not depend on them):
/// what the application did around the offer/answer exchange.
#[derive(Clone, Copy, Debug, Default, PartialEq, Eq, PartialOrd, Ord)]
struct Scn {
    /// the eventual ANSWERER called create_offer() once and discarded the result (pre-gathering idiom) before it
    /// received the remote offer
    warmup_offer_on_answerer: bool,
    /// an additional in-band (DCEP) data channel created by the ANSWERER: 0 none, 1 before set_remote_description(offer)
    /// (DTLS role still unknown), 2 after it (role known)
    ans_dc: u8,
    /// the answerer adds its tracks in the reverse order of the offer's m-lines (video before audio)
    ans_tracks_reversed: bool,
}

async fn run_point(p: Point, tmo: &Timeouts) -> RunResult {
    let mut r = RunResult::default();
    let t_pt = Instant::now();
    let trace = std::env::var("C10_TRACE").is_ok();
    macro_rules! mark { ($what:expr) => { if trace { eprintln!("  [{:>6} ms] {}", t_pt.elapsed().as_millis(), $what); } }; }
    macro_rules! bail { ($stage:expr, $e:expr) => {{ r.stage = $stage.into(); r.error = Some($e); return r; }}; }
    let direct = !p.webrtc();
    let (off_is_s, ans_is_s) = (p.s_offers, !p.s_offers);
    let off = PeerConnection::new(make_cfg(&p, off_is_s, false));
    let ans = PeerConnection::new(make_cfg(&p, ans_is_s, true));

    // data channel (negotiated id 0 on both ends) and media (one sendrecv track per kind on both ends)
    let mut dcs = None;
    let mut dcep_off = None;
    if p.has_data() && !p.dcep {
        // (id 2 when the answerer also opens an in-band channel, which takes stream 0 or 1)
        let nid = if tmo.scn.ans_dc != 0 { 2 } else { 0 };
        let mk = |pc: &PeerConnection| pc.create_data_channel("c10", Some(DataChannelConfig { negotiated: Some(nid), ..Default::default() }));
        match (mk(&off), mk(&ans)) {
            (Ok(a), Ok(b)) => dcs = Some((a, b)),
            (a, b) => bail!("create_data_channel", format!("{:?} / {:?}", a.err().map(|e| e.to_string()), b.err().map(|e| e.to_string()))),
        }
    }
    if p.has_data() && p.dcep {
        // in-band: only the offerer creates the channel (before the offer); the answerer learns it through DCEP
        match off.create_data_channel("c10-dcep", None) {
            Ok(a) => dcep_off = Some(a),
            Err(e) => bail!("create_data_channel(dcep)", e.to_string()),
        }
    }
    let off_media = match add_media(&off, &p, false) { Ok(v) => v, Err(e) => bail!("add_track(offerer)", e) };
    let ans_media = match add_media(&ans, &p, tmo.scn.ans_tracks_reversed) { Ok(v) => v, Err(e) => bail!("add_track(answerer)", e) };

    mark!("endpoints built");
    // complete, non-trickle offer/answer through SDP text
    if let Err(e) = off.create_offer().await { bail!("create_offer(1)", e.to_string()); }
    if !gather(&off, direct, tmo.gather).await { bail!("gather(offerer)", "ICE gathering did not complete".into()); }
    let offer = match off.create_offer().await { Ok(o) => o, Err(e) => bail!("create_offer", e.to_string()) };
    r.offer_sdp = offer.to_sdp_string();
    describe(&offer, &mut r.off);
    if let Err(e) = off.set_local_description(offer.clone()) { bail!("set_local_description(offer)", e.to_string()); }
    let offer_rx = match SessionDescription::parse(SdpType::Offer, &r.offer_sdp) { Ok(d) => d, Err(e) => bail!("parse(offer)", e.to_string()) };
    let mut ans_dc = None;
    if tmo.scn.ans_dc == 1 {
        match ans.create_data_channel("c10-ans", None) { Ok(d) => ans_dc = Some(d), Err(e) => bail!("create_data_channel(answerer, before offer)", e.to_string()) }
    }
    if tmo.scn.warmup_offer_on_answerer {
        // pre-gathering idiom: the result is discarded, the endpoint later turns out to be the answerer
        if let Err(e) = ans.create_offer().await { bail!("create_offer(warm-up on the answerer)", e.to_string()); }
        if !gather(&ans, direct, tmo.gather).await { bail!("gather(answerer warm-up)", "ICE gathering did not complete".into()); }
    }
    if let Err(e) = ans.set_remote_description(offer_rx).await { bail!("set_remote_description(offer)", e.to_string()); }
    if tmo.scn.ans_dc == 2 {
        match ans.create_data_channel("c10-ans", None) { Ok(d) => ans_dc = Some(d), Err(e) => bail!("create_data_channel(answerer, after offer)", e.to_string()) }
    }
    // a callee may take its time to answer (ringing); the transports must not depend on answering at once
    if !tmo.answer_delay.is_zero() { tokio::time::sleep(tmo.answer_delay).await; }
    if let Err(e) = ans.create_answer().await { bail!("create_answer(1)", e.to_string()); }
    if !gather(&ans, direct, tmo.gather).await { bail!("gather(answerer)", "ICE gathering did not complete".into()); }
    let answer = match ans.create_answer().await { Ok(a) => a, Err(e) => bail!("create_answer", e.to_string()) };
    r.answer_sdp = answer.to_sdp_string();
    describe(&answer, &mut r.ans);
    if let Err(e) = ans.set_local_description(answer.clone()) { bail!("set_local_description(answer)", e.to_string()); }
    let answer_rx = match SessionDescription::parse(SdpType::Answer, &r.answer_sdp) { Ok(d) => d, Err(e) => bail!("parse(answer)", e.to_string()) };
    if let Err(e) = off.set_remote_description(answer_rx).await { bail!("set_remote_description(answer)", e.to_string()); }
    r.stage = "negotiated".into();
    mark!("negotiated");
    if p.mode == 1 {
        let (so, ko) = first_crypto(&offer);
        let (sa, ka) = first_crypto(&answer);
        r.off.suite = so; r.ans.suite = sa;
        r.off.sdes_local = ko.clone(); r.off.sdes_remote = ka.clone();
        r.ans.sdes_local = ka; r.ans.sdes_remote = ko;
    }

    // both report Connected
    let t0 = Instant::now();
    let both = async { tokio::try_join!(off.wait_for_connected(), ans.wait_for_connected()) };
    match tokio::time::timeout(tmo.connect, both).await {
        Ok(Ok(_)) => { r.connected = true; r.connect_ms = t0.elapsed().as_millis() as u64; }
        Ok(Err(e)) => { r.error = Some(format!("wait_for_connected: {e} (offerer {:?} reason {:?}, answerer {:?} reason {:?})",
                        *off.subscribe_peer_state().borrow(), off.disconnect_reason(), *ans.subscribe_peer_state().borrow(), ans.disconnect_reason())); }
        Err(_) => { r.error = Some(format!("not Connected within {:?} (offerer {:?}, answerer {:?})", tmo.connect,
                        *off.subscribe_peer_state().borrow(), *ans.subscribe_peer_state().borrow())); }
    }
    mark!("connect wait over");
    if r.connected {
        r.stage = "connected".into();
        if p.has_data() {
            r.sctp_present = Some((off.sctp_diagnostic_info().is_some(), ans.sctp_diagnostic_info().is_some()));
        }
        if let Some(dc_off) = &dcep_off {
            // the answerer's PeerConnection announces the in-band channel
            let t1 = Instant::now();
            let mut got = None;
            while t1.elapsed() < tmo.deliver_data && got.is_none() {
                match tokio::time::timeout(Duration::from_millis(500), ans.recv()).await {
                    Ok(Some(rustrtc::PeerConnectionEvent::DataChannel(dc))) => got = Some(dc),
                    Ok(Some(_)) => {}
                    Ok(None) => break,
                    Err(_) => {}
                }
            }
            match got {
                Some(dc_ans) => {
                    r.dcep_label_ok = Some(dc_ans.label == "c10-dcep" && dc_ans.id == dc_off.id);
                    dcs = Some((dc_off.clone(), dc_ans));
                }
                None => {
                    r.data_ok = Some((false, false));
                    r.diag = Some(format!("no DataChannel event on the answerer; offerer sctp: {:?}; answerer sctp: {:?}", off.sctp_diagnostic_info(), ans.sctp_diagnostic_info()));
                }
            }
        }
        if let Some((dc_off, dc_ans)) = &dcs {
            let t1 = Instant::now();
            let a = dc_one_way(&off, dc_off.id, dc_ans, b"C10 data offerer->answerer \x00\x01\xfe\xff", tmo.deliver_data).await;
            let b = dc_one_way(&ans, dc_ans.id, dc_off, b"C10 data answerer->offerer \xff\xfe\x01\x00", tmo.deliver_data).await;
            r.data_ok = Some((a, b));
            r.data_ms = t1.elapsed().as_millis() as u64;
            if !(a && b) {
                r.diag = Some(format!("offerer sctp: {:?}; answerer sctp: {:?}", off.sctp_diagnostic_info(), ans.sctp_diagnostic_info()));
            }
        }
        if let Some(dc_a) = &ans_dc {
            // the offerer must learn the answerer's in-band channel (same label, same stream id) and a message must
            // arrive each way on it
            let t1 = Instant::now();
            let mut got = None;
            while t1.elapsed() < tmo.deliver_data && got.is_none() {
                match tokio::time::timeout(Duration::from_millis(500), off.recv()).await {
                    Ok(Some(rustrtc::PeerConnectionEvent::DataChannel(dc))) => { if dc.label == "c10-ans" { got = Some(dc); } }
                    Ok(Some(_)) => {}
                    Ok(None) => break,
                    Err(_) => {}
                }
            }
            match got {
                Some(dc_o) => {
                    let same_id = dc_o.id == dc_a.id;
                    let a = dc_one_way(&ans, dc_a.id, &dc_o, b"C10 answerer-created channel answerer->offerer", tmo.deliver_data).await;
                    let b = dc_one_way(&off, dc_o.id, dc_a, b"C10 answerer-created channel offerer->answerer", tmo.deliver_data).await;
                    r.ans_dc_ok = Some((same_id, b, a));
                }
                None => {
                    r.ans_dc_ok = Some((false, false, false));
                    r.diag = Some(format!("answerer-created in-band channel (stream {}) never announced on the offerer; offerer sctp: {:?}; answerer sctp: {:?}",
                                          dc_a.id, off.sctp_diagnostic_info(), ans.sctp_diagnostic_info()));
                }
            }
        }
        for (mo, ma) in off_media.iter().zip(ans_media.iter()) {
            let (a, b) = tokio::join!(rtp_one_way(mo, &ans, true, tmo.deliver), rtp_one_way(ma, &off, false, tmo.deliver));
            r.rtp_ok.insert(format!("{:?}", mo.kind).to_lowercase(), (a, b));
        }
        r.stage = "exchanged".into();
        mark!("exchanged");
    }
    observe_live(&off, p.webrtc(), &mut r.off);
    observe_live(&ans, p.webrtc(), &mut r.ans);
    mark!("observed");
    off.close();
    ans.close();
    tokio::time::sleep(Duration::from_millis(50)).await;
    mark!("closed");
    r
}

// ------------------------------------------------------------------------------------ oracle + rendering
fn setup_term(s: &Option<String>) -> String {
    match s.as_deref() {
        None => "None".into(),
        Some("active") => "(Some Setup_active)".into(),
        Some("passive") => "(Some Setup_passive)".into(),
        Some("actpass") => "(Some Setup_actpass)".into(),
        Some("holdconn") => "(Some Setup_holdconn)".into(),
        Some(_) => "(Some Setup_other)".into(),
    }
}
fn suite_term(s: &Option<String>) -> String {
    match s.as_deref() {
        None => "None".into(),
        Some("AES_CM_128_HMAC_SHA1_80") => "(Some Suite_AES_CM_128_HMAC_SHA1_80)".into(),
        Some("AES_CM_128_HMAC_SHA1_32") => "(Some Suite_AES_CM_128_HMAC_SHA1_32)".into(),
        Some("AEAD_AES_128_GCM") => "(Some Suite_AEAD_AES_128_GCM)".into(),
        Some(_) => "(Some Suite_unknown)".into(),
    }
}
fn setup_ctor(s: &str) -> &'static str {
    match s { "active" => "Setup_active", "passive" => "Setup_passive", "actpass" => "Setup_actpass", "holdconn" => "Setup_holdconn", _ => "Setup_other" }
}
fn side_term(o: &SideObs) -> String {
    let keys = o.keys.as_ref().map(|k| format!("(mkKeys SrtpProfile_{} {} {} {} {})", k.profile,
        bytes_term(&k.tx_key), bytes_term(&k.tx_salt), bytes_term(&k.rx_key), bytes_term(&k.rx_salt)));
    let setups: Vec<String> = o.setups.iter().map(|s| setup_ctor(s).to_string()).collect();
    format!("(mkSide {} {} {} {} {} {} {} {} {} {} {} {})",
        list_term(&setups), setup_term(&o.session_setup), bool_term(o.bundle), bool_term(o.mux_any),
        opt_term(o.role.map(|b| bool_term(b).to_string())), opt_term(o.dtls_client.map(|b| bool_term(b).to_string())),
        opt_term(o.profile.map(|c| c.to_string())), bytes_term(&o.exporter), suite_term(&o.suite),
        bytes_term(&o.sdes_local), bytes_term(&o.sdes_remote), opt_term(keys))
}
fn hex(b: &[u8]) -> String { b.iter().map(|x| format!("{:02x}", x)).collect() }
fn side_json(o: &SideObs) -> serde_json::Value {
    json!({"setup": o.setup, "bundle": o.bundle, "rtcp_mux": o.mux_any, "dtls_role_is_client": o.role,
           "dtls_transport_is_client": o.dtls_client, "dtls_connected": o.dtls_connected, "use_srtp": o.profile,
           "exporter": hex(&o.exporter), "sdes_suite": o.suite,
           "srtp": o.keys.as_ref().map(|k| json!({"profile": k.profile, "tx_key": hex(&k.tx_key), "tx_salt": hex(&k.tx_salt),
                                                    "rx_key": hex(&k.rx_key), "rx_salt": hex(&k.rx_salt)}))})
}

/// The property text evaluated on the live observations, independently of the model.
/// Returns (logic failures, runtime failures).
fn oracle(p: &Point, r: &RunResult) -> (Vec<String>, Vec<String>) {
    let mut logic = Vec::new();
    let mut runtime = Vec::new();
    if let Some(pn) = &r.panic { logic.push(format!("panic: {pn}")); return (logic, runtime); }
    if r.stage != "exchanged" && r.stage != "connected" && r.stage != "negotiated" {
        runtime.push(format!("offer/answer exchange failed at {}: {}", r.stage, r.error.clone().unwrap_or_default()));
        return (logic, runtime);
    }
    if !r.connected {
        runtime.push(r.error.clone().unwrap_or_else(|| "not connected".into()));
    }
    // descriptions
    for (who, o) in [("offer", &r.off), ("answer", &r.ans)] {
        if !o.setups_all_equal { logic.push(format!("{who}: a=setup missing on some section or differing between sections")); }
        if o.mux_any != o.mux_all { logic.push(format!("{who}: a=rtcp-mux on some but not all RTP sections")); }
        if p.webrtc() != o.setup.is_some() { logic.push(format!("{who}: a=setup presence does not match the transport mode")); }
    }
    if p.webrtc() {
        if r.off.setup.as_deref() != Some("actpass") { logic.push(format!("offer carries a=setup:{:?} (RFC 8842: offers use actpass)", r.off.setup)); }
        if !matches!(r.ans.setup.as_deref(), Some("active") | Some("passive")) { logic.push(format!("answer carries a=setup:{:?}", r.ans.setup)); }
        // complementary DTLS roles on the live objects
        match (r.off.role, r.ans.role) {
            (Some(a), Some(b)) if a != b => {}
            (a, b) => logic.push(format!("DTLS roles not complementary: offerer is_client={a:?}, answerer is_client={b:?}")),
        }
        if let (Some(a), Some(b)) = (r.off.dtls_client, r.ans.dtls_client) {
            if a == b { logic.push(format!("live DtlsTransports have the same role: is_client={a} on both ends")); }
        }
        // (that the answer's a=setup describes the answerer's role, and that the DtlsTransport is created with the
        // negotiated role, is signalling/behaviour consistency (RFC 5763 5): compared with the model in Run/C10Run.v,
        // not demanded here -- the property itself only asks for complementary roles and identical keys)
        if r.connected {
            for (who, o) in [("offerer", &r.off), ("answerer", &r.ans)] {
                if !o.dtls_connected { logic.push(format!("{who}: PeerConnection Connected but DTLS not Connected")); }
                if o.keys.is_none() { logic.push(format!("{who}: no SRTP session after DTLS connected")); }
            }
            if r.off.profile != r.ans.profile { logic.push(format!("use_srtp profile differs: {:?} vs {:?}", r.off.profile, r.ans.profile)); }
            if r.off.exporter != r.ans.exporter || r.off.exporter.is_empty() { logic.push("DTLS exporter output differs between the two ends".into()); }
        }
    }
    if p.mode != 2 && r.connected {
        // identical SRTP keys: tx of one end = rx of the other, same profile
        match (&r.off.keys, &r.ans.keys) {
            (Some(a), Some(b)) => {
                if a.profile != b.profile { logic.push(format!("SRTP profile differs: {} vs {}", a.profile, b.profile)); }
                if a.tx_key != b.rx_key || a.tx_salt != b.rx_salt { logic.push("offerer tx SRTP key/salt != answerer rx key/salt".into()); }
                if b.tx_key != a.rx_key || b.tx_salt != a.rx_salt { logic.push("answerer tx SRTP key/salt != offerer rx key/salt".into()); }
                if a.tx_key == a.rx_key { logic.push("tx and rx SRTP keys of one end are identical".into()); }
            }
            _ => logic.push("SRTP-mandatory mode connected without an SRTP session on both ends".into()),
        }
    }
    if p.mode == 2 && (r.off.keys.is_some() || r.ans.keys.is_some()) { logic.push("plain RTP mode installed an SRTP session".into()); }
    if let Some((o, a)) = r.sctp_present {
        // both descriptions carry m=application and the end reports Connected: without an SCTP transport no data
        // channel can ever open (C10-F5). A state fact, deterministic once observed: never retried away.
        for (who, have) in [("offerer", o), ("answerer", a)] {
            if !have { logic.push(format!("{who} reports Connected with m=application negotiated but {NO_SCTP}")); }
        }
    }
    if r.connected {
        if let Some((a, b)) = r.data_ok {
            if r.dcep_label_ok == Some(false) { runtime.push("in-band data channel announced with a different label / stream id".into()); }
            if !a { runtime.push("data-channel message offerer->answerer not delivered intact".into()); }
            if !b { runtime.push("data-channel message answerer->offerer not delivered intact".into()); }
        }
        if let Some((same, a, b)) = r.ans_dc_ok {
            if !same { runtime.push("in-band data channel created by the answerer was not announced on the offerer (same label and stream id)".into()); }
            else {
                if !a { runtime.push("message offerer->answerer on the answerer-created channel not delivered intact".into()); }
                if !b { runtime.push("message answerer->offerer on the answerer-created channel not delivered intact".into()); }
            }
        }
        for (k, (a, b)) in &r.rtp_ok {
            if !a { runtime.push(format!("{k} RTP offerer->answerer not delivered intact")); }
            if !b { runtime.push(format!("{k} RTP answerer->offerer not delivered intact")); }
        }
    }
    (logic, runtime)
}

/// signature of a failure that is a fact about the endpoint's state (not about how long something took): such a
/// first attempt stands, whatever a retry does
const NO_SCTP: &str = "has no SCTP transport (data channels can never open)";
fn state_fact(logic: &[String]) -> bool { logic.iter().any(|m| m.contains(NO_SCTP)) }

// ------------------------------------------------------------------------------------ known, listed runtime findings
/// Returns the finding class when this point's *runtime* failure matches a listed class exactly.
/// transcription of `layout_known_class` (Model/Lattice.v); the Coq side compares it on every case
fn in_layout_class(p: &Point) -> bool {
    let off_compat = if p.s_offers { p.compat } else { p.compat_p };
    p.mode == 1 && p.has_audio() && p.has_video() && off_compat == 1
}

fn known_class(p: &Point, r: &RunResult, runtime: &[String]) -> Option<String> {
    // C10-F2: SDES-SRTP mode, audio+video without BUNDLE: both ends report Connected, the descriptions
    // advertise one socket per section, but each end runs a single transport aimed at the peer's last
    // section -- no RTP arrives in either direction.  Anything else on such a point is NOT this class.
    if in_layout_class(p) && r.connected && r.error.is_none()
        && !r.rtp_ok.is_empty() && r.rtp_ok.values().all(|(a, b)| !a && !b)
        && runtime.iter().all(|m| m.contains("RTP") && m.contains("not delivered intact")) {
        return Some("srtp_nonbundle_sections".into());
    }
    None
}

fn run_blocking(p: Point, tmo: &Timeouts, rt_workers: usize) -> RunResult {
    let rt = tokio::runtime::Builder::new_multi_thread().worker_threads(rt_workers).enable_all().build().unwrap();
    // hard cap: no single point may block a worker for good (every await inside has its own timeout except the
    // signalling calls themselves)
    let cap = tmo.gather * 2 + tmo.connect + tmo.deliver_data * 2 + tmo.deliver * 2 + tmo.answer_delay + Duration::from_secs(20);
    let res = std::panic::catch_unwind(std::panic::AssertUnwindSafe(|| rt.block_on(async {
        match tokio::time::timeout(cap, run_point(p, tmo)).await {
            Ok(r) => r,
            Err(_) => RunResult { stage: "hung".into(), error: Some(format!("the point did not finish within {:?} (a signalling call never returned)", cap)), ..Default::default() },
        }
    })));
    let t_sd = Instant::now();
    rt.shutdown_timeout(Duration::from_millis(200));
    if std::env::var("C10_TRACE").is_ok() { eprintln!("  runtime shutdown took {} ms", t_sd.elapsed().as_millis()); }
    match res {
        Ok(r) => r,
        Err(e) => {
            let msg = if let Some(s) = e.downcast_ref::<&str>() { s.to_string() } else if let Some(s) = e.downcast_ref::<String>() { s.clone() } else { "panic".into() };
            RunResult { panic: Some(msg), stage: "panic".into(), ..Default::default() }
        }
    }
}

fn main() {
    let args = parse_args();
    silence_panics();
    let mut out = Out::new(&args.out);
    let mut rng = Rng::new(args.seed);
    let lat = lattice();
    let thorough = args.tier == "thorough";

    // corpus: the configurations of /repo's own integration tests, the combinations the property text
    // names as untested ("non-BUNDLE video in RTP mode with rtcp-mux negotiate", "UDP mux with ICE-lite"),
    // the witnesses of the listed findings (C10-F1 fixed: SDES callee that answers late; C10-F2 open)
    let base = Point { mode: 0, mix: 0, bundle: 0, mux: 0, ice_lite: false, tcp: 0, udp_mux: false, latching: false, compat: 0, s_offers: true,
                       mux_p: 0, compat_p: 0, tcp_only: false, dcep: false };
    let mut corpus: Vec<(Point, u64)> = vec![
        (base, 0),
        (Point { mix: 2, ..base }, 0),
        (Point { mix: 6, ..base }, 0),
        (Point { mode: 2, mix: 2, ..base }, 0),
        (Point { mode: 1, mix: 1, ..base }, 0),
        (Point { mode: 1, mix: 1, ..base }, 300),                  // C10-F1 witness (fixed): must connect
        (Point { mode: 1, mix: 3, ..base }, 300),
        (Point { mode: 1, mix: 3, compat: 1, compat_p: 1, ..base }, 0),         // C10-F2 witness (open)
        (Point { mode: 2, mix: 3, mux: 1, mux_p: 1, compat: 1, compat_p: 1, ..base }, 0),
        (Point { mode: 2, mix: 3, mux: 1, mux_p: 1, compat: 1, compat_p: 1, ice_lite: true, s_offers: false, latching: true, ..base }, 100),
        (Point { mix: 4, udp_mux: true, ice_lite: true, s_offers: false, ..base }, 0),
        (Point { mix: 6, tcp: 1, udp_mux: true, s_offers: true, ..base }, 100),
        // C10-F4 witnesses (fixed): bundled offer (Standard) answered by a LegacySip endpoint, direct modes
        (Point { mode: 2, mix: 3, compat: 0, compat_p: 1, ..base }, 0),
        (Point { mode: 1, mix: 3, compat: 0, compat_p: 1, ..base }, 0),
        (Point { mode: 2, mix: 3, compat: 1, compat_p: 0, mux: 1, mux_p: 0, ..base }, 0),
        (Point { mode: 0, mix: 6, compat: 1, compat_p: 0, mux: 0, mux_p: 1, ..base }, 0),
        // ICE-TCP as the only path; in-band (DCEP) channel
        (Point { mix: 6, tcp: 1, tcp_only: true, ..base }, 0),
        (Point { mix: 4, tcp: 1, tcp_only: true, dcep: true, ..base }, 150),
        (Point { mix: 0, dcep: true, ..base }, 0),
        (Point { mix: 6, dcep: true, udp_mux: true, ice_lite: true, s_offers: false, compat: 1, ..base }, 0),
    ];
    // C10-F3 witness (fixed): the plain default data-channel pair, several times (it lost SCTP on the offerer in
    // about 1 of 15 runs); distinct answer delays keep the cases distinct
    for k in 1..=6u64 { corpus.push((base, k)); }
    struct Job { p: Point, kind: &'static str, delay_ms: u64, scn: Scn }
    // kind "repeat": no retry (a race that hits half of the calls must not be retried away)
    let mut jobs_v: Vec<Job> = corpus.iter().filter(|(p, _)| p.valid()).map(|(p, d)| Job { p: *p, kind: "corpus", delay_ms: *d, scn: Scn::default() }).collect();
    // scenario variants on fixed points (second-round seeded changes C10-4/5/6): warm-up offer on the answerer over default
    // UDP, ICE-TCP-only, ICE-lite (Rtp) and Rtp/Srtp; in-band channel created by the ANSWERER before / after it applied
    // the offer; answerer adding video before audio on the non-BUNDLE Rtp / Srtp audio+video points (and others)
    let warm = Scn { warmup_offer_on_answerer: true, ..Scn::default() };
    let rev = Scn { ans_tracks_reversed: true, ..Scn::default() };
    let legacy_av = Point { mix: 3, compat: 1, compat_p: 1, ..base };
    for (p, scn) in [
        (base, warm), (Point { mix: 6, ..base }, warm),
        (Point { mix: 0, tcp: 1, tcp_only: true, ..base }, warm), (Point { mix: 6, tcp: 1, tcp_only: true, ..base }, warm),
        (Point { mode: 2, mix: 3, ice_lite: true, s_offers: false, ..base }, warm), (Point { mode: 2, mix: 1, ..base }, warm),
        (Point { mode: 1, mix: 3, ..base }, warm), (Point { mode: 2, ..legacy_av }, warm),
        (base, Scn { ans_dc: 1, ..Scn::default() }), (base, Scn { ans_dc: 2, ..Scn::default() }),
        (Point { mix: 6, ..base }, Scn { ans_dc: 1, warmup_offer_on_answerer: true, ..Scn::default() }),
        (Point { mix: 4, udp_mux: true, ..base }, Scn { ans_dc: 1, ..Scn::default() }),
        (Point { mode: 2, ..legacy_av }, rev), (Point { mode: 2, mux: 1, mux_p: 1, ..legacy_av }, rev),
        (Point { mode: 2, compat: 1, compat_p: 0, mix: 3, ..base }, rev),
        (Point { mode: 1, mix: 3, ..base }, rev), (Point { mode: 2, mix: 3, ..base }, rev), (Point { mix: 6, ..base }, rev),
        (Point { mix: 3, compat: 1, compat_p: 1, ..base }, rev),
    ] {
        if p.valid() { jobs_v.push(Job { p, kind: "corpus", delay_ms: 0, scn }); }
    }
    // generated points get a seeded variant where it applies
    // The warm-up offer is only combined with an answerer whose transceivers mirror the offer's m-lines (same kinds,
    // same order): a discarded create_offer() already assigns a=mid values to the caller's transceivers in ITS order, and
    // when that endpoint then answers an offer with another m-line order (offerer-only in-band channel => the answerer
    // has no application transceiver; reversed tracks) set_remote_description binds the sections to fresh transceivers
    // and the application's tracks are orphaned (no media) -- observed on the clean tree, see notes/C10.md.
    let pick_scn = |p: &Point, rng: &mut Rng| {
        let ans_tracks_reversed = p.has_audio() && p.has_video() && rng.chance(1, 2);
        Scn {
            warmup_offer_on_answerer: !p.dcep && !ans_tracks_reversed && rng.chance(1, 3),
            ans_dc: if p.has_data() && !p.dcep && rng.chance(1, 2) { 1 + rng.below(2) as u8 } else { 0 },
            ans_tracks_reversed,
        }
    };
    // repeated SDES calls (C10-F1 / seeded C10-2 family: the state task of the direct transport racing with
    // set_remote_description / set_local_description): SRTP mode has no ICE/DTLS, a call costs ~30 ms; each runs on a
    // 4-worker runtime; oracle as for every point (both Connected, never Failed, keys mirrored, RTP each way)
    let n_repeat = if std::env::var("C10_SAMPLE").is_ok() || std::env::var("C10_POINT").is_ok() { 0 } else if thorough { 200 } else { 100 };
    for k in 0..n_repeat {
        let mix = [1usize, 2, 3][k % 3];
        jobs_v.push(Job { p: Point { mode: 1, mix, mux: k % 2, mux_p: (k / 2) % 2, s_offers: true, ..base }, kind: "repeat",
                          delay_ms: if k % 4 == 3 { 20 } else { 0 }, scn: Scn::default() });
    }
    let cover = if let Some(n) = std::env::var("C10_SAMPLE").ok().and_then(|s| s.parse::<usize>().ok()) {
        (0..n).map(|_| lat[rng.below(lat.len() as u64) as usize]).collect()   // debugging aid: n random lattice points
    } else if thorough { lat.clone() } else { pairwise(&lat, &mut rng) };
    let n_cover = cover.len();
    let mut seen: BTreeSet<Point> = jobs_v.iter().filter(|j| j.delay_ms == 0 && j.scn == Scn::default()).map(|j| j.p).collect();
    for p in cover {
        // every third generated point is run with a callee that answers after 50..250 ms
        let delay_ms = if rng.chance(1, 3) { 50 + rng.below(201) } else { 0 };
        let scn = pick_scn(&p, &mut rng);
        if seen.insert(p) { jobs_v.push(Job { p, kind: if thorough { "exhaustive" } else { "pairwise" }, delay_ms, scn }); }
    }
    // quick: the covering array only guarantees pairs; add seeded random lattice points for higher-order
    // interactions (a point costs ~0.15 s)
    let n_random = if thorough || std::env::var("C10_SAMPLE").is_ok() { 0 } else { 400 };
    let by_mode: Vec<Vec<Point>> = (0..3).map(|m| lat.iter().filter(|p| p.mode == m).cloned().collect()).collect();
    for k in 0..n_random {
        // stratified by transport mode (WebRtc is 94% of the lattice): half WebRtc, a quarter each direct mode
        let stratum = &by_mode[[0, 1, 0, 2][k % 4]];
        let p = stratum[rng.below(stratum.len() as u64) as usize];
        let delay_ms = if rng.chance(1, 3) { 50 + rng.below(201) } else { 0 };
        let scn = pick_scn(&p, &mut rng);
        if seen.insert(p) { jobs_v.push(Job { p, kind: "random", delay_ms, scn }); }
    }
    // quick: fail fast (a point that cannot connect must not cost minutes); thorough: generous
    let base_tmo = if thorough {
        Timeouts { gather: Duration::from_secs(10), connect: Duration::from_secs(25), deliver: Duration::from_secs(4), deliver_data: Duration::from_secs(15), answer_delay: Duration::ZERO, scn: Scn::default() }
    } else {
        Timeouts { gather: Duration::from_secs(6), connect: Duration::from_secs(10), deliver: Duration::from_secs(3), deliver_data: Duration::from_secs(12), answer_delay: Duration::ZERO, scn: Scn::default() }
    };
    // the single retry of a failed point uses shorter timeouts still
    let retry_tmo = Timeouts { gather: Duration::from_secs(6), connect: Duration::from_secs(if thorough { 15 } else { 8 }),
                               deliver: Duration::from_secs(3), deliver_data: Duration::from_secs(8), answer_delay: Duration::ZERO, scn: Scn::default() };
    // budget: once this many points have failed (after their retry) or this much time has passed, the remaining RANDOM
    // points are skipped (corpus, repeat scenario and covering array always run); the evidence says so
    let max_failed: usize = if thorough { usize::MAX } else { 10 };
    let budget = if thorough { Duration::from_secs(6 * 3600) } else { Duration::from_secs(240) };
    // debugging aids: C10_POINT="mode mix bundle mux lite tcp udpmux latching compat s_offers mux_p compat_p tcp_only dcep" runs one point and
    // prints its SDP; C10_ONLY=<mode name> restricts the run to one transport mode
    if let Ok(spec) = std::env::var("C10_POINT") {
        let f: Vec<usize> = spec.split_whitespace().filter_map(|x| x.parse().ok()).collect();
        if f.len() == NF {
            let p = Point { mode: f[0], mix: f[1], bundle: f[2], mux: f[3], ice_lite: f[4] == 1, tcp: f[5], udp_mux: f[6] == 1,
                            latching: f[7] == 1, compat: f[8], s_offers: f[9] == 1, mux_p: f[10], compat_p: f[11], tcp_only: f[12] == 1, dcep: f[13] == 1 };
            let rep: usize = std::env::var("C10_REPEAT").ok().and_then(|s| s.parse().ok()).unwrap_or(1);
            let sv: Vec<u8> = std::env::var("C10_SCN").ok().map(|v| v.split_whitespace().filter_map(|x| x.parse().ok()).collect()).unwrap_or_default();
            let scn = if sv.len() == 3 { Scn { warmup_offer_on_answerer: sv[0] == 1, ans_dc: sv[1], ans_tracks_reversed: sv[2] == 1 } } else { Scn::default() };
            jobs_v = (0..rep).map(|_| Job { p, kind: "corpus", delay_ms: 0, scn }).collect();
            let r = run_blocking(p, &Timeouts { scn, ..base_tmo.clone() }, 2);
            eprintln!("{}\n--- offer\n{}\n--- answer\n{}\n--- {:?}", p.json(), r.offer_sdp, r.answer_sdp, oracle(&p, &r));
            eprintln!("stage={} connected={} data={:?} rtp={:?} err={:?}", r.stage, r.connected, r.data_ok, r.rtp_ok, r.error);
        }
    }
    if let Ok(only) = std::env::var("C10_ONLY") { jobs_v.retain(|j| MODES[j.p.mode] == only); }

    let n_workers: usize = std::env::var("C10_JOBS").ok().and_then(|s| s.parse().ok()).unwrap_or(if thorough { 32 } else { 12 });
    let next = Arc::new(AtomicUsize::new(0));
    let results: Arc<Mutex<Vec<Option<(RunResult, u32, Option<String>)>>>> = Arc::new(Mutex::new(vec![None; jobs_v.len()]));
    let jobs_a = Arc::new(jobs_v);
    let t_all = Instant::now();
    let failed = Arc::new(AtomicUsize::new(0));
    let skipped = Arc::new(AtomicUsize::new(0));
    let mut hs = Vec::new();
    for _ in 0..n_workers {
        let (next, results, jobs_a, base_tmo) = (next.clone(), results.clone(), jobs_a.clone(), base_tmo.clone());
        let (failed, skipped, retry_tmo) = (failed.clone(), skipped.clone(), retry_tmo.clone());
        hs.push(std::thread::spawn(move || loop {
            let i = next.fetch_add(1, Ordering::SeqCst);
            if i >= jobs_a.len() { break; }
            let p = jobs_a[i].p;
            let kind = jobs_a[i].kind;
            if kind == "random" && (failed.load(Ordering::SeqCst) >= max_failed || t_all.elapsed() > budget) {
                skipped.fetch_add(1, Ordering::SeqCst);
                continue;
            }
            let tmo = Timeouts { answer_delay: Duration::from_millis(jobs_a[i].delay_ms), scn: jobs_a[i].scn, ..base_tmo.clone() };
            // tokio workers of the point's own runtime: 4 for the corpus and the repeated SDES calls (widens the races
            // between the state tasks and the signalling calls), 2 otherwise (with 4, the first SCTP INIT often
            // reaches the peer before its SCTP transport exists and the data exchange waits out sctp_rto_initial = 3 s
            // per direction -- correct but slow, it made the full lattice take hours)
            let rt_workers = if kind == "repeat" || kind == "corpus" { 4 } else { 2 };
            let mut r = run_blocking(p, &tmo, rt_workers);
            let mut tries = 1;
            let mut first = None;
            let (mut l, mut rt) = oracle(&p, &r);
            // (debugging aid: C10_NORETRY=1 reports the first attempt of every point as it is)
            if (!l.is_empty() || !rt.is_empty()) && known_class(&p, &r, &rt).is_none() && kind != "repeat" && std::env::var("C10_NORETRY").is_err()
                && !state_fact(&l) {
                // retry once before reporting (sockets / timers are runtime), with short timeouts
                // (candidate counts: an end that lost its fixed port to another socket gathers nothing and shows 0 here)
                first = Some(format!("{} [{}] offer candidates={} answer candidates={}", l.iter().chain(rt.iter()).cloned().collect::<Vec<_>>().join("; "), r.diag.clone().unwrap_or_default(),
                                     r.offer_sdp.matches("a=candidate").count(), r.answer_sdp.matches("a=candidate").count()));
                let tmo2 = Timeouts { answer_delay: tmo.answer_delay, scn: tmo.scn, ..retry_tmo.clone() };
                let r2 = run_blocking(p, &tmo2, rt_workers);
                tries = 2;
                let (l2, rt2) = oracle(&p, &r2);
                if l2.len() + rt2.len() <= l.len() + rt.len() { r = r2; l = l2; rt = rt2; }
            }
            if (!l.is_empty() || !rt.is_empty()) && known_class(&p, &r, &rt).is_none() { failed.fetch_add(1, Ordering::SeqCst); }
            results.lock().unwrap()[i] = Some((r, tries, first));
            if i % 1000 == 999 { eprintln!("c10: {} / {} points, {} failed, {:?}", i + 1, jobs_a.len(), failed.load(Ordering::SeqCst), t_all.elapsed()); }
        }));
    }
    for h in hs { let _ = h.join(); }
    let wall = t_all.elapsed();

    let results = results.lock().unwrap();
    let mut n_connected = 0;
    let mut n_logic = 0;
    let mut n_runtime = 0;
    let mut n_known = 0;
    let mut n_delayed = 0;
    let mut retried = Vec::new();
    let mut by_mode: BTreeMap<String, (u32, u32)> = BTreeMap::new();
    let mut slowest = 0u64;
    let mut slowest_data = 0u64;
    let mut failing = Vec::new();
    for (i, job) in jobs_a.iter().enumerate() {
        let p = &job.p;
        let Some((r, tries, first)) = results[i].clone() else { continue };   // skipped (budget)
        let (logic, runtime) = oracle(p, &r);
        if tries > 1 { retried.push(json!({"point": p.json(), "first_try": first})); }
        if job.delay_ms > 0 { n_delayed += 1; }
        if r.connected { n_connected += 1; }
        slowest = slowest.max(r.connect_ms);
        slowest_data = slowest_data.max(r.data_ms);
        let e = by_mode.entry(MODES[p.mode].to_string()).or_insert((0, 0));
        e.0 += 1;
        if logic.is_empty() && runtime.is_empty() { e.1 += 1; }
        let known = if logic.is_empty() && !runtime.is_empty() { known_class(p, &r, &runtime) } else { None };
        let mut fail = None;
        if !logic.is_empty() { n_logic += 1; fail = Some(format!("negotiation logic: {}", logic.join("; "))); }
        else if !runtime.is_empty() && known.is_none() { n_runtime += 1; fail = Some(format!("runtime (after {} tries): {}", tries, runtime.join("; "))); }
        if known.is_some() { n_known += 1; }
        if fail.is_some() || known.is_some() { failing.push(json!({"point": p.json(), "scenario": format!("{:?}", job.scn), "why": fail.clone().or(known.clone().map(|k| format!("listed finding {k}: {}", runtime.join("; "))))})); }
        // the model sees every point whose offer/answer exchange completed
        let negotiated = matches!(r.stage.as_str(), "negotiated" | "connected" | "exchanged");
        let term = if negotiated && r.panic.is_none() {
            format!("mkCase {} {} {} {}", p.term(), bool_term(in_layout_class(p)), side_term(&r.off), side_term(&r.ans))
        } else { "-".into() };
        let mut desc = json!({"point": p.json(), "answer_delay_ms": job.delay_ms,
            "scenario": {"warmup_offer_on_answerer": job.scn.warmup_offer_on_answerer, "answerer_inband_channel": (match job.scn.ans_dc { 1 => "before offer", 2 => "after offer", _ => "none" }),
                         "answerer_tracks_reversed": job.scn.ans_tracks_reversed, "answerer_channel_ok": r.ans_dc_ok}, "stage": r.stage, "connected": r.connected,
            "connect_ms": r.connect_ms, "tries": tries, "first_try": first, "data_ok": r.data_ok, "data_ms": r.data_ms, "sctp_transport_present": r.sctp_present, "rtp_ok": r.rtp_ok,
            "offerer": side_json(&r.off), "answerer": side_json(&r.ans), "error": r.error, "diag": r.diag});
        if fail.is_some() || known.is_some() {
            desc["offer_sdp"] = json!(r.offer_sdp);
            desc["answer_sdp"] = json!(r.answer_sdp);
        }
        out.push(Case {
            term,
            desc,
            oracle_fail: fail,
            known,
            nontrivial: r.connected,
            key: if job.kind == "repeat" { format!("{}/{}/#{}", p.key(), job.delay_ms, i) } else { format!("{}/{}/{:?}", p.key(), job.delay_ms, job.scn) },
            kind: job.kind.to_string(),
        });
    }
    out.finish(json!({"generator": {
        "tier": args.tier, "seed": args.seed, "lattice_points": lat.len(), "corpus": corpus.len(),
        "covering_array_points": n_cover, "random_points": n_random, "repeated_sdes_calls": n_repeat,
        "random_points_skipped_by_budget": skipped.load(Ordering::SeqCst),
        "budget": {"max_failed_points_before_skipping_random": if thorough { json!(null) } else { json!(max_failed) }, "seconds": budget.as_secs(),
                   "retry_connect_timeout_s": retry_tmo.connect.as_secs()}, "points_run": jobs_a.len(), "with_late_answer": n_delayed, "workers": n_workers,
        "exploration": {"connected": n_connected, "logic_failures": n_logic, "runtime_failures": n_runtime,
                        "listed_finding_hits": n_known, "retried": retried, "slowest_connect_ms": slowest, "slowest_data_roundtrip_ms": slowest_data, "wall_s": wall.as_secs(),
                        "per_mode_points_and_clean": by_mode, "failing_points": failing},
        "timeouts_s": {"gather": base_tmo.gather.as_secs(), "connect": base_tmo.connect.as_secs(), "deliver_rtp": base_tmo.deliver.as_secs(), "deliver_data": base_tmo.deliver_data.as_secs()},
        "note": "connectivity/delivery is runtime: explored, not proved; negotiation logic of every point is compared with the Coq model"
    }}));
}
