//! C11 — DTLS handshakes converge: both sides agree on keys or neither connects.
//! Fault scripts (drop / duplicate / swap-with-next / delay past the retransmit tick / legal
//! re-fragmentation) on every datagram of every flight of a live rustrtc pair; the direct oracle
//! checks agreement (never both Connected on different keys, application data readable) and
//! convergence; every run is also emitted as a Gallina case for the symbolic pair model.
#[path = "dtls_hs/mod.rs"]
mod dtls_hs;
use dtls_hs::engine::*;
use serde_json::json;
use vh::net::Dir;
use vh::*;

const C2S: [Kind; 4] = [Kind::CH, Kind::CKE, Kind::CCS, Kind::FIN];
const S2C: [Kind; 6] = [Kind::SH, Kind::CERT, Kind::SKE, Kind::SHD, Kind::CCS, Kind::FIN];

fn datagrams() -> Vec<(Dir, Kind)> {
    C2S.iter().map(|k| (Dir::AtoB, *k)).chain(S2C.iter().map(|k| (Dir::BtoA, *k))).collect()
}

fn acts() -> Vec<Act> { vec![Act::Drop, Act::Dup, Act::Swap, Act::DelayMs(1300)] }

fn act_name(a: &Act) -> String {
    match a {
        Act::Drop => "drop".into(), Act::Dup => "dup".into(), Act::Swap => "swap".into(),
        Act::DelayMs(d) => format!("delay{}", d),
        Act::Frag { cuts, order } => format!("frag{:?}order{:?}", cuts, order),
        Act::Tamper(t) => format!("tamper{:?}", t), Act::Then(f) => format!("then{:?}", f),
    }
}
fn dname(d: Dir) -> &'static str { if d == Dir::AtoB { "c2s" } else { "s2c" } }

fn single(d: Dir, k: Kind, occ: usize, a: Act) -> Rule { Rule { dir: d, kind: k, occ: Occ::Nth(occ), act: a } }

fn finite(s: &Script) -> bool { s.rules.iter().all(|r| matches!(r.occ, Occ::Nth(_))) }

/// the recorded finding classes, as predicates on (script, outcome): none is open any more
/// (F19 fixed by 1decd50, F20 by 03019cb, F26 by c3f15a2)
fn known_class(_o: &Outcome) -> Option<&'static str> { None }

fn scripts(tier: &str, rng: &mut Rng) -> Vec<(String, Script)> {
    let mut v: Vec<(String, Script)> = vec![];
    let mk = |name: String, cexp, sexp, rules: Vec<Rule>, window_ms| Script { name, cexp, sexp, rules, window_ms };
    // corpus: baseline, the known witnesses
    for (ce, se) in [(Expect::None, Expect::None), (Expect::Right, Expect::None), (Expect::Right, Expect::Right)] {
        v.push(("corpus".into(), mk(format!("baseline {:?}/{:?}", ce, se), ce, se, vec![], 2500)));
    }
    v.push(("corpus".into(), mk("F19 drop server Finished (fixed 1decd50)".into(), Expect::Right, Expect::None, vec![single(Dir::BtoA, Kind::FIN, 0, Act::Drop)], 3300)));
    v.push(("corpus".into(), mk("drop client ClientKeyExchange (fixed c3f15a2)".into(), Expect::Right, Expect::None, vec![single(Dir::AtoB, Kind::CKE, 0, Act::Drop)], 3300)));
    v.push(("corpus".into(), mk("F20 certificate in 3 fragments, order 0,2,1 (fixed 03019cb)".into(), Expect::Right, Expect::None,
        vec![single(Dir::BtoA, Kind::CERT, 0, Act::Frag { cuts: vec![100, 200], order: vec![0, 2, 1] })], 3300)));
    v.push(("corpus".into(), mk("F20 certificate in 3 fragments, middle duplicated (fixed 03019cb)".into(), Expect::Right, Expect::None,
        vec![single(Dir::BtoA, Kind::CERT, 0, Act::Frag { cuts: vec![100, 200], order: vec![0, 1, 1, 2] })], 3300)));
    // all single faults on the first transmission of every datagram
    for (d, k) in datagrams() {
        for a in acts() {
            v.push(("single".into(), mk(format!("{} {:?} {}", dname(d), k, act_name(&a)), Expect::Right, Expect::None, vec![single(d, k, 0, a)], 3300)));
        }
    }
    // single faults on the first retransmission as well (after dropping the original)
    for (d, k) in [(Dir::AtoB, Kind::CH), (Dir::BtoA, Kind::SH), (Dir::BtoA, Kind::SHD), (Dir::AtoB, Kind::FIN), (Dir::BtoA, Kind::FIN), (Dir::BtoA, Kind::CCS), (Dir::AtoB, Kind::CKE), (Dir::BtoA, Kind::CERT)] {
        v.push(("single".into(), mk(format!("{} {:?} dropped twice", dname(d), k), Expect::None, Expect::None,
            vec![single(d, k, 0, Act::Drop), single(d, k, 1, Act::Drop)], 4300)));
    }
    // legal re-fragmentation
    for (d, k) in [(Dir::AtoB, Kind::CH), (Dir::BtoA, Kind::SH), (Dir::BtoA, Kind::CERT), (Dir::BtoA, Kind::SKE), (Dir::AtoB, Kind::CKE)] {
        for (cuts, order) in [(vec![30usize], vec![0usize, 1]), (vec![30], vec![1, 0]), (vec![30], vec![0, 0, 1]), (vec![20, 40], vec![0, 1, 2])] {
            v.push(("refrag".into(), mk(format!("{} {:?} frag{:?} order{:?}", dname(d), k, cuts, order), Expect::Right, Expect::None,
                vec![single(d, k, 0, Act::Frag { cuts, order })], 3300)));
        }
    }
    for order in [vec![0usize, 2, 1], vec![1, 0, 2], vec![0, 1, 1, 2], vec![2, 1, 0], vec![0, 1, 2, 2], vec![0, 0, 1, 2], vec![1, 2, 0], vec![0, 1, 0, 2], vec![2, 0, 1]] {
        v.push(("refrag".into(), mk(format!("s2c CERT frag[100,200] order{:?}", order), Expect::Right, Expect::None,
            vec![single(Dir::BtoA, Kind::CERT, 0, Act::Frag { cuts: vec![100, 200], order })], 3300)));
    }
    // permuted / duplicated fragments of every other plaintext message (all legal per RFC 6347 4.2.3)
    for (d, k) in [(Dir::AtoB, Kind::CH), (Dir::BtoA, Kind::SH), (Dir::BtoA, Kind::SKE), (Dir::AtoB, Kind::CKE)] {
        for order in [vec![0usize, 2, 1], vec![2, 1, 0], vec![0, 1, 1, 2], vec![1, 0, 2]] {
            v.push(("refrag".into(), mk(format!("{} {:?} frag[20,40] order{:?}", dname(d), k, order), Expect::Right, Expect::None,
                vec![single(d, k, 0, Act::Frag { cuts: vec![20, 40], order })], 3300)));
        }
    }
    // the retransmission re-fragmented at different cut points after an incomplete first attempt
    v.push(("refrag".into(), mk("s2c CERT first [100,200] order[0,2], retransmission [150] in order".into(), Expect::Right, Expect::None,
        vec![single(Dir::BtoA, Kind::CERT, 0, Act::Frag { cuts: vec![100, 200], order: vec![0, 2] }),
             single(Dir::BtoA, Kind::CERT, 1, Act::Frag { cuts: vec![150], order: vec![0, 1] })], 3300)));
    // permanent loss (no convergence demanded; agreement still is)
    for (d, k) in [(Dir::BtoA, Kind::FIN), (Dir::AtoB, Kind::FIN), (Dir::AtoB, Kind::CKE), (Dir::BtoA, Kind::CERT)] {
        v.push(("permanent".into(), mk(format!("{} {:?} always dropped", dname(d), k), Expect::None, Expect::None,
            vec![Rule { dir: d, kind: k, occ: Occ::All, act: Act::Drop }], 2600)));
    }
    // double faults: all pairs in the thorough tier, a seeded sample in the quick tier
    let singles: Vec<(Dir, Kind, Act)> = datagrams().into_iter().flat_map(|(d, k)| acts().into_iter().map(move |a| (d, k, a))).collect();
    let mut pairs: Vec<(usize, usize)> = vec![];
    for i in 0..singles.len() { for j in (i + 1)..singles.len() { if (singles[i].0, singles[i].1) != (singles[j].0, singles[j].1) { pairs.push((i, j)); } } }
    let chosen: Vec<(usize, usize)> = if tier == "thorough" { pairs } else {
        let mut c = vec![];
        for _ in 0..60 { c.push(pairs[rng.below(pairs.len() as u64) as usize]); }
        c
    };
    for (i, j) in chosen {
        let (a, b) = (&singles[i], &singles[j]);
        v.push(("double".into(), mk(format!("{} {:?} {} + {} {:?} {}", dname(a.0), a.1, act_name(&a.2), dname(b.0), b.1, act_name(&b.2)),
            Expect::Right, Expect::None, vec![single(a.0, a.1, 0, a.2.clone()), single(b.0, b.1, 0, b.2.clone())], 4400)));
    }
    // random multi-fault histories (first transmission and first retransmission)
    let n_rand = if tier == "thorough" { 300 } else { 40 };
    for i in 0..n_rand {
        let n = rng.range(2, 4);
        let mut rules = vec![];
        for _ in 0..n {
            let (d, k, a) = singles[rng.below(singles.len() as u64) as usize].clone();
            let occ = rng.below(2) as usize;
            if !rules.iter().any(|r: &Rule| r.dir == d && r.kind == k && r.occ == Occ::Nth(occ)) { rules.push(single(d, k, occ, a)); }
        }
        v.push(("random".into(), mk(format!("random#{}", i), Expect::Right, Expect::None, rules, 5400)));
    }
    v
}

#[tokio::main(flavor = "multi_thread", worker_threads = 12)]
async fn main() {
    let args = parse_args();
    silence_panics();
    let mut rng = Rng::new(args.seed);
    let list = scripts(&args.tier, &mut rng);
    let kinds: Vec<String> = list.iter().map(|(k, _)| k.clone()).collect();
    let t0 = std::time::Instant::now();
    let outs = run_all(list.into_iter().map(|(_, s)| s).collect(), 96).await;
    let mut out = Out::new(&args.out);
    let mut dist = std::collections::BTreeMap::<String, usize>::new();
    let mut finals = std::collections::BTreeMap::<String, usize>::new();
    for (o, kind) in outs.iter().zip(kinds) {
        *dist.entry(kind.clone()).or_default() += 1;
        *finals.entry(format!("{}/{}", o.cstate, o.sstate)).or_default() += 1;
        let mut fail: Option<String> = None;
        let mut known: Option<String> = None;
        // agreement
        if o.agree == 2 {
            fail = Some("both endpoints Connected with different keys / profile / exported keying material".into());
        } else if o.both_connected() && (o.app_c2s_ok != Some(true) || o.app_s2c_ok != Some(true)) {
            fail = Some(format!("both Connected but application data not readable (c2s {:?}, s2c {:?})", o.app_c2s_ok, o.app_s2c_ok));
        } else if (o.cstate == 2) != o.export_c.is_some() || (o.sstate == 2) != o.export_s.is_some() {
            fail = Some("export_keying_material does not follow the Connected state".into());
        } else if finite(&o.script) && !o.both_connected() {
            // convergence: every fault hits a bounded number of transmissions, retransmissions get through
            match known_class(o) {
                Some(c) => known = Some(c.into()),
                None => fail = Some(format!("no convergence within {} ms although retransmitted flights are delivered: client {} server {}",
                    o.script.window_ms, o.cstate, o.sstate)),
            }
        }
        out.push(Case {
            term: o.term(),
            desc: o.json(),
            oracle_fail: fail,
            known,
            nontrivial: !o.script.rules.is_empty() && o.rule_hits.iter().any(|h| *h > 0),
            key: o.script.name.clone() + &format!("{:?}", o.script.rules),
            kind,
        });
    }
    // rustrtc against the webrtc-rs `dtls` crate, both roles, ordinal-addressed datagram faults (oracle only)
    use dtls_hs::interop::{self, Fault, Pin};
    let mut jobs = vec![];
    let depth = if args.tier == "thorough" { 7 } else { 5 };
    for client in [true, false] {
        jobs.push(tokio::spawn(interop::run(client, Fault::None, Pin::None, 5000)));
        for r in [true, false] { for n in 0..depth { for f in [Fault::Drop(r, n), Fault::Dup(r, n), Fault::Delay(r, n, 1300)] {
            jobs.push(tokio::spawn(interop::run(client, f, Pin::None, 5000)));
        } } }
    }
    let mut interop_stat = std::collections::BTreeMap::<String, usize>::new();
    for j in jobs {
        let o = j.await.expect("interop task");
        let converged = o.rustrtc_state == 2 && o.peer_connected;
        *interop_stat.entry(format!("rustrtc_{}:{}", if o.rustrtc_is_client { "client" } else { "server" }, if converged { "converged" } else { "not converged" })).or_default() += 1;
        let mut fail = None;
        let mut known = None;
        if converged {
            if o.exporter_equal != Some(true) { fail = Some("rustrtc and webrtc-rs dtls both completed but export different keying material".to_string()); }
            else if !o.app_to_peer || !o.app_from_peer { fail = Some(format!("both completed but application data did not flow (to webrtc-rs {}, from webrtc-rs {})", o.app_to_peer, o.app_from_peer)); }
        } else {
            // class X: rustrtc (client) retransmits byte-identical records; webrtc-rs discards them as replays, so a lost
            // HelloVerifyRequest (its datagram 0) or a lost final flight (its datagram 2) is never re-sent
            let x = o.rustrtc_is_client && matches!(o.fault, Fault::Drop(false, 0) | Fault::Drop(false, 2));
            if x { known = Some("retransmit_same_record_seq".to_string()); }
            else { fail = Some(format!("no convergence with webrtc-rs dtls within 5 s under a single datagram fault: rustrtc state {}, peer connected {} ({:?})", o.rustrtc_state, o.peer_connected, o.peer_error)); }
        }
        out.push(Case { term: "-".into(), desc: json!({"interop": "webrtc-rs dtls 0.17.2", "rustrtc_role": if o.rustrtc_is_client { "client" } else { "server" }, "fault": format!("{:?}", o.fault),
                "rustrtc_state": o.rustrtc_state, "peer_connected": o.peer_connected, "exporter_equal": o.exporter_equal, "app_to_peer": o.app_to_peer, "app_from_peer": o.app_from_peer,
                "datagrams(rustrtc,webrtc-rs)": [o.datagrams.0, o.datagrams.1], "elapsed_s": o.elapsed, "peer_error": o.peer_error}),
            oracle_fail: fail, known, nontrivial: o.fault != Fault::None, key: format!("interop {} {:?}", o.rustrtc_is_client, o.fault), kind: "interop".into() });
    }
    out.finish(json!({"generator": {"scripts_by_kind": dist, "interop_webrtc_rs": interop_stat, "final_state_pairs(client/server codes 1=Handshaking 2=Connected 3=Failed)": finals,
        "datagrams_of_a_handshake": "c2s: ClientHello, ClientKeyExchange, ChangeCipherSpec, Finished; s2c: ServerHello, Certificate, ServerKeyExchange, ServerHelloDone, ChangeCipherSpec, Finished (one record per datagram)",
        "faults": "drop, duplicate, swap-with-next, delay 1300 ms (past the 1 s retransmit tick), re-fragmentation (2-3 fragments, in order / permuted / duplicated)",
        "harness_wall_s": t0.elapsed().as_secs_f64()}}));
}
