#[path = "dtls_hs/mod.rs"]
mod dtls_hs;
use dtls_hs::*;
use rustrtc::transports::dtls::DtlsState;
use std::sync::Arc;
use std::time::{Duration, Instant};
use vh::net::*;

fn st(s: &DtlsState) -> &'static str {
    match s { DtlsState::New => "New", DtlsState::Handshaking => "Handshaking", DtlsState::Connected(..) => "Connected", DtlsState::Failed => "Failed", DtlsState::Closed => "Closed" }
}

async fn run(name: &str, policy: Policy, ce: Option<String>, se: Option<String>, wait: f64) {
    let t0 = Instant::now();
    let log: Arc<parking_lot::Mutex<Vec<String>>> = Arc::new(parking_lot::Mutex::new(vec![]));
    let l2 = log.clone();
    let mut policy = policy;
    let pol: Policy = Box::new(move |d, n, p| {
        let v = policy(d, n, p);
        l2.lock().push(format!("  {:6.3} {:?} #{} {} => {} out", t0.elapsed().as_secs_f64(), d, n, describe(p), v.len()));
        v
    });
    let p = dtls_pair_with(Some(pol), ce, se).await;
    let c = wait_dtls_terminal(&p.client.dtls, Duration::from_secs_f64(wait)).await;
    let s = wait_dtls_terminal(&p.server.dtls, Duration::from_secs_f64(0.3)).await;
    tokio::time::sleep(Duration::from_secs_f64(0.2)).await;
    println!("== {} : client={} server={} ({:.2}s)", name, st(&c), st(&s), t0.elapsed().as_secs_f64());
    for l in log.lock().iter() { println!("{}", l); }
}

#[tokio::main(flavor = "multi_thread", worker_threads = 4)]
async fn main() {
    run("plain", Box::new(|_, _, p| forward(p)), None, None, 3.0).await;
    run("F17 server expects bogus fp", Box::new(|_, _, p| forward(p)), None, Some("00:11".into()), 3.0).await;
    run("client expects bogus fp", Box::new(|_, _, p| forward(p)), Some("00:11".into()), None, 3.0).await;
    // F19: drop every BtoA datagram with an epoch-1 record the first time
    let mut dropped = false;
    run("F19 drop server Finished once", Box::new(move |d, _, p| {
        let rs = parse_records(p);
        if d == Dir::BtoA && rs.iter().any(|r| r.epoch == 1 && r.ct == CT_HANDSHAKE) && !dropped { dropped = true; vec![] } else { forward(p) }
    }), None, None, 5.0).await;
    let mut dropped = false;
    run("drop client CKE once", Box::new(move |d, _, p| {
        let rs = parse_records(p);
        let is_cke = rs.iter().any(|r| r.epoch == 0 && r.ct == CT_HANDSHAKE && parse_frags(&r.payload).iter().any(|f| f.ty == HT_CLIENT_KEY_EXCHANGE));
        if d == Dir::AtoB && is_cke && !dropped { dropped = true; vec![] } else { forward(p) }
    }), None, None, 5.0).await;
    // refragment Certificate
    for (nm, cuts, order) in [("2 in order", vec![100usize], vec![0usize, 1]), ("2 swapped", vec![100], vec![1, 0]), ("3 in order", vec![100, 200], vec![0, 1, 2]), ("3 reordered 0,2,1", vec![100, 200], vec![0, 2, 1]), ("3 dup middle", vec![100, 200], vec![0, 1, 1, 2])] {
        let mut done = false;
        run(&format!("refrag cert {}", nm), Box::new(move |d, _, p| {
            let rs = parse_records(p);
            if d == Dir::BtoA && !done && rs.len() == 1 && rs[0].epoch == 0 && rs[0].ct == CT_HANDSHAKE {
                let fr = parse_frags(&rs[0].payload);
                if fr.len() == 1 && fr[0].ty == HT_CERTIFICATE {
                    done = true;
                    let parts = split_frag(&fr[0], &cuts);
                    return order.iter().map(|&i| (Duration::ZERO, encode_record(&hs_record(0, rs[0].seq, &[parts[i].clone()])))).collect();
                }
            }
            forward(p)
        }), None, None, 4.0).await;
    }
}
