//! C13 — the SCTP sender on the wire.  The endpoint under test is a real `SctpTransport` (with
//! real `DataChannel`s) on a real connected DTLS transport (`vh::sctp_peer::Uut`); the harness is
//! the scripted SCTP peer: it submits messages through the public API, injects SACK / DATA /
//! HEARTBEAT chunks, withholds acknowledgements, stays silent, and reads every packet the
//! endpoint emits with its own SCTP reader (`vh::net::sctp_wire`, independent CRC-32C).
//!
//! Every case is (a) judged by the direct property oracle below, written from the property text
//! and RFC 4960 only, and (b) emitted as a Gallina `case` for `Run/C13Run.v`, where the model of
//! `Model/SctpSendSm.v` must reproduce the packets chunk for chunk.
//!
//! Synchronisation without timing: every injected packet ends with a HEARTBEAT chunk carrying a
//! fresh id ("fence"); the endpoint echoes it in a HEARTBEAT-ACK after it has handled the chunks
//! before it, and the packet reaches the wire only once `run_loop` is parked again.  Only the
//! timer scenarios (silence, T3, tail-loss probe, heartbeats) depend on wall-clock waits.
use rustrtc::transports::sctp::DataChannelConfig;
use rustrtc::RtcConfiguration;
use serde_json::json;
use std::collections::{BTreeMap, BTreeSet, VecDeque};
use std::time::{Duration, Instant};
use vh::net::sctp_wire::*;
use vh::sctp_peer::*;
use vh::*;

const MAX_PKT: usize = 1200;
const MAX_PAYLOAD: usize = 1172;
const PPID_STRING: u32 = 51;
const PPID_BINARY: u32 = 53;

// ------------------------------------------------------------------------------------ scenarios
#[derive(Clone, Debug)]
enum Pay {
    Bytes(Vec<u8>),
    Fill(usize, u8),
    /// byte i = i * a + b (mod 256)
    Pat(usize, u8, u8),
}
impl Pay {
    fn bytes(&self) -> Vec<u8> {
        match self { Pay::Bytes(b) => b.clone(), Pay::Fill(n, b) => vec![*b; *n],
            Pay::Pat(n, a, b) => { let mut x = *b; (0..*n).map(|_| { let y = x; x = x.wrapping_add(*a); y }).collect() } }
    }
    fn len(&self) -> usize {
        match self { Pay::Bytes(b) => b.len(), Pay::Fill(n, _) | Pay::Pat(n, _, _) => *n }
    }
    fn term(&self) -> String {
        match self { Pay::Bytes(b) => format!("(PBytes {})", bytes_term(b)), Pay::Fill(n, b) => format!("(PFill {} {})", n, b),
            Pay::Pat(n, a, b) => format!("(PPat {} {} {})", n, a, b) }
    }
}

/// how a SACK is derived from the harness' view of what is outstanding
#[derive(Clone, Debug)]
enum SackKind {
    /// cumulative ack of everything seen so far
    All,
    /// cumulative ack advanced by `k` outstanding chunks (0 = repeat the current point)
    Advance(usize),
    /// keep the cumulative point, report the outstanding chunks selected by the mask (bit i = i-th
    /// outstanding chunk after the first hole) as gap blocks
    Gaps(u64),
    /// advance by k, then gaps by mask
    AdvanceGaps(usize, u64),
    /// a cumulative point `k` before the current one (stale / reordered SACK)
    Stale(u32),
    /// explicit (relative cumulative TSN, gap blocks)
    Explicit(i64, Vec<(u16, u16)>),
    /// many gap blocks over scattered holes: advance the cumulative point by `adv`, leave the next
    /// chunk a hole, then report up to `n` blocks of `width` chunks each, separated by one-chunk holes
    /// (a SACK chunk holds (1188 - 16) / 4 = 293 blocks; no limit of 8 as with the masks)
    Scatter(usize, usize, usize),
}

#[derive(Clone, Debug)]
enum InChunk {
    Sack(SackKind, u32),
    /// in-order complete message from the peer on stream `sid`
    DataNext(u16, usize),
}

#[derive(Clone, Debug)]
enum Step {
    /// submit a message, then a fence-only packet
    Send(u16, bool, Pay),
    /// submit a message and wait (no fence): exactly one notified transmit
    SendWait(u16, bool, Pay, u64),
    /// inject one packet (chunks + fence)
    Pkt(Vec<InChunk>),
    /// acknowledge everything until the endpoint has nothing left to send (bounded)
    Flush(u32),
    /// stay silent for so many milliseconds, recording wake-up bursts
    Silence(u64),
}

#[derive(Clone, Debug)]
struct Scn {
    kind: String,
    client: bool,
    peer_rwnd: u32,
    rto_ms: u64,     // initial = min = max
    hb_ms: u64,
    max_burst: usize,
    max_cwnd: usize,
    /// (id, ordered, max_payload_size)
    chans: Vec<(u16, bool, Option<usize>)>,
    steps: Vec<Step>,
    raw: bool,
    timed: bool,
    /// hook H1: the initial TSN the endpoint announces (None = random)
    init_tsn: Option<u32>,
}

impl Scn {
    fn new(kind: &str) -> Scn {
        Scn { kind: kind.into(), client: true, peer_rwnd: 1 << 20, rto_ms: 20_000, hb_ms: 3_600_000, max_burst: 0,
              max_cwnd: 256 * 1024, chans: vec![(0, true, None)], steps: vec![], raw: false, timed: false, init_tsn: None }
    }
}

// ------------------------------------------------------------------------------------ trace
#[derive(Clone, Debug)]
enum MChunk {
    Sack { now: u64, cum: u32, rwnd: u32, gaps: Vec<(u16, u16)> },
    Hb(Vec<u8>),
    DataNext,
}
#[derive(Clone, Debug)]
enum MOp {
    Send(u16, u32, Pay),
    Pkt(Vec<MChunk>),
    /// a phase in which the harness only listens (timer wake-ups of the endpoint)
    Silence(u64),
}
struct Rec {
    op: MOp,
    pkts: Vec<(Packet, Vec<u8>, u64)>,
}

struct Sent {
    size: usize,
    bytes: Vec<u8>, // the whole chunk (header + value)
}

/// the harness' own view of the association (for SACK generation and the oracle)
struct View {
    init: u32,
    seen: BTreeMap<u32, Sent>, // by relative TSN
    next_rel: u32,
    cum_rel: i64,              // highest relative TSN cumulatively acked by an injected SACK (-1 = none)
    gap_acked: BTreeSet<u32>,
    rwnd: u32,
    /// the oracle's view: acknowledgements / window the endpoint has certainly processed (the fence
    /// of the packet that carried them has been echoed) ...
    o_cum_rel: i64,
    o_gap_acked: BTreeSet<u32>,
    o_rwnd: u32,
    /// ... and those injected whose fence is still outstanding (packets seen meanwhile may have been
    /// produced before or after the endpoint handled them)
    p_cum_rel: i64,
    p_gap_acked: BTreeSet<u32>,
    p_rwnd: Option<u32>,
    peer_next_tsn: u32,
    peer_ssn: BTreeMap<u16, u16>,
    /// per stream: messages submitted and not yet fully seen on the wire: (ppid, ordered, bytes, expected ssn)
    expect: BTreeMap<u16, VecDeque<(u32, bool, Vec<u8>, u16)>>,
    partial: BTreeMap<u16, Vec<u8>>,
    ssn_next: BTreeMap<u16, u16>,
    fails: Vec<String>,
    retx_seen: bool,
    fresh_chunks: usize,
    retx_chunks: usize,
    packets: usize,
    max_pkt: usize,
}

impl View {
    fn outstanding(&self) -> Vec<u32> {
        self.seen.keys().cloned().filter(|t| (*t as i64) > self.cum_rel && !self.gap_acked.contains(t)).collect()
    }
    /// bytes the peer has certainly not acknowledged yet (most permissive reading while a SACK is in flight)
    fn outstanding_bytes_lo(&self) -> usize {
        let c = self.o_cum_rel.max(self.p_cum_rel);
        self.seen.iter().filter(|(t, _)| (**t as i64) > c && !self.o_gap_acked.contains(t) && !self.p_gap_acked.contains(t)).map(|(_, s)| s.size).sum()
    }
    fn rwnd_hi(&self) -> u32 { self.o_rwnd.max(self.p_rwnd.unwrap_or(0)) }
    fn commit(&mut self) {
        self.o_cum_rel = self.o_cum_rel.max(self.p_cum_rel);
        let p = std::mem::take(&mut self.p_gap_acked);
        self.o_gap_acked.extend(p);
        if let Some(r) = self.p_rwnd.take() { self.o_rwnd = r; }
    }
    fn fail(&mut self, s: String) {
        if self.fails.len() < 8 { self.fails.push(s); }
    }
}

fn pad4(n: usize) -> usize { (n + 3) & !3 }

/// the direct oracle, applied to every packet the endpoint emits
fn observe(v: &mut View, u_peer_tag: u32, p: &Packet, raw: &[u8], timed: bool, in_silence_after_all_acked: bool) {
    v.packets += 1;
    v.max_pkt = v.max_pkt.max(p.len);
    if p.len > MAX_PKT { v.fail(format!("packet of {} bytes exceeds the {}-byte limit", p.len, MAX_PKT)); }
    if !p.checksum_ok { v.fail(format!("packet with wrong CRC32c (len {})", p.len)); }
    if p.vtag != u_peer_tag { v.fail(format!("verification tag {:08x} is not the peer's tag {:08x}", p.vtag, u_peer_tag)); }
    if !p.well_formed { v.fail("malformed chunk length in emitted packet".into()); }
    if p.src_port != UUT_PORT || p.dst_port != PEER_PORT { v.fail(format!("ports {}->{}", p.src_port, p.dst_port)); }
    if raw.len() % 4 != 0 { v.fail(format!("packet length {} not a multiple of 4", raw.len())); }
    for c in &p.chunks {
        if in_silence_after_all_acked && c.ty != 4 {
            v.fail(format!("chunk type {} emitted although everything submitted was acknowledged (only HEARTBEAT may appear)", c.ty));
        }
        let Some(d) = parse_data(c) else { continue };
        let rel = d.tsn.wrapping_sub(v.init);
        let size = pad4(16 + d.payload.len());
        if d.payload.len() > MAX_PAYLOAD { v.fail(format!("DATA payload of {} bytes", d.payload.len())); }
        let mut whole = vec![c.ty, c.flags];
        whole.extend_from_slice(&c.value);
        if rel == v.next_rel {
            // first transmission
            v.fresh_chunks += 1;
            if v.rwnd_hi() == 0 {
                v.fail(format!("new DATA (tsn +{}) sent although the advertised window is 0", rel));
            } else if !timed && v.outstanding_bytes_lo() >= v.rwnd_hi() as usize {
                v.fail(format!("new DATA (tsn +{}) sent with {} bytes outstanding >= advertised window {}", rel, v.outstanding_bytes_lo(), v.rwnd_hi()));
            }
            v.next_rel = v.next_rel.wrapping_add(1);
            v.seen.insert(rel, Sent { size, bytes: whole });
            // reassembly per stream, in TSN order
            let b = d.flags & 2 != 0;
            let e = d.flags & 1 != 0;
            let uflag = d.flags & 4 != 0;
            let front = v.expect.get(&d.sid).and_then(|q| q.front().cloned());
            match front {
                None => v.fail(format!("DATA on stream {} but nothing was submitted there", d.sid)),
                Some((ppid, ordered, msg, ssn)) => {
                    let part = v.partial.entry(d.sid).or_default();
                    if b != part.is_empty() && !(b && msg.is_empty()) {
                        if b { v.fails.push(format!("B flag in the middle of a message (tsn +{})", rel)); }
                        else { v.fails.push(format!("missing B flag on the first fragment (tsn +{})", rel)); }
                    }
                    if !b && part.is_empty() && !msg.is_empty() { /* reported above */ }
                    part.extend_from_slice(&d.payload);
                    if d.ppid != ppid { v.fails.push(format!("ppid {} instead of {}", d.ppid, ppid)); }
                    if uflag == ordered { v.fails.push(format!("U flag {} on an {} channel", uflag, if ordered { "ordered" } else { "unordered" })); }
                    if d.ssn != ssn { v.fails.push(format!("ssn {} instead of {} (tsn +{})", d.ssn, ssn, rel)); }
                    if d.payload.is_empty() && !msg.is_empty() { v.fails.push("empty fragment of a non-empty message".into()); }
                    let done = part.len() >= msg.len();
                    if e != done { v.fails.push(format!("E flag {} but {} of {} bytes seen (tsn +{})", e, part.len(), msg.len(), rel)); }
                    if e || done {
                        if *part != msg { v.fails.push(format!("fragments of the message on stream {} do not concatenate to it", d.sid)); }
                        v.partial.remove(&d.sid);
                        v.expect.get_mut(&d.sid).unwrap().pop_front();
                    }
                }
            }
        } else if (rel.wrapping_sub(v.next_rel) as i32) < 0 {
            // retransmission
            v.retx_chunks += 1;
            v.retx_seen = true;
            if (rel as i64) <= v.o_cum_rel {
                v.fail(format!("TSN +{} retransmitted after a SACK with cumulative ack +{} was delivered", rel, v.o_cum_rel));
            } else if v.o_gap_acked.contains(&rel) {
                v.fail(format!("TSN +{} retransmitted after it was gap-acked", rel));
            }
            match v.seen.get(&rel) {
                Some(s) if s.bytes == whole => {}
                _ => v.fail(format!("retransmission of TSN +{} differs from the original chunk", rel)),
            }
        } else {
            v.fail(format!("TSN +{} sent but +{} was never sent: new DATA not consecutive", rel, v.next_rel));
        }
    }
}

// ------------------------------------------------------------------------------------ runner
struct Outcome {
    recs: Vec<Rec>,
    tail: Vec<(Packet, Vec<u8>, u64)>,
    view: View,
    init: u32,
    peer_tsn: u32,
    peer_tag: u32,
    retry: Option<String>,
    hang: Option<String>,
}

fn hb_chunk(id: u32) -> (Chunk, Vec<u8>) {
    let mut v = vec![0, 1, 0, 8];
    v.extend_from_slice(&id.to_be_bytes());
    (Chunk { ty: 4, flags: 0, value: v.clone() }, v)
}

fn gaps_from(out: &[u32], cum_rel: i64, mask: u64) -> (Vec<(u16, u16)>, Vec<u32>) {
    // outstanding chunks after the first one (the first stays a hole), selected by mask
    let mut sel = vec![];
    for (i, t) in out.iter().enumerate().skip(1) {
        if mask >> ((i - 1) % 64) & 1 == 1 { sel.push(*t); }
    }
    let mut gaps: Vec<(u16, u16)> = vec![];
    let mut acked = vec![];
    for t in sel {
        let off = (t as i64 - cum_rel) as i64;
        if off < 2 || off > 65535 { continue; }
        let off = off as u16;
        if let Some(last) = gaps.last_mut() {
            if last.1 + 1 == off { last.1 = off; acked.push(t); continue; }
        }
        if gaps.len() >= 8 { break; }
        gaps.push((off, off));
        acked.push(t);
    }
    (gaps, acked)
}

async fn run_scn(s: &Scn, seed: u64) -> Outcome {
    let mut cfg = RtcConfiguration::default();
    cfg.sctp_rto_initial = Duration::from_millis(s.rto_ms);
    cfg.sctp_rto_min = Duration::from_millis(s.rto_ms);
    cfg.sctp_rto_max = Duration::from_millis(s.rto_ms);
    cfg.sctp_heartbeat_interval = Duration::from_millis(s.hb_ms);
    cfg.sctp_max_burst = s.max_burst;
    cfg.sctp_max_cwnd = s.max_cwnd;
    cfg.sctp_max_buffered_amount = 0;
    let channels = s.chans.iter().map(|(id, ordered, mps)| {
        (*id, DataChannelConfig { label: format!("c{}", id), negotiated: Some(*id), ordered: *ordered, max_payload_size: *mps, ..Default::default() })
    }).collect();
    let peer_tag = 0x1000_0000u32.wrapping_add((seed as u32) & 0x0FFF_FFFF) | 1;
    let peer_tsn = (seed >> 7) as u32;
    if s.init_tsn.is_some() { rustrtc::transports::sctp::verif_set_initial_tsn(s.init_tsn); }
    let mut u = Uut::start(UutOpts { sctp_client: s.client, peer_tag, peer_initial_tsn: peer_tsn, peer_rwnd: s.peer_rwnd, config: cfg, channels }).await;
    if s.init_tsn.is_some() { rustrtc::transports::sctp::verif_set_initial_tsn(None); }
    let t0 = Instant::now();
    let mut v = View { init: u.uut_initial_tsn, seen: BTreeMap::new(), next_rel: 0, cum_rel: -1, gap_acked: BTreeSet::new(), rwnd: s.peer_rwnd,
        o_cum_rel: -1, o_gap_acked: BTreeSet::new(), o_rwnd: s.peer_rwnd, p_cum_rel: -1, p_gap_acked: BTreeSet::new(), p_rwnd: None,
        peer_next_tsn: peer_tsn, peer_ssn: BTreeMap::new(), expect: BTreeMap::new(), partial: BTreeMap::new(), ssn_next: BTreeMap::new(),
        fails: vec![], retx_seen: false, fresh_chunks: 0, retx_chunks: 0, packets: 0, max_pkt: 0 };
    let mut recs: Vec<Rec> = vec![];
    let mut fence_id = 0x5EED_0000u32 ^ (seed as u32).rotate_left(9);
    let mut retry: Option<String> = None;
    let mut hang: Option<String> = None;
    let ordered_of: BTreeMap<u16, bool> = s.chans.iter().map(|c| (c.0, c.1)).collect();
    let mut phase_start = Instant::now();
    // injection times of the SACKs that triggered a fast retransmit (a retransmission came out with them)
    let mut fr_times: Vec<u64> = vec![];
    let mut last_sack_time: Option<u64> = None;
    let mut cooldown_ambiguous = false;

    macro_rules! ms { () => { t0.elapsed().as_millis() as u64 } }

    // submit one message through the public API and record what the oracle must see for it
    async fn submit(u: &Uut, v: &mut View, ordered_of: &BTreeMap<u16, bool>, sid: u16, text: bool, pay: &Pay) -> Result<(), String> {
        let bytes = pay.bytes();
        let known = ordered_of.get(&sid).cloned();
        let ordered = known.unwrap_or(true);
        let ssn = if known.is_some() && ordered { let e = v.ssn_next.entry(sid).or_insert(0); let x = *e; *e = e.wrapping_add(1); x } else { 0 };
        let ppid = if text { PPID_STRING } else { PPID_BINARY };
        v.expect.entry(sid).or_default().push_back((ppid, ordered, bytes.clone(), ssn));
        let r = if text {
            // send_text takes a str: payloads of text messages are ASCII by construction
            tokio::time::timeout(Duration::from_secs(5), u.sctp.send_text(sid, String::from_utf8(bytes).unwrap())).await
        } else {
            tokio::time::timeout(Duration::from_secs(5), u.sctp.send_data(sid, &bytes)).await
        };
        match r { Ok(Ok(())) => Ok(()), Ok(Err(e)) => Err(format!("send failed: {}", e)), Err(_) => Err("send_data did not return within 5 s".into()) }
    }

    // inject chunks + fence, collect packets up to and including the fence echo
    async fn fenced(u: &mut Uut, v: &mut View, s: &Scn, fence_id: &mut u32, chunks: Vec<Chunk>, mchunks: Vec<MChunk>, t0: Instant, peer_tag: u32)
        -> Result<Rec, String> {
        *fence_id = fence_id.wrapping_add(1);
        let (hb, info) = hb_chunk(*fence_id);
        let mut all = chunks;
        all.push(hb);
        u.inject_chunks(&all);
        let mut m = mchunks;
        m.push(MChunk::Hb(info.clone()));
        let mut pkts = vec![];
        loop {
            let Some(raw) = u.next_raw(Duration::from_secs(5)).await else { return Err("no HEARTBEAT-ACK for the fence within 5 s".into()) };
            let Some(p) = parse_packet(&raw) else { return Err("unparseable packet".into()) };
            observe(v, peer_tag, &p, &raw, s.timed, false);
            let is_fence = p.chunks.len() == 1 && p.chunks[0].ty == 5 && p.chunks[0].value == info;
            pkts.push((p, raw.to_vec(), t0.elapsed().as_millis() as u64));
            if is_fence { v.commit(); break; }
        }
        // what the post-packet transmit produced follows the echo immediately; picking it up here (it
        // would otherwise be read with the next operation) keeps the harness' view current
        while let Some(raw) = u.next_raw(Duration::from_millis(2)).await {
            let Some(p) = parse_packet(&raw) else { continue };
            observe(v, peer_tag, &p, &raw, s.timed, false);
            pkts.push((p, raw.to_vec(), t0.elapsed().as_millis() as u64));
        }
        Ok(Rec { op: MOp::Pkt(m), pkts })
    }

    'steps: for st in &s.steps {
        // expand Flush into repeated "ack all"
        let mut work: Vec<Step> = vec![];
        match st {
            Step::Flush(n) => { for _ in 0..*n { work.push(Step::Pkt(vec![InChunk::Sack(SackKind::All, 1 << 20)])); } }
            other => work.push(other.clone()),
        }
        let is_flush = matches!(st, Step::Flush(_));
        for w in work {
            let retx_before = v.retx_chunks;
            match w {
                Step::Send(sid, text, pay) => {
                    if let Err(e) = submit(&u, &mut v, &ordered_of, sid, text, &pay).await { hang = Some(e); break 'steps; }
                    recs.push(Rec { op: MOp::Send(sid, if text { PPID_STRING } else { PPID_BINARY }, pay.clone()), pkts: vec![] });
                    match fenced(&mut u, &mut v, s, &mut fence_id, vec![], vec![], t0, peer_tag).await {
                        Ok(r) => recs.push(r),
                        Err(e) => { hang = Some(e); break 'steps; }
                    }
                }
                Step::SendWait(sid, text, pay, wait) => {
                    if let Err(e) = submit(&u, &mut v, &ordered_of, sid, text, &pay).await { hang = Some(e); break 'steps; }
                    let mut pkts = vec![];
                    loop {
                        let Some(raw) = u.next_raw(Duration::from_millis(wait)).await else { break };
                        let Some(p) = parse_packet(&raw) else { continue };
                        observe(&mut v, peer_tag, &p, &raw, s.timed, false);
                        pkts.push((p, raw.to_vec(), ms!()));
                    }
                    recs.push(Rec { op: MOp::Send(sid, if text { PPID_STRING } else { PPID_BINARY }, pay.clone()), pkts });
                }
                Step::Pkt(ins) => {
                    if is_flush && v.outstanding().is_empty() && v.expect.values().all(|q| q.is_empty()) { continue; }
                    let mut chunks = vec![];
                    let mut mch = vec![];
                    for ic in ins {
                        match ic {
                            InChunk::Sack(kind, rwnd) => {
                                let out = v.outstanding();
                                let all_after_cum: Vec<u32> = v.seen.keys().cloned().filter(|t| (*t as i64) > v.cum_rel).collect();
                                let (cum_rel, gaps, newly): (i64, Vec<(u16, u16)>, Vec<u32>) = match kind {
                                    SackKind::All => (v.next_rel as i64 - 1, vec![], vec![]),
                                    SackKind::Advance(k) => (v.cum_rel + (k.min(all_after_cum.len())) as i64, vec![], vec![]),
                                    SackKind::Gaps(mask) => { let (g, a) = gaps_from(&all_after_cum, v.cum_rel, mask); (v.cum_rel, g, a) }
                                    SackKind::AdvanceGaps(k, mask) => {
                                        let c = v.cum_rel + (k.min(all_after_cum.len())) as i64;
                                        let rest: Vec<u32> = all_after_cum.iter().cloned().filter(|t| (*t as i64) > c).collect();
                                        let (g, a) = gaps_from(&rest, c, mask);
                                        (c, g, a)
                                    }
                                    SackKind::Stale(k) => (v.cum_rel - k as i64, vec![], vec![]),
                                    SackKind::Scatter(adv, n, width) => {
                                        let c = v.cum_rel + (adv.min(all_after_cum.len())) as i64;
                                        let rest: Vec<u32> = all_after_cum.iter().cloned().filter(|t| (*t as i64) > c).collect();
                                        let (mut g, mut a) = (vec![], vec![]);
                                        let mut i = 1usize; // rest[0] stays a hole
                                        while g.len() < n && i + width <= rest.len() {
                                            let (s0, e0) = (rest[i] as i64 - c, rest[i + width - 1] as i64 - c);
                                            if e0 > 65535 { break; }
                                            g.push((s0 as u16, e0 as u16));
                                            a.extend_from_slice(&rest[i..i + width]);
                                            i += width + 1;
                                        }
                                        (c, g, a)
                                    }
                                    SackKind::Explicit(c, g) => {
                                        let mut a = vec![];
                                        for (s0, e0) in &g { for o in *s0..=*e0 { let t = c + o as i64; if t >= 0 && v.seen.contains_key(&(t as u32)) { a.push(t as u32); } } }
                                        (c, g, a)
                                    }
                                };
                                let _ = out;
                                let cum = v.init.wrapping_add(cum_rel as u32);
                                chunks.push(sack_chunk(cum, rwnd, &gaps, &[]));
                                // the model compares these time stamps with the 50 ms fast-retransmit cooldown and the 500 ms
                                // fast-recovery re-entry cooldown (both counted from a SACK that triggered a fast retransmit);
                                // the endpoint reads its own clock a little later.  Keep every SACK clearly on one side of
                                // both constants: well inside (< 12 ms / < 380 ms) or, by waiting, well beyond (> 90 ms / > 700 ms)
                                loop {
                                    let t = ms!();
                                    let mut wait = 0u64;
                                    for t_prev in &fr_times {
                                        let d = t.saturating_sub(*t_prev);
                                        if (12..=90).contains(&d) { wait = wait.max(91 - d); }
                                        if (380..=700).contains(&d) { wait = wait.max(701 - d); }
                                    }
                                    if wait == 0 { break; }
                                    tokio::time::sleep(Duration::from_millis(wait)).await;
                                }
                                let t_now = ms!();
                                for t_prev in &fr_times {
                                    let d = t_now.saturating_sub(*t_prev);
                                    if (12..=90).contains(&d) || (380..=700).contains(&d) { cooldown_ambiguous = true; }
                                }
                                last_sack_time = Some(t_now);
                                mch.push(MChunk::Sack { now: t_now, cum, rwnd, gaps: gaps.clone() });
                                // the oracle's view: from now on these TSNs are acknowledged
                                if cum_rel > v.cum_rel { v.cum_rel = cum_rel; }
                                v.p_cum_rel = v.p_cum_rel.max(cum_rel);
                                for t in newly { v.gap_acked.insert(t); v.p_gap_acked.insert(t); }
                                v.rwnd = rwnd;
                                v.p_rwnd = Some(v.p_rwnd.map(|x| x.max(rwnd)).unwrap_or(rwnd));
                            }
                            InChunk::DataNext(sid, n) => {
                                let ssn = { let e = v.peer_ssn.entry(sid).or_insert(0); let x = *e; *e = e.wrapping_add(1); x };
                                chunks.push(data_chunk(v.peer_next_tsn, sid, ssn, PPID_BINARY, 0x03, &vec![0x5a; n]));
                                v.peer_next_tsn = v.peer_next_tsn.wrapping_add(1);
                                mch.push(MChunk::DataNext);
                            }
                        }
                    }
                    match fenced(&mut u, &mut v, s, &mut fence_id, chunks, mch, t0, peer_tag).await {
                        Ok(r) => recs.push(r),
                        Err(e) => { hang = Some(e); break 'steps; }
                    }
                }
                Step::Silence(dur) => {
                    // a fence first: whatever the scripted phase still had in the pipe belongs to it
                    match fenced(&mut u, &mut v, s, &mut fence_id, vec![], vec![], t0, peer_tag).await {
                        Ok(mut r) => {
                            while let Some(raw) = u.next_raw(Duration::from_millis(20)).await {
                                if let Some(p) = parse_packet(&raw) {
                                    observe(&mut v, peer_tag, &p, &raw, s.timed, false);
                                    r.pkts.push((p, raw.to_vec(), ms!()));
                                }
                            }
                            recs.push(r);
                        }
                        Err(e) => { hang = Some(e); break 'steps; }
                    }
                    if s.timed && v.retx_chunks != retx_before { retry = Some("retransmission timer fired during the scripted phase".into()); }
                    if phase_start.elapsed() > Duration::from_millis(s.rto_ms / 4) {
                        retry = Some(format!("scripted phase took {} ms (> rto/4)", phase_start.elapsed().as_millis()));
                    }
                    let all_acked = v.outstanding().is_empty() && v.expect.values().all(|q| q.is_empty()) && v.next_rel > 0;
                    let end = Instant::now() + Duration::from_millis(dur);
                    let mut pkts: Vec<(Packet, Vec<u8>, u64)> = vec![];
                    let mut last: Option<Instant> = None;
                    loop {
                        let now = Instant::now();
                        // past the end: keep listening while packets are still arriving (do not cut a wake-up's burst)
                        let wait = if now < end { end - now } else {
                            match last { Some(t) if t.elapsed() < Duration::from_millis(12) => Duration::from_millis(12) - t.elapsed(), _ => break }
                        };
                        if let Some(raw) = u.next_raw(wait).await {
                            if let Some(p) = parse_packet(&raw) {
                                observe(&mut v, peer_tag, &p, &raw, s.timed, all_acked);
                                pkts.push((p, raw.to_vec(), ms!()));
                                last = Some(Instant::now());
                            }
                        }
                    }
                    recs.push(Rec { op: MOp::Silence(dur), pkts });
                    // the next scripted phase is measured from the *planned* end of the silence: if this task was
                    // scheduled late, the endpoint's timers kept running meanwhile
                    phase_start = end;
                    continue;
                }
                Step::Flush(_) => unreachable!(),
            }
            if v.retx_chunks != retx_before { if let Some(t) = last_sack_time { fr_times.push(t); } }
            last_sack_time = None;
            // timed scenarios are written without fast retransmit: a retransmission outside a silence phase means
            // that a timer (T3 / probe) of the endpoint fired in the middle of the script
            if s.timed && v.retx_chunks != retx_before { retry = Some("retransmission timer fired during the scripted phase".into()); }
            // a HEARTBEAT outside a silence phase means a timer fired in the middle of the script
            if let Some(r) = recs.last() {
                if r.pkts.iter().any(|(p, _, _)| p.chunks.iter().any(|c| c.ty == 4)) { retry = Some("heartbeat timer fired during the scripted phase".into()); }
            }
        }
    }
    if s.timed && hang.is_none() && phase_start.elapsed() > Duration::from_millis(s.rto_ms / 4) {
        retry = Some(format!("last scripted phase took {} ms (> rto/4)", phase_start.elapsed().as_millis()));
    }
    if cooldown_ambiguous && v.retx_seen && !s.timed {
        retry = Some("SACKs were injected at a distance close to a cooldown constant and retransmissions occurred".into());
    }
    // everything the last operation left behind
    let mut tail = vec![];
    if hang.is_none() {
        loop {
            let Some(raw) = u.next_raw(Duration::from_millis(if s.timed { 40 } else { 80 })).await else { break };
            if let Some(p) = parse_packet(&raw) {
                observe(&mut v, peer_tag, &p, &raw, s.timed, false);
                if p.chunks.iter().any(|c| c.ty == 4) { retry = Some("heartbeat in the tail".into()); }
                tail.push((p, raw.to_vec(), ms!()));
            }
        }
    }
    let init = u.uut_initial_tsn;
    Outcome { recs, tail, view: v, init, peer_tsn, peer_tag, retry, hang }
}


// ------------------------------------------------------------------------------------ terms
fn pay_of(b: &[u8]) -> Pay {
    if !b.is_empty() && b.iter().all(|x| *x == b[0]) { return Pay::Fill(b.len(), b[0]); }
    if b.len() >= 8 {
        let a = b[1].wrapping_sub(b[0]);
        if b.windows(2).all(|w| w[1].wrapping_sub(w[0]) == a) { return Pay::Pat(b.len(), a, b[0]); }
    }
    Pay::Bytes(b.to_vec())
}
fn ochunk_term(c: &Chunk) -> String {
    if let Some(d) = parse_data(c) {
        return format!("OData {} {} {} {} {} {}", d.tsn, d.sid, d.ssn, d.ppid, d.flags, pay_of(&d.payload).term());
    }
    match c.ty {
        3 => match parse_sack(&c.value) {
            Some(s) => format!("OSack {} {} {} {}", s.cum, s.a_rwnd, s.gaps.len(), s.dups.len()),
            None => format!("OOther 3 {}", c.value.len()),
        },
        4 => format!("OHb {}", c.value.len()),
        5 => format!("OHbAck {}", bytes_term(&c.value)),
        t => format!("OOther {} {}", t, c.value.len()),
    }
}
fn opkt_term(p: &Packet) -> String {
    format!("({}, {})", p.len, list_term(&p.chunks.iter().map(ochunk_term).collect::<Vec<_>>()))
}
fn mop_term(m: &MOp) -> String {
    match m {
        MOp::Send(sid, ppid, pay) => format!("MSend {} {} {}", sid, ppid, pay.term()),
        MOp::Pkt(ch) => format!("MPkt {}", list_term(&ch.iter().map(|c| match c {
            MChunk::Sack { now, cum, rwnd, gaps } => format!("ISack {} {} {} {}", now, cum, rwnd,
                list_term(&gaps.iter().map(|(a, b)| format!("({}, {})", a, b)).collect::<Vec<_>>())),
            MChunk::Hb(info) => format!("IHb {}", bytes_term(info)),
            MChunk::DataNext => "IDataNext".into(),
        }).collect::<Vec<_>>())),
        MOp::Silence(_) => "MSilence".into(),
    }
}
fn mop_json(m: &MOp) -> serde_json::Value {
    match m {
        MOp::Send(sid, ppid, pay) => json!({"send": {"sid": sid, "ppid": ppid, "len": pay.len()}}),
        MOp::Pkt(ch) => json!({"inject": ch.iter().map(|c| match c {
            MChunk::Sack { now, cum, rwnd, gaps } => json!({"sack": {"t_ms": now, "cum": cum, "a_rwnd": rwnd, "gaps": gaps}}),
            MChunk::Hb(_) => json!("fence"),
            MChunk::DataNext => json!("data"),
        }).collect::<Vec<_>>()}),
        MOp::Silence(ms) => json!({"silence_ms": ms}),
    }
}
fn pkt_json(p: &Packet, init: u32) -> serde_json::Value {
    json!({"len": p.len, "chunks": p.chunks.iter().map(|c| match parse_data(c) {
        Some(d) => json!({"DATA": {"tsn": format!("+{}", d.tsn.wrapping_sub(init)), "sid": d.sid, "ssn": d.ssn, "flags": d.flags, "len": d.payload.len()}}),
        None => json!({"type": c.ty, "len": c.value.len()}),
    }).collect::<Vec<_>>()})
}

fn case_of(s: &Scn, o: &Outcome) -> Case {
    let cfg_term = format!("(mkCfg {} {} {} {} {})", s.max_burst, s.max_cwnd, 8, 128 * 1024,
        list_term(&s.chans.iter().map(|(id, ord, mps)| format!("(mkCh {} {} {})", id, bool_term(*ord), mps.unwrap_or(1200))).collect::<Vec<_>>()));
    let obs = list_term(&o.recs.iter().map(|r| list_term(&r.pkts.iter().map(|(p, _, _)| opkt_term(p)).collect::<Vec<_>>())).collect::<Vec<_>>());
    let tail = list_term(&o.tail.iter().map(|(p, _, _)| opkt_term(p)).collect::<Vec<_>>());
    // raw bytes of a few data-bearing packets (first two, last) for the byte-exact comparison incl. CRC
    let mut raw_terms = vec![];
    if s.raw {
        let mut idx = 0usize;
        let mut cands = vec![];
        for (p, raw, _) in o.recs.iter().flat_map(|r| r.pkts.iter()).chain(o.tail.iter()) {
            let hback = p.chunks.len() == 1 && p.chunks[0].ty == 5;
            if hback { continue; }
            if !p.chunks.iter().any(|c| c.ty == 4) { cands.push((idx, raw.clone())); }
            idx += 1;
        }
        let n = cands.len();
        for (k, (i, raw)) in cands.into_iter().enumerate() {
            if k < 2 || k + 1 == n { raw_terms.push(format!("({}, {})", i, bytes_term(&raw))); }
        }
    }
    let term = format!("mkCase {} {} {} {} {} {} {} {} {} {} {}", cfg_term, UUT_PORT, PEER_PORT, o.peer_tag, o.init, s.peer_rwnd, o.peer_tsn,
        list_term(&o.recs.iter().map(|r| mop_term(&r.op)).collect::<Vec<_>>()), obs, tail, list_term(&raw_terms));
    let v = &o.view;
    let mut fail = if v.fails.is_empty() { None } else { Some(v.fails.join("; ")) };
    if let Some(h) = &o.hang { fail = Some(format!("{}{}", h, fail.map(|f| format!("; {}", f)).unwrap_or_default())); }
    let desc = json!({
        "kind": s.kind, "role": if s.client { "client" } else { "server" }, "peer_rwnd": s.peer_rwnd, "rto_ms": s.rto_ms, "hb_ms": s.hb_ms,
        "max_burst": s.max_burst, "max_cwnd": s.max_cwnd, "channels": s.chans,
        "ops": o.recs.iter().map(|r| json!({"op": mop_json(&r.op), "emitted": r.pkts.iter().map(|(p, _, t)| json!({"t_ms": t, "pkt": pkt_json(p, o.init)})).collect::<Vec<_>>() })).collect::<Vec<_>>(),
        "tail": o.tail.iter().map(|(p, _, _)| pkt_json(p, o.init)).collect::<Vec<_>>(),
        "fresh_chunks": v.fresh_chunks, "retransmitted_chunks": v.retx_chunks, "packets": v.packets, "max_packet": v.max_pkt,
    });
    let key = format!("{:?}|{:?}|{}|{}|{}|{}|{:?}", s.steps, s.chans, s.peer_rwnd, s.max_burst, s.max_cwnd, s.client, s.rto_ms);
    Case { term, desc, oracle_fail: fail, known: None, nontrivial: v.fresh_chunks > 0, key, kind: s.kind.clone() }
}

// ------------------------------------------------------------------------------------ generators
fn ascii(r: &mut Rng, n: usize) -> Vec<u8> { (0..n).map(|_| 32 + (r.below(95) as u8)).collect() }

fn size_pick(r: &mut Rng, stats: &mut BTreeMap<String, u64>) -> usize {
    let (name, n) = match r.below(10) {
        0 => ("empty", 0),
        1 | 2 => ("small", r.range(1, 64) as usize),
        3 => ("boundary", *r.pick(&[1171usize, 1172, 1173, 1168, 1169, 2343, 2344, 2345, 3516, 3517])),
        4 | 5 => ("one-chunk", r.range(65, 1172) as usize),
        6 | 7 => ("few-chunks", r.range(1173, 6000) as usize),
        8 => ("many-chunks", r.range(6001, 30000) as usize),
        _ => ("unaligned", (r.range(1, 300) * 4 + r.range(1, 3)) as usize),
    };
    *stats.entry(format!("size:{}", name)).or_default() += 1;
    n
}

fn corpus() -> Vec<Scn> {
    let mut out = vec![];
    // message sizes around every fragmentation boundary, each on an ordered and an unordered channel
    let sizes = [0usize, 1, 2, 3, 4, 5, 1171, 1172, 1173, 1174, 1175, 1176, 2343, 2344, 2345, 3516, 4 * 1172 + 1, 65536];
    for (i, &n) in sizes.iter().enumerate() {
        for ordered in [true, false] {
            let mut s = Scn::new("corpus-size");
            s.client = i % 2 == 0;
            s.chans = vec![(1, ordered, None)];
            s.raw = n <= 4 * 1172 + 1;
            let pay = if n <= 1175 { Pay::Bytes((0..n).map(|k| ((k * 7 + 3 * i + 1) ^ (k >> 3)) as u8).collect()) } else { Pay::Pat(n, 7 + 2 * i as u8, i as u8) };
            s.steps = vec![Step::Send(1, false, pay), Step::Flush(40)];
            out.push(s);
        }
    }
    // small configured max_payload_size (fragment size = min(mps, 1172)), incl. mps above the default
    for (mps, n) in [(1usize, 5usize), (2, 5), (7, 50), (100, 1000), (1171, 2342), (1172, 2345), (1173, 2400), (1200, 2400), (4096, 5000)] {
        let mut s = Scn::new("corpus-mps");
        s.chans = vec![(2, true, Some(mps))];
        s.raw = true;
        s.steps = vec![Step::Send(2, false, Pay::Bytes((0..n).map(|k| (k * 13 + mps) as u8).collect())), Step::Flush(60)];
        out.push(s);
    }
    // several channels interleaved, text and binary, ssn per channel, unknown channel id
    {
        let mut s = Scn::new("corpus-channels");
        s.chans = vec![(0, true, None), (3, false, None), (7, true, Some(500))];
        s.raw = true;
        s.steps = vec![
            Step::Send(0, true, Pay::Bytes(b"hello".to_vec())), Step::Send(3, false, Pay::Fill(1500, 9)), Step::Send(7, false, Pay::Fill(1200, 1)),
            Step::Send(0, false, Pay::Fill(0, 0)), Step::Send(0, true, Pay::Bytes(b"x".to_vec())), Step::Send(9, false, Pay::Fill(10, 4)),
            Step::Send(7, true, Pay::Bytes(b"tail".to_vec())), Step::Flush(20),
        ];
        out.push(s);
    }
    // SACK bundling with DATA, in-order inbound data
    {
        let mut s = Scn::new("corpus-bundle");
        s.steps = vec![Step::Pkt(vec![InChunk::DataNext(0, 10)]), Step::Send(0, false, Pay::Fill(100, 2)), Step::Pkt(vec![InChunk::DataNext(0, 10), InChunk::DataNext(0, 20)]),
                       Step::Pkt(vec![InChunk::DataNext(0, 5), InChunk::Sack(SackKind::All, 1 << 20)]), Step::Flush(3)];
        s.raw = true;
        out.push(s);
    }
    // windows: zero, one byte, one chunk minus/plus one, small
    for rw in [0u32, 1, 1187, 1188, 1189, 2376, 4096, 8192, 16384, 65536] {
        let mut s = Scn::new("corpus-window");
        s.peer_rwnd = rw;
        s.steps = vec![Step::Send(0, false, Pay::Fill(20000, 7)), Step::Pkt(vec![]), Step::Pkt(vec![InChunk::Sack(SackKind::Advance(1), rw)]),
                       Step::Pkt(vec![InChunk::Sack(SackKind::All, rw)]), Step::Pkt(vec![InChunk::Sack(SackKind::All, 0)]), Step::Send(0, false, Pay::Fill(3000, 8)),
                       Step::Pkt(vec![InChunk::Sack(SackKind::All, rw.max(1200))]), Step::Flush(40)];
        out.push(s);
    }
    // fast retransmit: three distinct SACKs reporting a hole, then the hole is filled
    for burst in [0usize, 1, 8] {
        let mut s = Scn::new("corpus-fast-retransmit");
        s.max_burst = burst;
        s.steps = vec![Step::Send(0, false, Pay::Fill(9000, 3)), Step::Pkt(vec![]), Step::Pkt(vec![]),
                       Step::Pkt(vec![InChunk::Sack(SackKind::Gaps(0b1), 1 << 20)]), Step::Pkt(vec![InChunk::Sack(SackKind::Gaps(0b11), 1 << 20)]),
                       Step::Pkt(vec![InChunk::Sack(SackKind::Gaps(0b111), 1 << 20)]), Step::Pkt(vec![InChunk::Sack(SackKind::Gaps(0b111), 1 << 20)]),
                       Step::Pkt(vec![InChunk::Sack(SackKind::Gaps(0b1111), 1 << 20)]), Step::Pkt(vec![InChunk::Sack(SackKind::Advance(1), 1 << 20)]),
                       Step::Flush(20)];
        out.push(s);
    }
    out
}

/// SACKs with many Gap Ack Blocks (a foreign peer may send as many as fit a packet): around 16, and up
/// to 280, over scattered holes with 40..600 small chunks in flight; untimed (fast retransmit of the
/// holes, further SACKs) and timed (T3 / probe after the SACK): nothing a block covered may come back
fn many_gaps_corpus(thorough: bool) -> Vec<Scn> {
    let mut out = vec![];
    let big = 1u32 << 20;
    let ns: &[usize] = if thorough { &[15, 16, 17, 18, 31, 32, 33, 64, 128, 280] } else { &[15, 16, 17, 18, 32, 64, 280] };
    for (k, &n) in ns.iter().enumerate() {
        // chunks of 20 bytes (configured max_payload_size), enough of them for n one-chunk blocks
        let chunks = 2 * n + 6;
        let mut s = Scn::new("corpus-many-gaps");
        s.client = k % 2 == 0;
        s.chans = vec![(0, true, Some(20))];
        s.max_cwnd = 1 << 20;
        s.steps = vec![Step::Send(0, false, Pay::Pat(20 * chunks, 3, k as u8)), Step::Pkt(vec![]), Step::Pkt(vec![]), Step::Pkt(vec![]), Step::Pkt(vec![]),
                       Step::Pkt(vec![InChunk::Sack(SackKind::Scatter(1, n, 1), big)]),
                       Step::Pkt(vec![InChunk::Sack(SackKind::Scatter(1, n, 1), big)]),
                       Step::Pkt(vec![InChunk::Sack(SackKind::Scatter(2, n, 1), big)]),
                       Step::Pkt(vec![InChunk::Sack(SackKind::Scatter(0, n, 2), big)]),
                       Step::Pkt(vec![InChunk::Sack(SackKind::Scatter(1, n, 1), big)]),
                       Step::Send(0, false, Pay::Pat(200, 5, k as u8)),
                       Step::Pkt(vec![InChunk::Sack(SackKind::Advance(3), big)]), Step::Flush(30)];
        out.push(s);
        // 2n+1 chunks: the last block covers the tail chunk (what the probe would pick if it stayed unacked)
        let chunks = 2 * n + 1;
        let mut s = Scn::new("timed-many-gaps");
        s.timed = true; s.rto_ms = 240;
        s.chans = vec![(0, true, Some(20))];
        s.max_cwnd = 1 << 20;
        s.steps = vec![Step::Send(0, false, Pay::Fill(10, 0x70)), Step::Pkt(vec![InChunk::Sack(SackKind::All, big)]),
                       Step::Send(0, false, Pay::Pat(20 * chunks, 7, k as u8)), Step::Pkt(vec![]), Step::Pkt(vec![]), Step::Pkt(vec![]),
                       Step::Pkt(vec![InChunk::Sack(SackKind::Scatter(1, n, 1), big)]), Step::Silence(240 * 5 / 2),
                       Step::Pkt(vec![InChunk::Sack(SackKind::Scatter(1, n, 2), big)]), Step::Silence(240 * 3 / 2),
                       Step::Flush(30), Step::Silence(300)];
        out.push(s);
    }
    // the seeded shape: 35 messages of 100 bytes, one SACK with cum = first TSN and 17 single-TSN blocks, then time
    // (35 fenced submissions take ~100 ms: a longer RTO keeps the scripted phase well below rto/4)
    let mut s = Scn::new("timed-many-gaps");
    s.timed = true; s.rto_ms = 800;
    s.steps = vec![];
    for i in 0..35u8 { s.steps.push(Step::Send(0, false, Pay::Fill(100, i))); }
    s.steps.extend(vec![Step::Pkt(vec![InChunk::Sack(SackKind::Scatter(1, 17, 1), big)]), Step::Silence(800 * 2), Step::Flush(30), Step::Silence(300)]);
    out.push(s);
    out
}

fn timed_corpus(thorough: bool) -> Vec<Scn> {
    let mut out = vec![];
    let rtos: &[u64] = if thorough { &[200, 400] } else { &[240] };
    // an acknowledged first message gives the endpoint an RTT sample: the probe time-out is then
    // rto/2 and the timer events of a silence phase are at least rto/2 apart
    let prime = |steps: Vec<Step>| -> Vec<Step> {
        let mut v = vec![Step::Send(0, false, Pay::Fill(10, 0x70)), Step::Pkt(vec![InChunk::Sack(SackKind::All, 1 << 20)])];
        v.extend(steps);
        v
    };
    for &rto in rtos {
        // everything acknowledged, then silence for several RTOs: nothing at all on the wire
        let mut s = Scn::new("timed-quiescent");
        s.timed = true; s.rto_ms = rto;
        s.steps = prime(vec![Step::Send(0, false, Pay::Fill(5000, 1)), Step::Flush(10), Step::Silence(rto * 4)]);
        out.push(s);
        // ... and with a short heartbeat interval: nothing but heartbeats
        let mut s = Scn::new("timed-quiescent-heartbeat");
        s.timed = true; s.rto_ms = rto; s.hb_ms = rto * 3 / 2;
        s.steps = prime(vec![Step::Send(0, false, Pay::Fill(3000, 1)), Step::Flush(10), Step::Pkt(vec![InChunk::DataNext(0, 8)]), Step::Silence(rto * 5)]);
        out.push(s);
        // nothing acknowledged: tail-loss probe / T3 bursts, then everything acknowledged and silence again
        let mut s = Scn::new("timed-t3");
        s.timed = true; s.rto_ms = rto;
        s.steps = prime(vec![Step::Send(0, false, Pay::Fill(8000, 2)), Step::Silence(rto * 7 / 2), Step::Pkt(vec![InChunk::Sack(SackKind::All, 1 << 20)]), Step::Silence(rto * 3)]);
        out.push(s);
        // one chunk only (TLP and T3 alternate on the same record)
        let mut s = Scn::new("timed-t3-single");
        s.timed = true; s.rto_ms = rto;
        s.steps = prime(vec![Step::Send(0, false, Pay::Fill(100, 2)), Step::Silence(rto * 7 / 2), Step::Flush(3), Step::Silence(rto * 2)]);
        out.push(s);
        // partial cumulative ack, time passes: the acked TSNs never reappear
        let mut s = Scn::new("timed-partial-ack");
        s.timed = true; s.rto_ms = rto;
        s.steps = prime(vec![Step::Send(0, false, Pay::Fill(6000, 3)), Step::Pkt(vec![InChunk::Sack(SackKind::Advance(2), 1 << 20)]), Step::Silence(rto * 7 / 2),
                       Step::Pkt(vec![InChunk::Sack(SackKind::Advance(1), 1 << 20)]), Step::Silence(rto * 5 / 2), Step::Flush(10), Step::Silence(rto * 2)]);
        out.push(s);
        // gap ack, time passes: the gap-acked TSNs are not retransmitted by T3 / TLP
        let mut s = Scn::new("timed-gap-ack");
        s.timed = true; s.rto_ms = rto;
        s.steps = prime(vec![Step::Send(0, false, Pay::Fill(5500, 4)), Step::Pkt(vec![InChunk::Sack(SackKind::Gaps(0b1011), 1 << 20)]), Step::Silence(rto * 7 / 2),
                       Step::Flush(10), Step::Silence(rto * 2)]);
        out.push(s);
        // zero window, time passes: only retransmissions, no new data; window reopens
        let mut s = Scn::new("timed-zero-window");
        s.timed = true; s.rto_ms = rto; s.peer_rwnd = 4096;
        s.steps = prime(vec![Step::Send(0, false, Pay::Fill(12000, 5)), Step::Pkt(vec![InChunk::Sack(SackKind::Advance(1), 0)]), Step::Silence(rto * 7 / 2),
                       Step::Pkt(vec![InChunk::Sack(SackKind::All, 0)]), Step::Silence(rto * 2), Step::Pkt(vec![InChunk::Sack(SackKind::All, 8192)]), Step::Flush(20), Step::Silence(rto * 2)]);
        out.push(s);
        // a single notified transmit per submission (no fence)
        let mut s = Scn::new("timed-unfenced-send");
        s.timed = true; s.rto_ms = 2000;
        s.steps = prime(vec![Step::SendWait(0, false, Pay::Fill(20000, 6), 60), Step::SendWait(0, false, Pay::Fill(10, 6), 60), Step::Pkt(vec![InChunk::Sack(SackKind::All, 1 << 20)]), Step::Flush(30)]);
        out.push(s);
    }
    out
}

/// associations whose TSNs cross 2^32 (hook H1 fixes the initial TSN); run one at a time
fn wrap_corpus() -> Vec<Scn> {
    let mut out = vec![];
    // the outstanding TSNs straddle the wrap when a cumulative SACK for the part below it arrives; then silence:
    // nothing the SACK covered may be retransmitted by T3 / the probe
    for back in [3u32, 4, 2] {
        let mut s = Scn::new("wrap-timed-partial-ack");
        s.timed = true; s.rto_ms = 240; s.init_tsn = Some(0u32.wrapping_sub(back));
        s.steps = vec![Step::Send(0, false, Pay::Fill(10, 0x70)), Step::Pkt(vec![InChunk::Sack(SackKind::All, 1 << 20)]),
                       Step::Send(0, false, Pay::Fill(20, 1)), Step::Send(0, false, Pay::Fill(20, 2)), Step::Send(0, false, Pay::Fill(20, 3)), Step::Send(0, false, Pay::Fill(20, 4)),
                       Step::Pkt(vec![InChunk::Sack(SackKind::Advance(1), 1 << 20)]), Step::Silence(240 * 5 / 2),
                       Step::Pkt(vec![InChunk::Sack(SackKind::Advance(1), 1 << 20)]), Step::Silence(240 * 3 / 2), Step::Flush(5), Step::Silence(300)];
        out.push(s);
    }
    // untimed traffic across the wrap: sizes, acks, gaps, fast retransmit
    for (k, back) in [1u32, 4, 9, 40].iter().enumerate() {
        let mut s = Scn::new("wrap-untimed");
        s.init_tsn = Some(0u32.wrapping_sub(*back));
        s.max_burst = [0usize, 2, 8, 0][k];
        s.steps = vec![Step::Send(0, false, Pay::Pat(9000, 3, k as u8)), Step::Pkt(vec![]), Step::Pkt(vec![InChunk::Sack(SackKind::Advance(2), 1 << 20)]),
                       Step::Pkt(vec![InChunk::Sack(SackKind::Gaps(0b101), 1 << 20)]), Step::Pkt(vec![InChunk::Sack(SackKind::Gaps(0b111), 1 << 20)]),
                       Step::Pkt(vec![InChunk::Sack(SackKind::Gaps(0b1111), 1 << 20)]), Step::Send(0, false, Pay::Pat(30000, 5, k as u8)),
                       Step::Pkt(vec![InChunk::Sack(SackKind::Advance(1), 1 << 20)]), Step::Pkt(vec![InChunk::Sack(SackKind::Advance(3), 4096)]),
                       Step::Pkt(vec![InChunk::Sack(SackKind::Stale(2), 1 << 20)]), Step::Flush(40)];
        out.push(s);
    }
    out
}

fn gen_random(r: &mut Rng, stats: &mut BTreeMap<String, u64>) -> Scn {
    let mut s = Scn::new("random");
    s.client = r.chance(1, 2);
    s.peer_rwnd = *r.pick(&[0u32, 1188, 4096, 8192, 16384, 65536, 1 << 20, 1 << 20, 1 << 20]);
    s.max_burst = *r.pick(&[0usize, 0, 0, 1, 2, 8]);
    s.max_cwnd = *r.pick(&[256 * 1024usize, 256 * 1024, 16384, 6000]);
    let nch = r.range(1, 3) as usize;
    s.chans = (0..nch).map(|i| (i as u16 * 2, r.chance(2, 3), if r.chance(1, 4) { Some(*r.pick(&[1usize, 50, 600, 1171, 1172, 1173, 1400])) } else { None })).collect();
    *stats.entry(format!("rwnd:{}", s.peer_rwnd)).or_default() += 1;
    *stats.entry(format!("burst:{}", s.max_burst)).or_default() += 1;
    let n = r.range(6, 28);
    let mut fill = 1u8;
    for _ in 0..n {
        let rw = *r.pick(&[0u32, 1188, 4096, 16384, 1 << 20, 1 << 20, 1 << 20, 1 << 20]);
        let step = match r.below(16) {
            0..=4 => {
                let ch = s.chans[r.below(nch as u64) as usize];
                let sid = if r.chance(1, 12) { 99 } else { ch.0 };
                let mut n = size_pick(r, stats);
                // tiny configured fragment sizes: keep the number of chunks per message moderate
                if let Some(m) = ch.2 { if m < 600 && sid != 99 { n = n.min(24 * m); } }
                let text = r.chance(1, 4);
                fill = fill.wrapping_add(1);
                let pay = if n <= 256 && r.chance(1, 2) { if text { Pay::Bytes(ascii(r, n)) } else { Pay::Bytes(r.bytes(n)) } }
                          else if text { Pay::Fill(n, 65 + fill % 26) }
                          else if r.chance(1, 3) { Pay::Fill(n, fill) } else { Pay::Pat(n, (r.next() as u8) | 1, r.next() as u8) };
                Step::Send(sid, text, pay)
            }
            5 | 6 => Step::Pkt(vec![InChunk::Sack(SackKind::All, rw)]),
            7 | 8 => Step::Pkt(vec![InChunk::Sack(SackKind::Advance(r.below(4) as usize), rw)]),
            9 | 10 => Step::Pkt(vec![InChunk::Sack(SackKind::Gaps(r.next() & 0xFFFF), rw)]),
            11 => Step::Pkt(vec![InChunk::Sack(SackKind::AdvanceGaps(r.below(3) as usize, r.next() & 0xFF), rw)]),
            12 => if r.chance(1, 2) { Step::Pkt(vec![InChunk::Sack(SackKind::Stale(r.range(1, 5) as u32), rw)]) }
                  else { Step::Pkt(vec![InChunk::Sack(SackKind::Scatter(r.below(3) as usize, *r.pick(&[9usize, 16, 17, 24, 40, 100]), r.range(1, 2) as usize), rw)]) },
            13 => Step::Pkt(vec![InChunk::DataNext(s.chans[0].0, r.range(1, 100) as usize)]),
            14 => Step::Pkt(vec![]),
            _ => Step::Pkt(vec![InChunk::DataNext(s.chans[0].0, 4), InChunk::Sack(SackKind::All, rw)]),
        };
        *stats.entry(format!("step:{}", match &step { Step::Send(..) => "send", Step::Pkt(v) if v.is_empty() => "fence", Step::Pkt(v) => match &v[0] {
            InChunk::Sack(SackKind::All, _) => "sack-all", InChunk::Sack(SackKind::Advance(_), _) => "sack-advance", InChunk::Sack(SackKind::Gaps(_), _) => "sack-gaps",
            InChunk::Sack(SackKind::AdvanceGaps(..), _) => "sack-advance-gaps", InChunk::Sack(SackKind::Stale(_), _) => "sack-stale", InChunk::Sack(SackKind::Scatter(..), _) => "sack-scatter", InChunk::Sack(..) => "sack", InChunk::DataNext(..) => "data" }, _ => "other" })).or_default() += 1;
        s.steps.push(step);
    }
    if r.chance(2, 3) { s.steps.push(Step::Flush(30)); }
    s
}

fn gen_window(r: &mut Rng, stats: &mut BTreeMap<String, u64>) -> Scn {
    let mut s = Scn::new("random-window");
    s.client = r.chance(1, 2);
    s.peer_rwnd = *r.pick(&[0u32, 1, 1187, 1188, 1189, 2376, 4096, 4097, 8192, 16384, 32768, 65536]);
    s.max_burst = *r.pick(&[0usize, 0, 2, 8]);
    *stats.entry(format!("rwnd:{}", s.peer_rwnd)).or_default() += 1;
    let mut rw = s.peer_rwnd;
    s.steps.push(Step::Send(0, false, Pay::Fill(r.range(3000, 40000) as usize, 0x11)));
    for _ in 0..r.range(5, 20) {
        if r.chance(1, 4) { rw = *r.pick(&[0u32, 0, 1, 1188, 1189, 4096, 8192, 16384, 65536]); }
        s.steps.push(match r.below(6) {
            0 => Step::Send(0, false, Pay::Fill(r.range(1, 9000) as usize, 0x22)),
            1 => Step::Pkt(vec![]),
            2 | 3 => Step::Pkt(vec![InChunk::Sack(SackKind::Advance(r.range(1, 3) as usize), rw)]),
            4 => Step::Pkt(vec![InChunk::Sack(SackKind::All, rw)]),
            _ => Step::Pkt(vec![InChunk::Sack(SackKind::Advance(0), rw)]),
        });
    }
    s
}

#[tokio::main(flavor = "multi_thread", worker_threads = 8)]
async fn main() {
    let args = parse_args();
    silence_panics();
    let thorough = args.tier == "thorough";
    let mut r = Rng::new(args.seed);
    let mut stats: BTreeMap<String, u64> = BTreeMap::new();
    let mut scns: Vec<Scn> = wrap_corpus();
    scns.extend(corpus());
    scns.extend(many_gaps_corpus(thorough));
    scns.extend(timed_corpus(thorough));
    let nrand = if thorough { 6000 } else { 1100 };
    let nwin = if thorough { 2000 } else { 400 };
    for _ in 0..nrand { scns.push(gen_random(&mut r, &mut stats)); }
    for _ in 0..nwin { scns.push(gen_window(&mut r, &mut stats)); }
    if let Ok(only) = std::env::var("C13_ONLY") { scns.retain(|s| s.kind.contains(&only)); }

    let mut out = Out::new(&args.out);
    let mut retries = 0u64;
    let mut unstable = 0u64;
    let (mut pk, mut fr, mut rt) = (0usize, 0usize, 0usize);
    // hook H1 is process-global: associations with a fixed initial TSN are run one at a time, before all others
    let (fixed, scns): (Vec<Scn>, Vec<Scn>) = scns.into_iter().partition(|s| s.init_tsn.is_some());
    for (i, s) in fixed.into_iter().enumerate() {
        let mut tries = 0u64;
        let o = loop {
            let o = run_scn(&s, args.seed.wrapping_mul(77).wrapping_add(i as u64 * 101 + tries)).await;
            tries += 1;
            if o.retry.is_some() && o.hang.is_none() && o.view.fails.is_empty() && tries < 4 { continue; }
            break o;
        };
        retries += tries - 1;
        pk += o.view.packets; fr += o.view.fresh_chunks; rt += o.view.retx_chunks;
        let mut c = case_of(&s, &o);
        if o.retry.is_some() && c.oracle_fail.is_none() { unstable += 1; c.term = "-".into(); }
        out.push(c);
    }
    // timed scenarios (real timers of the endpoint matter) run before the bulk of untimed scripts and only a
    // few at a time, so that the harness' own load does not stretch their scripted phases
    let (timed, untimed): (Vec<Scn>, Vec<Scn>) = scns.into_iter().partition(|s| s.timed);
    let mut base = 0usize;
    for (group, width) in [(timed, 4usize), (untimed, 24usize)] {
        let sem = std::sync::Arc::new(tokio::sync::Semaphore::new(width));
        let mut handles = vec![];
        let n = group.len();
        for (i, s) in group.into_iter().enumerate() {
            let sem = sem.clone();
            let seed = args.seed.wrapping_mul(0x9E37_79B9).wrapping_add((base + i) as u64 * 7919 + 13);
            handles.push(tokio::spawn(async move {
                let _p = sem.acquire().await.unwrap();
                let mut tries = 0;
                loop {
                    let o = run_scn(&s, seed.wrapping_add(tries)).await;
                    tries += 1;
                    if o.retry.is_some() && o.hang.is_none() && o.view.fails.is_empty() && tries < 5 { continue; }
                    return (s, o, tries);
                }
            }));
        }
        base += n;
        for h in handles {
            let (s, o, tries) = h.await.unwrap();
            retries += (tries - 1) as u64;
            pk += o.view.packets; fr += o.view.fresh_chunks; rt += o.view.retx_chunks;
            let mut c = case_of(&s, &o);
            if o.retry.is_some() && c.oracle_fail.is_none() {
                // timing could not be pinned down in 5 attempts: the direct oracle still applies, the model comparison does not
                unstable += 1;
                c.term = "-".into();
            }
            out.push(c);
        }
    }
    let gen = json!({"seed": args.seed, "distribution": stats, "retries_for_timing": retries, "timing_unstable_cases": unstable,
        "packets_observed": pk, "fresh_data_chunks": fr, "retransmitted_data_chunks": rt});
    out.finish(json!({"generator": gen}));
}
