//! C14 — SRTP-mandatory modes never send or accept cleartext media.
//!
//! Drives the real `RtpTransport` (over a real `IceConn` on a loopback UDP socket) with operation
//! sequences over {install keys, send raw / RTP / RTCP, sync BYE, receive clear / protected RTP / RTCP,
//! install / clear the rewrite bridge to a second transport with / without keys, close}, in every mode
//! (`srtp_required` of the transport and of the bridge target), captures every datagram the two
//! transports put on the wire on a peer socket, records every packet that reaches a listener channel,
//! the RTCP listener, the `RtpObserver` callbacks and the bridge target, and
//!   * evaluates the property oracle on those observations (written from the property text: with
//!     `required`, every datagram must unprotect under a reference SRTP context (webrtc-srtp) keyed
//!     with the installed keys and must not contain the submitted cleartext; nothing injected in clear
//!     or under other keys may reach any sink), independently of the model;
//!   * emits the sequences with the observations as Gallina terms for `Run/C14Run.v`.
//! Keys are installed through the public `RtpTransport::start_srtp(SrtpSession::new(profile, tx, rx))`,
//! exactly as `PeerConnection::setup_srtp` / `setup_sdes` do.
use bytes::Bytes;
use rustrtc::peer_connection::RtpObserver;
use rustrtc::rtp::{Goodbye, PictureLossIndication, RtcpPacket, RtpHeader, RtpPacket};
use rustrtc::srtp::{SrtpKeyingMaterial, SrtpProfile, SrtpSession};
use rustrtc::transports::rtp::{RtpRewriteBridgeParams, RtpTransport};
use rustrtc::transports::PacketReceiver;
use serde_json::json;
use std::collections::{BTreeMap, BTreeSet};
use std::net::SocketAddr;
use std::sync::atomic::Ordering;
use std::sync::Arc;
use std::time::Duration;
use tokio::net::UdpSocket;
use tokio::sync::mpsc;
use rustrtc::transports::ice::conn::IceConn;
use rustrtc::transports::ice::IceSocketWrapper;
use vh::net::Endpoint;
use vh::*;
use webrtc_srtp::context::Context as RefCtx;
use webrtc_srtp::protection_profile::ProtectionProfile as RefProfile;

#[path = "c14_pc/mod.rs"]
mod pc;

// ---------------------------------------------------------------- operations
#[derive(Clone, Copy, Debug, PartialEq, Eq, PartialOrd, Ord)]
enum WireIn {
    Clear,
    /// protected for the transport under the Rx half of key set `ks` (what a legitimate peer sends)
    ProtRx(u8),
    /// protected under the transport's own Tx half (a reflected packet)
    ProtTx(u8),
    /// SRTP / SRTCP-shaped bytes that do not authenticate under any key set
    Forged(Forge),
}

/// inbound forgeries: everything here must be rejected by a keyed transport
#[derive(Clone, Copy, Debug, PartialEq, Eq, PartialOrd, Ord)]
enum Forge {
    /// clear RTCP compound + SRTCP trailer (index word with E = 0, arbitrary tag)
    RtcpClearE0,
    /// clear RTCP compound + SRTCP trailer (E = 1, arbitrary tag)
    RtcpClearE1,
    /// genuine SRTCP under the Rx half of key set ks with the E bit cleared afterwards
    RtcpGenuineE0(u8),
    /// genuine SRTCP with the index word changed afterwards
    RtcpGenuineBadIndex(u8),
    /// genuine SRTCP with the last bytes of the trailer missing
    RtcpTruncated(u8),
    /// clear RTP + arbitrary authentication tag
    RtpRandomTag,
    /// genuine SRTP under key set ks protected with rollover counter 1 (the receiver is at 0)
    RtpWrongRoc(u8),
}
const RTCP_FORGERIES: [Forge; 5] = [Forge::RtcpClearE0, Forge::RtcpClearE1, Forge::RtcpGenuineE0(1), Forge::RtcpGenuineBadIndex(1), Forge::RtcpTruncated(1)];
const RTP_FORGERIES: [Forge; 2] = [Forge::RtpRandomTag, Forge::RtpWrongRoc(1)];

/// The model's view of an inbound datagram is decided FROM ITS BYTES, not from what the generator meant to build:
/// `Clear` if it is the cleartext packet itself, `Prot ks Rx|Tx` if the reference implementation unprotects it
/// under that half of key set ks (SRTCP only with the E bit set) to exactly that cleartext, and otherwise forged:
/// `Prot 0 Rx` -- key set 0 is never installed, so the model predicts that a keyed transport delivers nothing.
#[derive(Clone, Copy, Debug, PartialEq, Eq)]
enum Mapped { Clear, Prot(u8, bool), Forged }
fn map_wire(d: &[u8], clear: &[u8], rtcp: bool, prof: Prof) -> Mapped {
    if d == clear { return Mapped::Clear; }
    for ks in KEYSETS {
        for tx in [false, true] {
            if ref_decrypt_half(ks, tx, prof, rtcp, d).as_deref() == Some(clear) { return Mapped::Prot(ks, tx); }
        }
    }
    Mapped::Forged
}
fn mapped_term(m: Mapped, pid: u32) -> String {
    match m {
        Mapped::Clear => format!("(Clear {})", pid),
        Mapped::Prot(k, tx) => format!("(Prot {} {} {})", k, if tx { "Tx" } else { "Rx" }, pid),
        Mapped::Forged => format!("(Prot 0 Rx {})", pid),
    }
}

/// what the application hands to the raw `send(buf)`
#[derive(Clone, Copy, Debug, PartialEq, Eq, PartialOrd, Ord)]
enum Raw {
    /// a marshalled RTP packet
    Rtp,
    /// 3 bytes
    Short,
    /// an RTCP PLI (12 bytes, FMT 1: as an RTP header it announces one CSRC that is not there)
    Pli,
    /// an RTCP SR-shaped buffer (28 bytes, count 0: a well-formed RTP packet with PT 72 + marker)
    Sr,
    /// an RTCP RR-shaped buffer with one report block (32 bytes, count 1: well-formed RTP with one CSRC)
    Rr1,
}
fn raw_buf(shape: Raw, ssrc: u32, pid: u32) -> Vec<u8> {
    let tail = |v: &mut Vec<u8>, n: usize| { let m = payload_of(pid); for i in 0..n { v.push(m[i % m.len()]); } };
    match shape {
        Raw::Rtp => rtp_packet(ssrc, pid).marshal().unwrap(),
        Raw::Short => vec![0x80, 0x60, pid as u8],
        Raw::Pli => { let mut v = vec![0x81, 206, 0, 2]; v.extend_from_slice(&(TS_BASE + pid).to_be_bytes()); v.extend_from_slice(&(PLI_TAG | pid).to_be_bytes()); v }
        Raw::Sr => { let mut v = vec![0x80, 200, 0, 6]; v.extend_from_slice(&(TS_BASE + pid).to_be_bytes()); v.extend_from_slice(&ssrc.to_be_bytes()); tail(&mut v, 16); v }
        Raw::Rr1 => { let mut v = vec![0x81, 201, 0, 7]; v.extend_from_slice(&(TS_BASE + pid).to_be_bytes()); v.extend_from_slice(&ssrc.to_be_bytes()); tail(&mut v, 20); v }
    }
}
/// "the buffer parses as RTP", decided by an independent parser (webrtc-rs `rtp`)
fn parses_as_rtp(buf: &[u8]) -> bool {
    use webrtc_util::marshal::Unmarshal;
    quiet(|| rtp::packet::Packet::unmarshal(&mut &buf[..]).ok()).is_some()
}

#[derive(Clone, Debug, PartialEq)]
enum Op {
    InstallKeys(u8),
    TInstallKeys(u8),
    Send(Raw),
    SendRtp,
    SendRtcp,
    SyncBye,
    RecvRtp(WireIn),
    RecvRtcp(WireIn),
    SetBridge,
    ClearBridge,
    Close,
}

fn wire_term(w: WireIn, pid: u32) -> String {
    match w {
        WireIn::Clear => format!("(Clear {})", pid),
        WireIn::ProtRx(k) => format!("(Prot {} Rx {})", k, pid),
        WireIn::ProtTx(k) => format!("(Prot {} Tx {})", k, pid),
        WireIn::Forged(f) => format!("(Prot 0 Rx {}) (* {:?} *)", pid, f),
    }
}
fn op_term(o: &Op, pid: u32) -> String {
    match o {
        Op::InstallKeys(k) => format!("InstallKeys {}", k),
        Op::TInstallKeys(k) => format!("TInstallKeys {}", k),
        Op::Send(shape) => format!("Send {} {}", pid, bool_term(parses_as_rtp(&raw_buf(*shape, SSRC_OUT, pid)))),
        Op::SendRtp => format!("SendRtp {}", pid),
        Op::SendRtcp => format!("SendRtcp {}", pid),
        Op::SyncBye => format!("SyncBye {}", pid),
        Op::RecvRtp(w) => format!("RecvRtp {}", wire_term(*w, pid)),
        Op::RecvRtcp(w) => format!("RecvRtcp {}", wire_term(*w, pid)),
        Op::SetBridge => "SetBridge".into(),
        Op::ClearBridge => "ClearBridge".into(),
        Op::Close => format!("Close {}", pid),
    }
}

// ---------------------------------------------------------------- observations
#[derive(Clone, Copy, Debug, PartialEq, Eq, PartialOrd, Ord)]
enum Sock { A, B }
#[derive(Clone, Copy, Debug, PartialEq, Eq, PartialOrd, Ord)]
enum Sink { ObsOut, ObsIn, Bridge, Listener, RtcpListener }
#[derive(Clone, Debug, PartialEq, Eq, PartialOrd, Ord)]
enum Obs {
    /// datagram on a socket: Some(ks) = unprotects under the Tx half of key set ks with the submitted
    /// plaintext inside, None = carries the submitted bytes in clear, Some(-99) = neither
    W(Sock, Option<i32>, i64),
    D(Sink, i64),
    R(bool),
}
fn obs_term(o: &Obs) -> String {
    match o {
        Obs::W(s, k, p) => format!("W {} {} {}", if *s == Sock::A { "SockA" } else { "SockB" },
            match k { Some(k) => format!("(Some {})", z(*k as i128)), None => "None".into() }, z(*p as i128)),
        Obs::D(k, p) => format!("D {} {}", match k {
            Sink::ObsOut => "SObsOut", Sink::ObsIn => "SObsIn", Sink::Bridge => "SBridge",
            Sink::Listener => "SListener", Sink::RtcpListener => "SRtcpListener" }, z(*p as i128)),
        Obs::R(b) => format!("R {}", bool_term(*b)),
    }
}

// ---------------------------------------------------------------- keys, packets
#[derive(Clone, Copy, Debug, PartialEq)]
enum Prof { Sha80, Sha32, Gcm }
impl Prof {
    fn uut(self) -> SrtpProfile {
        match self { Prof::Sha80 => SrtpProfile::Aes128Sha1_80, Prof::Sha32 => SrtpProfile::Aes128Sha1_32, Prof::Gcm => SrtpProfile::AeadAes128Gcm }
    }
    fn reference(self) -> RefProfile {
        match self { Prof::Sha80 => RefProfile::Aes128CmHmacSha1_80, Prof::Sha32 => RefProfile::Aes128CmHmacSha1_32, Prof::Gcm => RefProfile::AeadAes128Gcm }
    }
    fn salt_len(self) -> usize { if self == Prof::Gcm { 12 } else { 14 } }
    fn name(self) -> &'static str { match self { Prof::Sha80 => "AES_CM_128_HMAC_SHA1_80", Prof::Sha32 => "AES_CM_128_HMAC_SHA1_32", Prof::Gcm => "AEAD_AES_128_GCM" } }
}
/// key set `ks`, half `tx` (true = what the transport under test sends under)
fn key_of(ks: u8, tx: bool, p: Prof) -> (Vec<u8>, Vec<u8>) {
    let base = ks as u32 * 2 + if tx { 0 } else { 1 };
    let key = (0..16u32).map(|i| (base * 37 + i * 11 + 1) as u8).collect();
    let salt = (0..p.salt_len() as u32).map(|i| (base * 53 + i * 7 + 101) as u8).collect();
    (key, salt)
}
fn keying(ks: u8, tx: bool, p: Prof) -> SrtpKeyingMaterial {
    let (k, s) = key_of(ks, tx, p);
    SrtpKeyingMaterial::new(k, s)
}
thread_local! { static QUIET: std::cell::Cell<bool> = const { std::cell::Cell::new(false) }; }
/// run a call into the REFERENCE implementation; a panic there (it has unchecked length arithmetic on short
/// datagrams) means "does not unprotect"
fn quiet<T>(f: impl FnOnce() -> Option<T>) -> Option<T> {
    QUIET.with(|q| q.set(true));
    let r = std::panic::catch_unwind(std::panic::AssertUnwindSafe(f)).ok().flatten();
    QUIET.with(|q| q.set(false));
    r
}
fn ref_decrypt(ks: u8, prof: Prof, rtcp: bool, d: &[u8]) -> Option<Vec<u8>> { ref_decrypt_half(ks, true, prof, rtcp, d) }
fn ref_decrypt_half(ks: u8, tx: bool, prof: Prof, rtcp: bool, d: &[u8]) -> Option<Vec<u8>> {
    if rtcp {
        // the reference returns an SRTCP packet whose E bit is clear WITHOUT checking its tag; such a packet is
        // not protected at all (RFC 3711 3.4: E = 0 means the payload is in clear), so it never counts
        let idx = if prof == Prof::Gcm { d.len().checked_sub(4) } else { d.len().checked_sub(14) };
        match idx { Some(i) if i >= 8 && d[i] & 0x80 != 0 => {} _ => return None }
    }
    quiet(|| {
        let mut c = ref_ctx(ks, tx, prof);
        (if rtcp { c.decrypt_rtcp(d) } else { c.decrypt_rtp(d) }).ok().map(|b| b.to_vec())
    })
}
fn ref_ctx(ks: u8, tx: bool, p: Prof) -> RefCtx {
    let (k, s) = key_of(ks, tx, p);
    RefCtx::new(&k, &s, p.reference(), None, None).expect("reference SRTP context")
}

const KEYSETS: [u8; 4] = [1, 2, 3, 4];
const TS_BASE: u32 = 1000;
const PLI_TAG: u32 = 0xC14C_0000;
const SSRC_OUT: u32 = 0x2222_0000;
const SSRC_IN: u32 = 0x1111_0000;

fn payload_of(pid: u32) -> Vec<u8> {
    let mut v = vec![0xC1, 0x4C, 0xEA, 0x7E];
    v.extend_from_slice(&pid.to_be_bytes());
    v.extend_from_slice(&(!pid).to_be_bytes());
    v
}
fn rtp_packet(ssrc: u32, pid: u32) -> RtpPacket {
    let mut h = RtpHeader::new(96, pid as u16, TS_BASE + pid, ssrc);
    h.marker = true; // send_rtp sets the marker on the first packet; set it everywhere so bytes are comparable
    RtpPacket::new(h, payload_of(pid))
}
fn pli(ssrc: u32, pid: u32) -> RtcpPacket {
    RtcpPacket::PictureLossIndication(PictureLossIndication { sender_ssrc: ssrc, media_ssrc: PLI_TAG | pid })
}
fn bye(ssrc: u32, pid: u32) -> RtcpPacket {
    RtcpPacket::Goodbye(Goodbye { sources: vec![ssrc, PLI_TAG | pid], reason: None })
}
fn contains(hay: &[u8], needle: &[u8]) -> bool {
    !needle.is_empty() && hay.windows(needle.len()).any(|w| w == needle)
}
/// the distinctive cleartext bytes of packet `pid` (RTP payload / the tagged 32-bit word of the RTCP packets)
fn leak_markers(pid: u32) -> [Vec<u8>; 2] {
    [payload_of(pid), (PLI_TAG | pid).to_be_bytes().to_vec()]
}
fn pid_of_rtp_ts(ts: u32) -> i64 { ts as i64 - TS_BASE as i64 }
fn pid_of_rtcp(pkts: &[RtcpPacket]) -> i64 {
    for p in pkts {
        match p {
            RtcpPacket::PictureLossIndication(x) if x.media_ssrc & 0xFFFF_0000 == PLI_TAG => return (x.media_ssrc & 0xFFFF) as i64,
            RtcpPacket::Goodbye(g) => {
                if let Some(s) = g.sources.iter().find(|s| **s & 0xFFFF_0000 == PLI_TAG) { return (*s & 0xFFFF) as i64; }
            }
            _ => {}
        }
    }
    -1
}

// ---------------------------------------------------------------- sinks
#[derive(Default)]
struct Recorder {
    ingress: parking_lot::Mutex<Vec<(i64, Vec<u8>)>>,
    egress: parking_lot::Mutex<Vec<(i64, Vec<u8>)>>,
}
impl RtpObserver for Recorder {
    fn on_ingress(&self, p: &RtpPacket, _src: SocketAddr) {
        self.ingress.lock().push((pid_of_rtp_ts(p.header.timestamp), p.payload.to_vec()));
    }
    fn on_egress(&self, p: &RtpPacket, _dst: SocketAddr) {
        self.egress.lock().push((pid_of_rtp_ts(p.header.timestamp), p.payload.to_vec()));
    }
}

// ---------------------------------------------------------------- the world: sockets shared by all cases
struct World {
    cap: Arc<UdpSocket>,
    cap_addr: SocketAddr,
    cap_rx: mpsc::UnboundedReceiver<(SocketAddr, Vec<u8>)>,
    aux: UdpSocket,
    ep_a: Endpoint,
    ep_b: Endpoint,
    sentinel: u64,
    /// transport A over an RFC 4571 framed TCP stream: the IceConn and the de-framed records the peer end reads
    tcp_conn: Arc<IceConn>,
    tcp_rx: mpsc::UnboundedReceiver<Vec<u8>>,
    _tcp_sock_tx: tokio::sync::watch::Sender<Option<IceSocketWrapper>>,
}
impl World {
    async fn new() -> World {
        let cap = Arc::new(UdpSocket::bind("127.0.0.1:0").await.unwrap());
        let cap_addr = cap.local_addr().unwrap();
        let (tx, cap_rx) = mpsc::unbounded_channel();
        let c2 = cap.clone();
        tokio::spawn(async move {
            let mut buf = vec![0u8; 4096];
            loop {
                match c2.recv_from(&mut buf).await {
                    Ok((n, from)) => { if tx.send((from, buf[..n].to_vec())).is_err() { break; } }
                    Err(_) => break,
                }
            }
        });
        let aux = UdpSocket::bind("127.0.0.1:0").await.unwrap();
        let ep_a = Endpoint::new(cap_addr).await;
        let ep_b = Endpoint::new(cap_addr).await;
        // TCP: the harness is the listening peer and de-frames what the transport writes
        let listener = tokio::net::TcpListener::bind("127.0.0.1:0").await.unwrap();
        let server_addr = listener.local_addr().unwrap();
        let client = tokio::net::TcpStream::connect(server_addr).await.unwrap();
        let (mut server, _) = listener.accept().await.unwrap();
        let (rd, wr) = client.into_split();
        let wrapper = IceSocketWrapper::TcpStream(Arc::new(tokio::sync::Mutex::new(rd)), Arc::new(tokio::sync::Mutex::new(wr)), server_addr);
        let (tcp_sock_tx, sock_rx) = tokio::sync::watch::channel(Some(wrapper));
        let tcp_conn = IceConn::new(sock_rx, server_addr, None);
        let (ttx, tcp_rx) = mpsc::unbounded_channel();
        tokio::spawn(async move {
            use tokio::io::AsyncReadExt;
            loop {
                let mut l = [0u8; 2];
                if server.read_exact(&mut l).await.is_err() { break; }
                let mut f = vec![0u8; u16::from_be_bytes(l) as usize];
                if server.read_exact(&mut f).await.is_err() { break; }
                if ttx.send(f).is_err() { break; }
            }
        });
        World { cap, cap_addr, cap_rx, aux, ep_a, ep_b, sentinel: 0, tcp_conn, tcp_rx, _tcp_sock_tx: tcp_sock_tx }
    }
    /// everything the two transports have written so far (a sentinel datagram from a third socket closes
    /// the window: loopback delivery to one socket is FIFO in send order)
    async fn drain(&mut self) -> Vec<(Sock, Vec<u8>)> {
        self.sentinel += 1;
        let mut s = vec![0u8, b'S'];
        s.extend_from_slice(&self.sentinel.to_be_bytes());
        self.aux.send_to(&s, self.cap_addr).await.unwrap();
        let mut out = vec![];
        loop {
            let (from, d) = tokio::time::timeout(Duration::from_secs(5), self.cap_rx.recv()).await
                .expect("capture socket: sentinel lost").expect("capture task ended");
            if d == s { break; }
            if from == self.ep_a.addr { out.push((Sock::A, d)); }
            else if from == self.ep_b.addr { out.push((Sock::B, d)); }
        }
        out
    }
    /// everything transport A wrote on its TCP stream so far (records are ordered: a sentinel record written
    /// through the same IceConn closes the window)
    async fn drain_tcp(&mut self) -> Vec<(Sock, Vec<u8>)> {
        self.sentinel += 1;
        let mut s = vec![0u8, b'T'];
        s.extend_from_slice(&self.sentinel.to_be_bytes());
        self.tcp_conn.send(&s).await.expect("tcp sentinel");
        let mut out = vec![];
        loop {
            let d = tokio::time::timeout(Duration::from_secs(5), self.tcp_rx.recv()).await
                .expect("tcp stream: sentinel lost").expect("tcp reader ended");
            if d == s { break; }
            out.push((Sock::A, d));
        }
        out
    }
    /// deliver a datagram to transport A through the real socket and IceConn::receive; returns when the
    /// socket pump has finished processing it (a second, ignored datagram has been picked up after it)
    async fn inject_udp(&self, d: &[u8]) {
        let base = self.ep_a.conn.rx_packets.load(Ordering::Relaxed);
        self.cap.send_to(d, self.ep_a.addr).await.unwrap();
        self.cap.send_to(&[0xFF, 0xFF], self.ep_a.addr).await.unwrap();
        let t0 = std::time::Instant::now();
        while self.ep_a.conn.rx_packets.load(Ordering::Relaxed) < base + 2 {
            tokio::task::yield_now().await;
            if t0.elapsed() > Duration::from_secs(5) { panic!("inject_udp: socket pump did not pick the datagrams up"); }
        }
    }
}

// ---------------------------------------------------------------- one transport pair
struct Rig {
    a: Arc<RtpTransport>,
    b: Arc<RtpTransport>,
    obs_a: Arc<Recorder>,
    obs_b: Arc<Recorder>,
    lrx: mpsc::Receiver<(RtpPacket, SocketAddr)>,
    rrx: mpsc::Receiver<Vec<RtcpPacket>>,
    /// listeners registered on the bridge TARGET: nothing may ever arrive there in these scenarios
    b_lrx: mpsc::Receiver<(RtpPacket, SocketAddr)>,
    prof: Prof,
}
impl Rig {
    fn new(w: &World, ra: bool, rb: bool, prof: Prof, tcp: bool) -> Rig {
        let a = Arc::new(RtpTransport::new(if tcp { w.tcp_conn.clone() } else { w.ep_a.conn.clone() }, ra));
        let b = Arc::new(RtpTransport::new(w.ep_b.conn.clone(), rb));
        w.ep_a.conn.set_rtp_receiver(a.clone());
        w.ep_b.conn.set_rtp_receiver(b.clone());
        let (ltx, lrx) = mpsc::channel(4096);
        a.register_provisional_listener(ltx);
        let (rtx, rrx) = mpsc::channel(4096);
        a.register_rtcp_listener(rtx);
        let (bltx, b_lrx) = mpsc::channel(64);
        b.register_provisional_listener(bltx);
        let obs_a = Arc::new(Recorder::default());
        let obs_b = Arc::new(Recorder::default());
        a.add_observer(obs_a.clone());
        b.add_observer(obs_b.clone());
        Rig { a, b, obs_a, obs_b, lrx, rrx, b_lrx, prof }
    }
    fn session(&self, ks: u8) -> SrtpSession {
        SrtpSession::new(self.prof.uut(), keying(ks, true, self.prof), keying(ks, false, self.prof)).expect("SrtpSession::new")
    }
}

/// the bytes an operation submits: the cleartext a send op hands to the transport, or the datagram a
/// receive op injects (and the cleartext inside it)
struct Submitted {
    clear: Vec<u8>,
    injected: Option<Vec<u8>>,
    rtcp: bool,
}

struct Protectors { map: BTreeMap<(u8, bool), RefCtx>, prof: Prof }
impl Protectors {
    fn get(&mut self, ks: u8, tx: bool) -> &mut RefCtx {
        let p = self.prof;
        self.map.entry((ks, tx)).or_insert_with(|| ref_ctx(ks, tx, p))
    }
}

fn build_inbound(prot: &mut Protectors, w: WireIn, clear: &[u8], rtcp: bool) -> Vec<u8> {
    match w {
        WireIn::Clear => clear.to_vec(),
        WireIn::ProtRx(k) | WireIn::ProtTx(k) => {
            let tx = matches!(w, WireIn::ProtTx(_));
            let c = prot.get(k, tx);
            if rtcp { c.encrypt_rtcp(clear).expect("ref encrypt_rtcp").to_vec() } else { c.encrypt_rtp(clear).expect("ref encrypt_rtp").to_vec() }
        }
        WireIn::Forged(f) => forge(prot, f, clear),
    }
}

fn forge(prot: &mut Protectors, f: Forge, clear: &[u8]) -> Vec<u8> {
    let prof = prot.prof;
    let junk = |n: usize, salt: u8| -> Vec<u8> { (0..n).map(|i| (i as u8).wrapping_mul(41).wrapping_add(salt).wrapping_add(clear[clear.len() - 1])).collect() };
    let rtcp_tag = if prof == Prof::Gcm { 16 } else { 10 };
    // offset of the E + index word counted from the end
    let idx_back = if prof == Prof::Gcm { 4 } else { 14 };
    let trailer = |e: bool| -> Vec<u8> {
        let word = (if e { 0x8000_0000u32 } else { 0 }) | 7;
        if prof == Prof::Gcm { let mut t = junk(rtcp_tag, 3); t.extend_from_slice(&word.to_be_bytes()); t }
        else { let mut t = word.to_be_bytes().to_vec(); t.extend(junk(rtcp_tag, 3)); t }
    };
    match f {
        Forge::RtcpClearE0 => { let mut d = clear.to_vec(); d.extend(trailer(false)); d }
        Forge::RtcpClearE1 => { let mut d = clear.to_vec(); d.extend(trailer(true)); d }
        Forge::RtcpGenuineE0(k) => { let mut d = prot.get(k, false).encrypt_rtcp(clear).expect("ref encrypt_rtcp").to_vec(); let i = d.len() - idx_back; d[i] &= 0x7F; d }
        Forge::RtcpGenuineBadIndex(k) => { let mut d = prot.get(k, false).encrypt_rtcp(clear).expect("ref encrypt_rtcp").to_vec(); let i = d.len() - idx_back + 3; d[i] = d[i].wrapping_add(1); d }
        Forge::RtcpTruncated(k) => { let mut d = prot.get(k, false).encrypt_rtcp(clear).expect("ref encrypt_rtcp").to_vec(); d.truncate(d.len() - 3); d }
        Forge::RtpRandomTag => { let mut d = clear.to_vec(); d.extend(junk(match prof { Prof::Sha80 => 10, Prof::Sha32 => 4, Prof::Gcm => 16 }, 9)); d }
        Forge::RtpWrongRoc(k) => {
            // a throw-away sender context is walked over the sequence-number wrap, so this packet carries ROC 1
            let mut c = ref_ctx(k, false, prof);
            let mut before = clear.to_vec();
            before[2] = 0xFF; before[3] = 0xFF;
            let _ = c.encrypt_rtp(&before).expect("ref encrypt_rtp");
            let mut pkt = clear.to_vec();
            pkt[2] = 0; pkt[3] = 0;
            c.encrypt_rtp(&pkt).expect("ref encrypt_rtp").to_vec()
        }
    }
}

/// perform one operation on the real transports; returns what was submitted and the call result
async fn apply(w: &World, rig: &Rig, prot: &mut Protectors, op: &Op, pid: u32, ssrc_out: u32, ssrc_in: u32, udp: bool)
    -> (Option<Submitted>, Option<bool>) {
    match op {
        Op::InstallKeys(k) => { rig.a.start_srtp(rig.session(*k)); (None, None) }
        Op::TInstallKeys(k) => { rig.b.start_srtp(rig.session(*k)); (None, None) }
        Op::Send(shape) => {
            let buf = raw_buf(*shape, ssrc_out, pid);
            let r = rig.a.send(&buf).await;
            (Some(Submitted { clear: buf, injected: None, rtcp: false }), Some(r.is_ok()))
        }
        Op::SendRtp => {
            let p = rtp_packet(ssrc_out, pid);
            let clear = p.marshal().unwrap();
            let r = rig.a.send_rtp(p).await;
            (Some(Submitted { clear, injected: None, rtcp: false }), Some(r.is_ok()))
        }
        Op::SendRtcp => {
            let p = [pli(ssrc_out, pid)];
            let clear = rustrtc::rtp::marshal_rtcp_packets(&p).unwrap();
            let r = rig.a.send_rtcp(&p).await;
            (Some(Submitted { clear, injected: None, rtcp: true }), Some(r.is_ok()))
        }
        Op::SyncBye | Op::Close => {
            let p = [bye(ssrc_out, pid)];
            let clear = rustrtc::rtp::marshal_rtcp_packets(&p).unwrap();
            if *op == Op::Close { rig.a.clear_listeners(); }
            rig.a.send_rtcp_sync(&p);
            (Some(Submitted { clear, injected: None, rtcp: true }), None)
        }
        Op::RecvRtp(wi) | Op::RecvRtcp(wi) => {
            let rtcp = matches!(op, Op::RecvRtcp(_));
            let clear = if rtcp { rustrtc::rtp::marshal_rtcp_packets(&[pli(ssrc_in, pid)]).unwrap() } else { rtp_packet(ssrc_in, pid).marshal().unwrap() };
            let d = build_inbound(prot, *wi, &clear, rtcp);
            if udp { w.inject_udp(&d).await; } else {
                let mut mb = Vec::new();
                rig.a.receive(Bytes::from(d.clone()), w.cap_addr, &mut mb).await;
            }
            (Some(Submitted { clear, injected: Some(d), rtcp }), None)
        }
        Op::SetBridge => {
            rig.a.bridge_rewrite_to(rig.b.clone(), RtpRewriteBridgeParams {
                ssrc_offset: 0, initial_sequence_number: Some(1000), initial_timestamp_offset: Some(0), ..Default::default() });
            (None, None)
        }
        Op::ClearBridge => { rig.a.clear_bridge_rewrite(); (None, None) }
    }
}

/// classify a captured datagram against what was submitted: Some(ks) = the reference implementation
/// unprotects it under the Tx half of key set ks and finds the submitted bytes inside; None = it carries the
/// submitted bytes as they were; Some(-98) = unprotects but with other content; Some(-99) = neither.
/// Second component: the packet id read from its (decrypted) content.
fn classify(d: &[u8], sub: &[&Submitted], prof: Prof) -> (Option<i32>, i64) {
    let looks_rtcp = d.len() >= 2 && (192..=223).contains(&d[1]);
    // candidate plaintexts: what the application handed over / what was injected (the bridge forwards either
    // the unprotected packet or, in a non-mandatory mode without keys, the datagram as it came), headers aside
    // because the bridge rewrites sequence number and SSRC
    fn same_body(x: &[u8], y: &[u8], hdr: usize) -> bool {
        if x.len() <= hdr || y.len() <= hdr { x == y } else { x.len() == y.len() && x[hdr..] == y[hdr..] }
    }
    let pid_rtp = |b: &[u8]| if b.len() >= 12 { pid_of_rtp_ts(u32::from_be_bytes([b[4], b[5], b[6], b[7]])) } else if b.len() >= 3 { b[2] as i64 } else { -1 };
    let pid_rtcp = |b: &[u8]| rustrtc::rtp::parse_rtcp_packets(b, None).map(|p| pid_of_rtcp(&p)).unwrap_or(-1);
    for s in sub {
        let hdr = if s.rtcp { 8 } else { 12 };
        for cand in [Some(&s.clear), s.injected.as_ref()].into_iter().flatten() {
            if same_body(d, cand, hdr) {
                return (None, if s.rtcp { pid_rtcp(&s.clear) } else { pid_rtp(d) });
            }
        }
    }
    // an application buffer that LOOKS like RTCP handed to the raw `send` is protected as SRTP: try both transforms
    for ks in KEYSETS {
        for as_rtcp in [looks_rtcp, !looks_rtcp] {
            if let Some(plain) = ref_decrypt(ks, prof, as_rtcp, d) {
                let pid = if as_rtcp { pid_rtcp(&plain) } else { pid_rtp(&plain) };
                let matches = sub.iter().any(|s| s.rtcp == as_rtcp
                    && [Some(&s.clear), s.injected.as_ref()].into_iter().flatten().any(|cand| same_body(&plain, cand, if s.rtcp { 8 } else { 12 })));
                if !matches && std::env::var("C14_DEBUG").is_ok() { eprintln!("-98: ks={} as_rtcp={} d={:02x?} plain={:02x?}", ks, as_rtcp, d, &plain[..]); }
                return (Some(if matches { ks as i32 } else { -98 }), pid);
            }
        }
    }
    (Some(-99), -1)
}

struct CaseOut {
    obs: Vec<Vec<Obs>>,
    /// the operation list as the MODEL sees it: inbound datagrams mapped from their bytes (map_wire)
    op_terms: Vec<String>,
    raws: Vec<Vec<u8>>,
    fail: Option<String>,
    reordered: bool,
}

fn set_fail(f: &mut Option<String>, s: String) { if f.is_none() { *f = Some(s); } }

#[derive(Clone, Debug)]
struct Spec { ra: bool, rb: bool, prof: Prof, udp: bool, tcp: bool, ops: Vec<Op> }

async fn run_case(w: &mut World, c: &Spec) -> CaseOut {
    let mut rig = Rig::new(w, c.ra, c.rb, c.prof, c.tcp);
    let mut prot = Protectors { map: BTreeMap::new(), prof: c.prof };
    let _ = w.drain().await;
    if c.tcp { let _ = w.drain_tcp().await; }
    let mut out = CaseOut { obs: vec![], op_terms: vec![], raws: vec![], fail: None, reordered: false };
    // oracle state, from the operation list only
    let mut keys_a: Option<u8> = None;
    let mut keys_b: Option<u8> = None;
    for (i, op) in c.ops.iter().enumerate() {
        let pid = (i + 1) as u32;
        let (sub, ret) = apply(w, &rig, &mut prot, op, pid, SSRC_OUT, SSRC_IN, c.udp && !c.tcp).await;
        let mut dgrams = w.drain().await;
        if c.tcp { let mut t = w.drain_tcp().await; t.append(&mut dgrams); dgrams = t; }
        // the bytes of protected RTCP that will meet the PLAIN parser (not mandatory, no keys): the model predicts
        // the outcome from them
        let mapped: Option<Mapped> = match (op, &sub) {
            (Op::RecvRtp(_) | Op::RecvRtcp(_), Some(s)) => Some(map_wire(s.injected.as_deref().unwrap_or(&[]), &s.clear, s.rtcp, c.prof)),
            _ => None,
        };
        out.op_terms.push(match (op, mapped) {
            (Op::RecvRtp(_), Some(m)) => format!("RecvRtp {}", mapped_term(m, pid)),
            (Op::RecvRtcp(_), Some(m)) => format!("RecvRtcp {}", mapped_term(m, pid)),
            _ => op_term(op, pid),
        });
        out.raws.push(match (op, &sub, mapped) {
            (Op::RecvRtcp(_), Some(s), Some(Mapped::Prot(..) | Mapped::Forged)) if !c.ra && keys_a.is_none() => s.injected.clone().unwrap_or_default(),
            _ => vec![],
        });
        let mut o: Vec<Obs> = vec![];
        // ---- sinks
        let eg: Vec<_> = rig.obs_a.egress.lock().drain(..).collect();
        let ing: Vec<_> = rig.obs_a.ingress.lock().drain(..).collect();
        let beg: Vec<_> = rig.obs_b.egress.lock().drain(..).collect();
        let bing: Vec<_> = rig.obs_b.ingress.lock().drain(..).collect();
        for (p, _) in &eg { o.push(Obs::D(Sink::ObsOut, *p)); }
        for (p, _) in &ing { o.push(Obs::D(Sink::ObsIn, *p)); }
        for (p, _) in &beg { o.push(Obs::D(Sink::Bridge, *p)); }
        let mut listened: Vec<(i64, Vec<u8>)> = vec![];
        while let Ok((p, _)) = rig.lrx.try_recv() { listened.push((pid_of_rtp_ts(p.header.timestamp), p.payload.to_vec())); }
        for (p, _) in &listened { o.push(Obs::D(Sink::Listener, *p)); }
        let mut rtcp_seen: Vec<i64> = vec![];
        while let Ok(pk) = rig.rrx.try_recv() { rtcp_seen.push(pid_of_rtcp(&pk)); }
        for p in &rtcp_seen { o.push(Obs::D(Sink::RtcpListener, *p)); }
        if !bing.is_empty() || rig.b_lrx.try_recv().is_ok() {
            set_fail(&mut out.fail, format!("op {}: the bridge TARGET's own receive path delivered a packet (nothing was sent to it)", i));
        }
        // ---- wire
        let subs: Vec<&Submitted> = sub.iter().collect();
        let mut wires: Vec<(Sock, Option<i32>, i64, Vec<u8>)> = vec![];
        for (s, d) in &dgrams {
            let (k, p) = classify(d, &subs, c.prof);
            if p != pid as i64 && k != Some(-99) { out.reordered = true; }
            wires.push((*s, k, p, d.clone()));
        }
        wires.sort_by_key(|x| x.0);
        for (s, k, p, _) in &wires { o.push(Obs::W(*s, *k, *p)); }
        if let Some(r) = ret { o.push(Obs::R(r)); }

        // ---- direct property oracle (from the property text; no model involved)
        let clear_payload = sub.as_ref().map(|s| s.clear.clone()).unwrap_or_default();
        for (s, k, _p, d) in &wires {
            let (required, keys) = if *s == Sock::A { (c.ra, keys_a) } else { (c.rb, keys_b) };
            if !required { continue; }
            let who = if *s == Sock::A { "the transport" } else { "the bridge target" };
            match keys {
                None => set_fail(&mut out.fail, format!("op {} ({:?}): {} is SRTP-mandatory and has no keys yet, but a {}-byte datagram left its socket", i, op, who, d.len())),
                Some(ks) => {
                    if *k != Some(ks as i32) {
                        set_fail(&mut out.fail, format!("op {} ({:?}): datagram from {} (SRTP-mandatory, key set {}) does not unprotect under the installed keys with the reference implementation (classified {:?})", i, op, who, ks, k));
                    }
                }
            }
            for m in leak_markers(pid) {
                if contains(d, &m) {
                    set_fail(&mut out.fail, format!("op {} ({:?}): datagram from {} (SRTP-mandatory) contains the cleartext of the submitted packet", i, op, who));
                }
            }
            if !clear_payload.is_empty() && d == &clear_payload {
                set_fail(&mut out.fail, format!("op {} ({:?}): the submitted cleartext left {} unchanged", i, op, who));
            }
        }
        if c.ra {
            // authenticated = the reference implementation unprotects the injected bytes under the Rx half of the
            // INSTALLED key set (SRTCP with E = 0 never counts) and finds the peer's plaintext
            let legit = matches!(mapped, Some(Mapped::Prot(k, false)) if keys_a == Some(k));
            let inbound_deliveries = ing.len() + beg.len() + listened.len() + rtcp_seen.len();
            if inbound_deliveries > 0 && !legit {
                set_fail(&mut out.fail, format!("op {} ({:?}): SRTP-mandatory transport delivered a packet to {} although the operation did not inject a packet authenticated under the installed keys (installed: {:?})",
                    i, op, if !ing.is_empty() { "the ingress observer" } else if !beg.is_empty() { "the bridged peer" } else if !listened.is_empty() { "the track listener" } else { "the RTCP listener" }, keys_a));
            }
            if wires.iter().any(|x| x.0 == Sock::B) && !legit {
                set_fail(&mut out.fail, format!("op {} ({:?}): SRTP-mandatory transport relayed an unauthenticated packet to the bridged peer's socket", i, op));
            }
            // what is delivered is the plaintext of what the peer protected
            for (_, pl) in ing.iter().chain(beg.iter()).chain(listened.iter()) {
                if legit && pl != &payload_of(pid) {
                    set_fail(&mut out.fail, format!("op {} ({:?}): delivered payload differs from the plaintext the peer protected", i, op));
                }
            }
        }
        match op {
            Op::InstallKeys(k) => keys_a = Some(*k),
            Op::TInstallKeys(k) => keys_b = Some(*k),
            _ => {}
        }
        out.obs.push(o);
    }
    // detach the transports from the shared connections
    drop(rig);
    out
}

// ---------------------------------------------------------------- racing tasks
struct RaceOut { fail: Option<String>, wires: usize, deliveries: usize }

async fn run_race(w: &mut World, ra: bool, rb: bool, prof: Prof, tasks: Vec<Vec<Op>>) -> RaceOut {
    let mut rig = Rig::new(w, ra, rb, prof, false);
    let _ = w.drain().await;
    let installed_a: BTreeSet<u8> = tasks.iter().flatten().filter_map(|o| if let Op::InstallKeys(k) = o { Some(*k) } else { None }).collect();
    let installed_b: BTreeSet<u8> = tasks.iter().flatten().filter_map(|o| if let Op::TInstallKeys(k) = o { Some(*k) } else { None }).collect();
    // pre-build everything the tasks submit so that the tasks only call into the transport
    let mut legit_in: BTreeSet<i64> = BTreeSet::new();
    let mut all_pids: Vec<u32> = vec![];
    let mut handles = vec![];
    let cap_addr = w.cap_addr;
    for (t, ops) in tasks.iter().enumerate() {
        let mut prot = Protectors { map: BTreeMap::new(), prof };
        let ssrc_in = SSRC_IN + 1 + t as u32;
        let ssrc_out = SSRC_OUT + 1 + t as u32;
        let mut script: Vec<(Op, u32, Option<Vec<u8>>)> = vec![];
        for (i, op) in ops.iter().enumerate() {
            let pid = (t * 100 + i + 1) as u32;
            all_pids.push(pid);
            let d = match op {
                Op::RecvRtp(wi) | Op::RecvRtcp(wi) => {
                    let rtcp = matches!(op, Op::RecvRtcp(_));
                    let clear = if rtcp { rustrtc::rtp::marshal_rtcp_packets(&[pli(ssrc_in, pid)]).unwrap() } else { rtp_packet(ssrc_in, pid).marshal().unwrap() };
                    let d = build_inbound(&mut prot, *wi, &clear, rtcp);
                    if let Mapped::Prot(k, false) = map_wire(&d, &clear, rtcp, prof) { if installed_a.contains(&k) { legit_in.insert(pid as i64); } }
                    Some(d)
                }
                _ => None,
            };
            script.push((op.clone(), pid, d));
        }
        let a = rig.a.clone();
        let b = rig.b.clone();
        let pf = prof;
        handles.push(tokio::spawn(async move {
            let mk = |ks: u8| SrtpSession::new(pf.uut(), keying(ks, true, pf), keying(ks, false, pf)).unwrap();
            for (op, pid, d) in script {
                match op {
                    Op::InstallKeys(k) => a.start_srtp(mk(k)),
                    Op::TInstallKeys(k) => b.start_srtp(mk(k)),
                    Op::Send(shape) => { let buf = raw_buf(shape, ssrc_out, pid); let _ = a.send(&buf).await; }
                    Op::SendRtp => { let _ = a.send_rtp(rtp_packet(ssrc_out, pid)).await; }
                    Op::SendRtcp => { let _ = a.send_rtcp(&[pli(ssrc_out, pid)]).await; }
                    Op::SyncBye => a.send_rtcp_sync(&[bye(ssrc_out, pid)]),
                    Op::Close => { a.clear_listeners(); a.send_rtcp_sync(&[bye(ssrc_out, pid)]); }
                    Op::RecvRtp(_) | Op::RecvRtcp(_) => { let mut mb = Vec::new(); a.receive(Bytes::from(d.unwrap()), cap_addr, &mut mb).await; }
                    Op::SetBridge => a.bridge_rewrite_to(b.clone(), RtpRewriteBridgeParams { ssrc_offset: 0, initial_sequence_number: Some(1000), initial_timestamp_offset: Some(0), ..Default::default() }),
                    Op::ClearBridge => a.clear_bridge_rewrite(),
                }
                tokio::task::yield_now().await;
            }
        }));
    }
    let mut fail = None;
    for h in handles { if let Err(e) = h.await { set_fail(&mut fail, format!("a racing task panicked: {}", e)); } }
    let dgrams = w.drain().await;
    let markers: Vec<Vec<u8>> = all_pids.iter().flat_map(|p| leak_markers(*p)).collect();
    for (s, d) in &dgrams {
        let (required, installed, who) = if *s == Sock::A { (ra, &installed_a, "the transport") } else { (rb, &installed_b, "the bridge target") };
        if !required { continue; }
        if installed.is_empty() {
            set_fail(&mut fail, format!("racing: {} is SRTP-mandatory and no task installs keys, but a datagram left its socket", who));
            continue;
        }
        let looks_rtcp = d.len() >= 2 && (192..=223).contains(&d[1]);
        let ok = installed.iter().any(|ks| ref_decrypt(*ks, prof, looks_rtcp, d).is_some() || ref_decrypt(*ks, prof, !looks_rtcp, d).is_some());
        if !ok { set_fail(&mut fail, format!("racing: a datagram from {} (SRTP-mandatory) does not unprotect under any key set a task installed", who)); }
        if markers.iter().any(|m| contains(d, m)) { set_fail(&mut fail, format!("racing: a datagram from {} (SRTP-mandatory) contains submitted cleartext", who)); }
    }
    let mut delivered: Vec<(&'static str, i64)> = vec![];
    for (p, _) in rig.obs_a.ingress.lock().drain(..) { delivered.push(("ingress observer", p)); }
    for (p, _) in rig.obs_b.egress.lock().drain(..) { delivered.push(("bridged peer", p)); }
    while let Ok((p, _)) = rig.lrx.try_recv() { delivered.push(("track listener", pid_of_rtp_ts(p.header.timestamp))); }
    while let Ok(pk) = rig.rrx.try_recv() { delivered.push(("RTCP listener", pid_of_rtcp(&pk))); }
    if ra {
        for (who, p) in &delivered {
            if !legit_in.contains(p) {
                set_fail(&mut fail, format!("racing: SRTP-mandatory transport delivered packet {} to the {} although it was not injected under a key set any task installs", p, who));
            }
        }
    }
    if !rig.obs_b.ingress.lock().is_empty() || rig.b_lrx.try_recv().is_ok() {
        set_fail(&mut fail, "racing: the bridge target's own receive path delivered a packet".into());
    }
    RaceOut { fail, wires: dgrams.len(), deliveries: delivered.len() }
}

// ---------------------------------------------------------------- generators
fn alphabet() -> Vec<Op> {
    vec![Op::InstallKeys(1), Op::TInstallKeys(3), Op::Send(Raw::Rtp), Op::SendRtp, Op::SendRtcp, Op::SyncBye,
         Op::RecvRtp(WireIn::Clear), Op::RecvRtcp(WireIn::Clear), Op::RecvRtp(WireIn::ProtRx(1)), Op::RecvRtcp(WireIn::ProtRx(1)),
         Op::RecvRtp(WireIn::ProtRx(2)), Op::RecvRtcp(WireIn::Forged(Forge::RtcpClearE0)), Op::SetBridge, Op::ClearBridge, Op::Close]
}

fn random_op(r: &mut Rng, stats: &mut BTreeMap<String, u64>) -> Op {
    let wi = |r: &mut Rng| match r.below(10) {
        0..=2 => WireIn::Clear,
        3..=6 => WireIn::ProtRx(*r.pick(&[1u8, 1, 2])),
        7 => WireIn::ProtRx(*r.pick(&[3u8, 4])),
        8 => WireIn::ProtTx(*r.pick(&[1u8, 2])),
        _ => WireIn::Forged(Forge::RtcpClearE0),          // replaced by a kind-appropriate forgery below
    };
    let fix = |r: &mut Rng, w: WireIn, rtcp: bool| match w {
        WireIn::Forged(_) => WireIn::Forged(if rtcp { *r.pick(&RTCP_FORGERIES) } else { *r.pick(&RTP_FORGERIES) }),
        w => w,
    };
    let op = match r.below(100) {
        0..=11 => Op::InstallKeys(*r.pick(&[1u8, 1, 1, 2])),
        12..=18 => Op::TInstallKeys(*r.pick(&[3u8, 3, 4, 1])),
        19..=24 => Op::Send(*r.pick(&[Raw::Rtp, Raw::Rtp, Raw::Short, Raw::Pli, Raw::Sr, Raw::Rr1])),
        25..=33 => Op::SendRtp,
        34..=40 => Op::SendRtcp,
        41..=45 => Op::SyncBye,
        46..=63 => { let w = wi(r); Op::RecvRtp(fix(r, w, false)) }
        64..=77 => { let w = wi(r); Op::RecvRtcp(fix(r, w, true)) }
        78..=87 => Op::SetBridge,
        88..=93 => Op::ClearBridge,
        _ => Op::Close,
    };
    let name = format!("{:?}", op);
    *stats.entry(name.split('(').next().unwrap().to_string()).or_default() += 1;
    op
}

fn corpus() -> Vec<Spec> {
    use Op::*;
    use WireIn::*;
    let mut v = vec![];
    // minimal witnesses first: each sender / receiver alone before keys, and right after keys, in the mandatory mode
    for ops in [vec![Send(Raw::Rtp)], vec![SendRtp], vec![SendRtcp], vec![SyncBye], vec![Close], vec![RecvRtp(Clear)], vec![RecvRtcp(Clear)],
                vec![SetBridge, RecvRtp(Clear)], vec![InstallKeys(1), Send(Raw::Rtp)], vec![InstallKeys(1), SendRtp], vec![InstallKeys(1), SendRtcp],
                vec![InstallKeys(1), SyncBye], vec![InstallKeys(1), Close], vec![InstallKeys(1), RecvRtp(Clear)], vec![InstallKeys(1), RecvRtcp(Clear)],
                vec![InstallKeys(1), RecvRtp(ProtRx(2))], vec![InstallKeys(1), RecvRtcp(ProtRx(2))],
                vec![InstallKeys(1), RecvRtcp(Forged(Forge::RtcpClearE0))], vec![InstallKeys(1), RecvRtcp(Forged(Forge::RtcpClearE1))],
                vec![InstallKeys(1), RecvRtcp(Forged(Forge::RtcpGenuineE0(1)))], vec![InstallKeys(1), RecvRtcp(Forged(Forge::RtcpGenuineBadIndex(1)))],
                vec![InstallKeys(1), RecvRtcp(Forged(Forge::RtcpTruncated(1)))], vec![InstallKeys(1), RecvRtp(Forged(Forge::RtpRandomTag))],
                vec![InstallKeys(1), RecvRtp(Forged(Forge::RtpWrongRoc(1)))], vec![InstallKeys(1), SetBridge, RecvRtp(Forged(Forge::RtpRandomTag))],
                vec![RecvRtcp(Forged(Forge::RtcpClearE0))], vec![InstallKeys(1), RecvRtp(ProtRx(1))],
                vec![InstallKeys(1), RecvRtcp(ProtRx(1))], vec![InstallKeys(1), SetBridge, RecvRtp(ProtRx(1))],
                vec![InstallKeys(1), SetBridge, RecvRtp(Clear)], vec![InstallKeys(1), TInstallKeys(3), SetBridge, RecvRtp(ProtRx(1))]] {
        v.push(Spec { ra: true, rb: true, prof: Prof::Sha80, udp: false, tcp: false, ops });
    }
    for prof in [Prof::Sha32, Prof::Gcm] {
        for f in RTCP_FORGERIES { v.push(Spec { ra: true, rb: true, prof, udp: false, tcp: false, ops: vec![InstallKeys(1), RecvRtcp(Forged(f))] }); }
        for f in RTP_FORGERIES { v.push(Spec { ra: true, rb: true, prof, udp: false, tcp: false, ops: vec![InstallKeys(1), RecvRtp(Forged(f))] }); }
    }
    // every sender before keys, every receiver before keys, then the same after keys, with the bridge both ways
    let all = vec![Send(Raw::Rtp), Send(Raw::Short), Send(Raw::Pli), Send(Raw::Sr), Send(Raw::Rr1), SendRtp, SendRtcp, SyncBye, RecvRtp(Clear), RecvRtcp(Clear), RecvRtp(ProtRx(1)), RecvRtcp(ProtRx(1)),
                   SetBridge, RecvRtp(Clear), RecvRtp(ProtRx(1)), InstallKeys(1),
                   Send(Raw::Rtp), Send(Raw::Short), Send(Raw::Pli), Send(Raw::Sr), Send(Raw::Rr1), SendRtp, SendRtcp, SyncBye, RecvRtp(Clear), RecvRtcp(Clear), RecvRtp(ProtRx(1)), RecvRtcp(ProtRx(1)),
                   RecvRtp(ProtRx(2)), RecvRtcp(ProtRx(2)), RecvRtp(ProtTx(1)), RecvRtcp(ProtTx(1)),
                   RecvRtcp(Forged(Forge::RtcpClearE0)), RecvRtcp(Forged(Forge::RtcpClearE1)), RecvRtcp(Forged(Forge::RtcpGenuineE0(1))),
                   RecvRtcp(Forged(Forge::RtcpGenuineBadIndex(1))), RecvRtcp(Forged(Forge::RtcpTruncated(1))),
                   RecvRtp(Forged(Forge::RtpRandomTag)), RecvRtp(Forged(Forge::RtpWrongRoc(1))), RecvRtp(ProtRx(1)), RecvRtcp(ProtRx(1)),
                   TInstallKeys(3), RecvRtp(ProtRx(1)), RecvRtp(Clear), ClearBridge, RecvRtp(ProtRx(1)), RecvRtcp(ProtRx(1)),
                   InstallKeys(2), RecvRtp(ProtRx(1)), RecvRtp(ProtRx(2)), SendRtp, SendRtcp, Close, RecvRtp(ProtRx(2)), RecvRtcp(ProtRx(2)), SendRtp, SyncBye];
    for prof in [Prof::Sha80, Prof::Sha32, Prof::Gcm] {
        for (ra, rb) in [(true, true), (true, false), (false, true), (false, false)] {
            for udp in [false, true] {
                v.push(Spec { ra, rb, prof, udp, tcp: false, ops: all.clone() });
            }
            v.push(Spec { ra, rb, prof, udp: false, tcp: true, ops: all.clone() });
        }
    }
    // close before keys, keys on the target only, bridge to an unkeyed mandatory target
    v.push(Spec { ra: true, rb: true, prof: Prof::Sha80, udp: false, tcp: false, ops: vec![Close, InstallKeys(1), SyncBye, RecvRtp(ProtRx(1))] });
    v.push(Spec { ra: false, rb: true, prof: Prof::Sha80, udp: false, tcp: false, ops: vec![SetBridge, RecvRtp(Clear), TInstallKeys(3), RecvRtp(Clear), RecvRtp(ProtRx(1))] });
    v.push(Spec { ra: true, rb: false, prof: Prof::Sha80, udp: false, tcp: false, ops: vec![SetBridge, RecvRtp(Clear), InstallKeys(1), RecvRtp(Clear), RecvRtp(ProtRx(1)), RecvRtp(ProtRx(2))] });
    v
}

fn spec_json(c: &Spec, obs: &[Vec<Obs>]) -> serde_json::Value {
    json!({"required": c.ra, "target_required": c.rb, "profile": c.prof.name(), "inbound_path": if c.udp && !c.tcp { "udp socket + IceConn::receive" } else { "RtpTransport::receive" },
           "socket": if c.tcp { "TCP stream (RFC 4571 framing)" } else { "UDP" },
           "ops": c.ops.iter().enumerate().map(|(i, o)| op_term(o, (i + 1) as u32)).collect::<Vec<_>>(),
           "observed": obs.iter().map(|x| x.iter().map(obs_term).collect::<Vec<_>>()).collect::<Vec<_>>()})
}

#[tokio::main(flavor = "multi_thread", worker_threads = 4)]
async fn main() {
    let args = parse_args();
    let only_pc = std::env::var("C14_ONLY_PC").is_ok();
    std::panic::set_hook(Box::new(|info| { if !QUIET.with(|q| q.get()) { eprintln!("c14 harness: {}", info); } }));
    let thorough = args.tier == "thorough";
    let mut out = Out::new(&args.out);
    let mut r = Rng::new(args.seed);
    let mut w = World::new().await;
    // PeerConnection-level scenarios run concurrently with everything else (they are mostly waiting for timers)
    let pc_handle = tokio::spawn(pc::run_all(thorough));
    let mut specs: Vec<(String, Spec)> = vec![];
    for c in corpus() { specs.push(("corpus".into(), c)); }
    // exhaustive sequences over the property's alphabet, every mode
    let alpha = alphabet();
    let n = alpha.len();
    let full_depth = if thorough { 4 } else { 3 };
    let deep_depth = full_depth + 1;
    for (ra, rb) in [(true, true), (true, false), (false, true), (false, false)] {
        for depth in 1..=deep_depth {
            if depth > full_depth && !ra { continue; }         // the deepest level only where the property speaks
            let mut idx = vec![0usize; depth];
            loop {
                let ops: Vec<Op> = idx.iter().map(|&i| alpha[i].clone()).collect();
                // at the deepest level keep the sequences that can reach a send / delivery at all (quick) /
                // that combine keys with the bridge (thorough: the interplay depth 4 cannot fully reach)
                let has_keys = ops.iter().any(|o| matches!(o, Op::InstallKeys(_)));
                let has_bridge = ops.iter().any(|o| matches!(o, Op::SetBridge));
                let keep = depth <= full_depth || if thorough { has_keys && has_bridge } else { has_keys || rb != ra };
                if keep { specs.push(("exhaustive".into(), Spec { ra, rb, prof: Prof::Sha80, udp: false, tcp: false, ops })); }
                let mut k = 0;
                loop {
                    if k == depth { break; }
                    idx[k] += 1;
                    if idx[k] < n { break; }
                    idx[k] = 0;
                    k += 1;
                }
                if k == depth { break; }
            }
        }
    }
    let mut op_stats: BTreeMap<String, u64> = BTreeMap::new();
    let mut len_stats: BTreeMap<usize, u64> = BTreeMap::new();
    let nrand = if thorough { 6000 } else { 900 };
    for i in 0..nrand {
        let len = r.range(5, if thorough { 24 } else { 16 }) as usize;
        let ops: Vec<Op> = (0..len).map(|_| random_op(&mut r, &mut op_stats)).collect();
        *len_stats.entry(len).or_default() += 1;
        let prof = *r.pick(&[Prof::Sha80, Prof::Sha80, Prof::Gcm, Prof::Sha32]);
        specs.push(("random".into(), Spec { ra: r.chance(3, 4), rb: r.chance(2, 3), prof, udp: i % 3 == 0, tcp: i % 4 == 1, ops }));
    }
    let mut wire_total = 0u64;
    let mut deliver_total = 0u64;
    let mut retried = 0u64;
    if only_pc { specs.clear(); }
    for (kind, c) in specs {
        let mut res = run_case(&mut w, &c).await;
        let mut tries = 0;
        while res.reordered && tries < 3 { retried += 1; tries += 1; res = run_case(&mut w, &c).await; }
        let nw = res.obs.iter().flatten().filter(|o| matches!(o, Obs::W(..))).count();
        let nd = res.obs.iter().flatten().filter(|o| matches!(o, Obs::D(..))).count();
        wire_total += nw as u64;
        deliver_total += nd as u64;
        let term = format!("mkCase {} true {} {} {} {} {}", bool_term(!c.tcp), bool_term(c.ra), bool_term(c.rb),
            list_term(&res.op_terms),
            list_term(&res.raws.iter().map(|b| bytes_term(b)).collect::<Vec<_>>()),
            list_term(&res.obs.iter().map(|x| list_term(&x.iter().map(obs_term).collect::<Vec<_>>())).collect::<Vec<_>>()));
        // the model is profile- and path-agnostic: the same term for every profile / inbound path
        let key = format!("{}|{}|{:?}|{}|{}|{:?}", c.ra, c.rb, c.prof, c.udp, c.tcp, c.ops);
        out.push(Case { term, desc: spec_json(&c, &res.obs), oracle_fail: res.fail, known: None, nontrivial: nw + nd > 0, key, kind });
    }
    // racing: the same operations from 4 tasks on a multi-threaded runtime
    let nrace = if only_pc { 0 } else if thorough { 1500 } else { 250 };
    let mut race_wires = 0u64;
    let mut race_deliveries = 0u64;
    for i in 0..nrace {
        let (ra, rb) = *r.pick(&[(true, true), (true, true), (true, false), (false, true)]);
        let prof = *r.pick(&[Prof::Sha80, Prof::Gcm]);
        let mut tasks: Vec<Vec<Op>> = vec![];
        for t in 0..4 {
            let len = r.range(3, 8) as usize;
            let mut ops: Vec<Op> = (0..len).map(|_| random_op(&mut r, &mut op_stats)).collect();
            // one task in three quarters of the cases is the "signalling" task: keys and bridge, late
            if t == 0 && i % 4 != 0 { ops = vec![Op::SetBridge, Op::SendRtp, Op::InstallKeys(1), Op::TInstallKeys(3), Op::SendRtcp, Op::Close]; }
            tasks.push(ops);
        }
        let res = run_race(&mut w, ra, rb, prof, tasks.clone()).await;
        race_wires += res.wires as u64;
        race_deliveries += res.deliveries as u64;
        out.push(Case { term: "-".into(),
            desc: json!({"racing": true, "required": ra, "target_required": rb, "profile": prof.name(),
                "tasks": tasks.iter().enumerate().map(|(t, ops)| ops.iter().enumerate().map(|(j, o)| op_term(o, (t * 100 + j + 1) as u32)).collect::<Vec<_>>()).collect::<Vec<_>>(),
                "datagrams": res.wires, "deliveries": res.deliveries}),
            oracle_fail: res.fail, known: None, nontrivial: res.wires + res.deliveries > 0,
            key: format!("race|{}|{}|{:?}|{:?}", ra, rb, prof, tasks), kind: "racing".into() });
    }
    let mut pc_media = 0u64;
    let mut pc_summary = vec![];
    for (i, (sc, res)) in pc_handle.await.expect("PeerConnection scenarios").into_iter().enumerate() {
        pc_media += res.media_datagrams as u64;
        pc_summary.push(json!({"scenario": sc.name, "media_datagrams": res.media_datagrams, "counts": res.desc.get("counts")}));
        out.push(Case { term: "-".into(), desc: res.desc, oracle_fail: res.fail, known: None, nontrivial: res.media_datagrams > 0 || sc.fault != pc::Fault::None,
            key: format!("pc|{}|{}", sc.name, i), kind: "peer_connection".into() });
    }
    out.finish(json!({"generator": {"peer_connection_scenarios": pc_summary, "peer_connection_media_datagrams": pc_media,"alphabet": alpha.iter().map(|o| format!("{:?}", o)).collect::<Vec<_>>(),
        "exhaustive_depth_all_modes": full_depth, "exhaustive_depth_required_modes": deep_depth,
        "random_op_kinds": op_stats, "random_case_lengths": len_stats,
        "datagrams_captured": wire_total, "deliveries_observed": deliver_total,
        "racing_cases": nrace, "racing_datagrams": race_wires, "racing_deliveries": race_deliveries,
        "cases_rerun_after_reordering": retried}}));
}
