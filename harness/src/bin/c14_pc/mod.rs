//! C14, PeerConnection level: two real `PeerConnection`s negotiate over SDP text (DTLS-SRTP, SDES-SRTP, plain RTP
//! as control) with a recording datagram tap between their media sockets (the SDP each side receives points at the
//! tap).  Media samples are pushed and key frames requested from the very first moment (before the offer exists),
//! through the handshake, while connected (RTCP sender / receiver reports, PLI, one video packet dropped by the tap
//! so that the receiver NACKs and the sender retransmits, optionally over RTX) and across `close()` of both ends
//! (close-time BYE).  Oracle, from the property text: in the SRTP-mandatory modes every datagram in the RTP/RTCP
//! first-byte range that crosses the tap -- at any time -- must unprotect with the reference implementation
//! (webrtc-srtp) under that side's session keys (SDES: the inline key of its own SDP; DTLS-SRTP: RFC 5764 exporter
//! output of its DTLS transport, split by role), and no datagram of any kind may contain the cleartext of a pushed
//! sample.  A side whose keys never come into existence (blocked handshake, answer without usable a=crypto) must
//! not emit a single RTP/RTCP datagram.
use bytes::Bytes;
use rustrtc::config::{AudioCapability, MediaCapabilities, VideoCapability};
use rustrtc::media::frame::{AudioFrame, MediaSample, VideoFrame};
use rustrtc::media::track::{sample_track, SampleStreamSource};
use rustrtc::transports::dtls::DtlsState;
use rustrtc::transports::ice::IceGathererState;
use rustrtc::{PeerConnection, RtcConfiguration, RtpCodecParameters, SdpType, SessionDescription, TransportMode};
use serde_json::json;
use std::net::SocketAddr;
use std::sync::atomic::{AtomicBool, Ordering};
use std::sync::Arc;
use std::time::{Duration, Instant};
use tokio::net::UdpSocket;
use webrtc_srtp::context::Context as RefCtx;
use webrtc_srtp::protection_profile::ProtectionProfile as RefProfile;

#[derive(Clone, Copy, Debug, PartialEq)]
pub enum Mode { WebRtc, Srtp, Rtp }

#[derive(Clone, Copy, Debug, PartialEq)]
pub enum Fault {
    None,
    /// the tap drops every DTLS record: keys never exist
    BlockDtls,
    /// the answer the offerer receives has no a=crypto line / another suite / a truncated key
    AnswerNoCrypto,
    AnswerOtherSuite,
    AnswerShortKey,
}

#[derive(Clone, Debug)]
pub struct Scenario {
    pub name: &'static str,
    pub mode: Mode,
    pub rtx: bool,
    pub fault: Fault,
    /// how long media flows after Connected (the first sender report is due after 3 s)
    pub media: Duration,
    /// close this early after the exchange of descriptions if the pair cannot connect
    pub give_up: Duration,
}

pub struct PcOutcome {
    pub fail: Option<String>,
    pub desc: serde_json::Value,
    pub media_datagrams: usize,
}

// ------------------------------------------------------------------------------------ tap
pub struct Rec { pub at: Instant, pub from_off: bool, pub bytes: Vec<u8> }

struct Tap {
    for_off: SocketAddr,      // what the ANSWERER is told is the offerer
    for_ans: SocketAddr,      // what the OFFERER is told is the answerer
    log: Arc<parking_lot::Mutex<Vec<Rec>>>,
    off_real: Arc<parking_lot::Mutex<Option<SocketAddr>>>,
    ans_real: Arc<parking_lot::Mutex<Option<SocketAddr>>>,
    dropped_video: Arc<parking_lot::Mutex<Vec<u16>>>,
    tasks: Vec<tokio::task::JoinHandle<()>>,
}
impl Drop for Tap { fn drop(&mut self) { for t in &self.tasks { t.abort(); } } }

impl Tap {
    async fn new(fault: Fault, drop_video_after: usize) -> Tap {
        let p_off = Arc::new(UdpSocket::bind("127.0.0.1:0").await.unwrap());   // stands in for the offerer
        let p_ans = Arc::new(UdpSocket::bind("127.0.0.1:0").await.unwrap());   // stands in for the answerer
        let log = Arc::new(parking_lot::Mutex::new(Vec::new()));
        let off_real = Arc::new(parking_lot::Mutex::new(None));
        let ans_real = Arc::new(parking_lot::Mutex::new(None));
        let dropped_video = Arc::new(parking_lot::Mutex::new(Vec::new()));
        let mut tasks = vec![];
        for from_off in [true, false] {
            // datagrams from the offerer arrive on p_ans (it believes that is the answerer) and leave from p_off
            let (rx, tx) = if from_off { (p_ans.clone(), p_off.clone()) } else { (p_off.clone(), p_ans.clone()) };
            let dst = if from_off { ans_real.clone() } else { off_real.clone() };
            let log = log.clone();
            let dropped = dropped_video.clone();
            tasks.push(tokio::spawn(async move {
                let mut buf = vec![0u8; 4096];
                let mut video_seen = 0usize;
                loop {
                    let Ok((n, _)) = rx.recv_from(&mut buf).await else { break };
                    let d = buf[..n].to_vec();
                    log.lock().push(Rec { at: Instant::now(), from_off, bytes: d.clone() });
                    let mut forward = true;
                    if fault == Fault::BlockDtls && !d.is_empty() && (20..64).contains(&d[0]) { forward = false; }
                    // lose exactly one video packet of the offerer (the SRTP header is in clear: PT 96, not RTCP)
                    if from_off && d.len() >= 12 && (128..192).contains(&d[0]) && d[1] & 0x7F == 96 {
                        video_seen += 1;
                        if video_seen == drop_video_after { forward = false; dropped.lock().push(u16::from_be_bytes([d[2], d[3]])); }
                    }
                    let to = *dst.lock();
                    if let (true, Some(to)) = (forward, to) { let _ = tx.send_to(&d, to).await; }
                }
            }));
        }
        Tap { for_off: p_off.local_addr().unwrap(), for_ans: p_ans.local_addr().unwrap(), log, off_real, ans_real, dropped_video, tasks }
    }
}

// ------------------------------------------------------------------------------------ peers
fn make_cfg(mode: Mode, rtx: bool) -> RtcConfiguration {
    let mut c = RtcConfiguration::default();
    c.transport_mode = match mode { Mode::WebRtc => TransportMode::WebRtc, Mode::Srtp => TransportMode::Srtp, Mode::Rtp => TransportMode::Rtp };
    c.bind_ip = Some("127.0.0.1".into());
    c.disable_ipv6 = true;
    if rtx {
        c.media_capabilities = Some(MediaCapabilities { audio: vec![AudioCapability::opus()], video: vec![VideoCapability::vp8_with_rtx(97)],
                                                        application: None, image: vec![] });
    }
    c
}

struct Side { pc: PeerConnection, audio: Arc<SampleStreamSource>, video: Arc<SampleStreamSource> }

fn make_side(mode: Mode, rtx: bool) -> Result<Side, String> {
    let pc = PeerConnection::new(make_cfg(mode, rtx));
    let (a_src, a_track, _) = sample_track(rustrtc::media::frame::MediaKind::Audio, 64);
    pc.add_track(a_track, RtpCodecParameters { payload_type: 111, name: "opus".into(), clock_rate: 48000, channels: 2 }).map_err(|e| format!("add_track(audio): {e}"))?;
    let (v_src, v_track, _) = sample_track(rustrtc::media::frame::MediaKind::Video, 64);
    pc.add_track(v_track, RtpCodecParameters { payload_type: 96, name: "VP8".into(), clock_rate: 90000, channels: 0 }).map_err(|e| format!("add_track(video): {e}"))?;
    Ok(Side { pc, audio: Arc::new(a_src), video: Arc::new(v_src) })
}

/// the cleartext every pushed sample carries (searched for in every datagram that crosses the tap)
pub const SAMPLE_MARK: &[u8] = b"C14-cleartext-media-sample/";

fn sample(video: bool, n: u32) -> MediaSample {
    let mut v = Vec::new();
    if video { v.extend_from_slice(&[0x10, 0x01]); }         // VP8 payload descriptor + P-frame header
    v.extend_from_slice(SAMPLE_MARK);
    v.extend_from_slice(&n.to_be_bytes());
    v.extend((0..40u8).map(|i| i.wrapping_mul(13).wrapping_add(n as u8)));
    let data = Bytes::from(v);
    if video { MediaSample::Video(VideoFrame { rtp_timestamp: 3000 * n, data, is_last_packet: true, ..Default::default() }) }
    else { MediaSample::Audio(AudioFrame { rtp_timestamp: 960 * n, clock_rate: 48000, data, ..Default::default() }) }
}

async fn gather(pc: &PeerConnection, direct: bool) -> bool {
    if direct { return true; }
    let t0 = Instant::now();
    while pc.ice_transport().gather_state() != IceGathererState::Complete {
        if t0.elapsed() > Duration::from_secs(5) { return false; }
        tokio::time::sleep(Duration::from_millis(10)).await;
    }
    true
}

/// the UDP port a description advertises (host candidate in ICE mode, m= line in the direct modes)
fn media_port(sdp: &str) -> Option<u16> {
    for l in sdp.lines() {
        if let Some(rest) = l.strip_prefix("a=candidate:") {
            let f: Vec<&str> = rest.split_whitespace().collect();
            if f.len() >= 6 && f[2].eq_ignore_ascii_case("udp") { return f[5].parse().ok(); }
        }
    }
    for l in sdp.lines() {
        if l.starts_with("m=audio ") || l.starts_with("m=video ") {
            let p: u16 = l.split_whitespace().nth(1)?.parse().ok()?;
            if p > 9 { return Some(p); }
        }
    }
    None
}
fn repoint(sdp: &str, real: u16, tap: u16) -> String {
    sdp.lines().map(|l| {
        if l.starts_with("a=candidate:") { l.replace(&format!(" 127.0.0.1 {} typ", real), &format!(" 127.0.0.1 {} typ", tap)) }
        else if l.starts_with("m=audio ") || l.starts_with("m=video ") { l.replacen(&format!(" {} ", real), &format!(" {} ", tap), 1) }
        else if l.starts_with("a=rtcp:") { l.replace(&real.to_string(), &tap.to_string()) }
        else { l.to_string() }
    }).collect::<Vec<_>>().join("\r\n") + "\r\n"
}

fn b64_decode(s: &str) -> Option<Vec<u8>> {
    let mut out = Vec::new();
    let (mut acc, mut bits) = (0u32, 0);
    for ch in s.bytes() {
        let v = match ch { b'A'..=b'Z' => ch - b'A', b'a'..=b'z' => ch - b'a' + 26, b'0'..=b'9' => ch - b'0' + 52, b'+' => 62, b'/' => 63, b'=' => break, _ => return None } as u32;
        acc = (acc << 6) | v;
        bits += 6;
        if bits >= 8 { bits -= 8; out.push((acc >> bits) as u8); acc &= (1 << bits) - 1; }
    }
    Some(out)
}
fn b64_encode(b: &[u8]) -> String {
    const T: &[u8] = b"ABCDEFGHIJKLMNOPQRSTUVWXYZabcdefghijklmnopqrstuvwxyz0123456789+/";
    let mut s = String::new();
    for c in b.chunks(3) {
        let n = (c[0] as u32) << 16 | (*c.get(1).unwrap_or(&0) as u32) << 8 | *c.get(2).unwrap_or(&0) as u32;
        s.push(T[(n >> 18) as usize & 63] as char);
        s.push(T[(n >> 12) as usize & 63] as char);
        s.push(if c.len() > 1 { T[(n >> 6) as usize & 63] as char } else { '=' });
        s.push(if c.len() > 2 { T[n as usize & 63] as char } else { '=' });
    }
    s
}

#[derive(Clone)]
struct TxKeys { profile: RefProfile, key: Vec<u8>, salt: Vec<u8>, how: String }

/// SDES: the key a side sends under is the inline key of the first a=crypto of its OWN description
fn sdes_keys(sdp: &str) -> Option<TxKeys> {
    let l = sdp.lines().find(|l| l.starts_with("a=crypto:"))?;
    let f: Vec<&str> = l.split_whitespace().collect();
    let suite = *f.get(1)?;
    let inline = f.get(2)?.strip_prefix("inline:")?.split('|').next()?;
    let raw = b64_decode(inline)?;
    let (profile, kl, sl) = match suite {
        "AES_CM_128_HMAC_SHA1_80" => (RefProfile::Aes128CmHmacSha1_80, 16, 14),
        "AES_CM_128_HMAC_SHA1_32" => (RefProfile::Aes128CmHmacSha1_32, 16, 14),
        "AEAD_AES_128_GCM" => (RefProfile::AeadAes128Gcm, 16, 12),
        _ => return None,
    };
    if raw.len() < kl + sl { return None; }
    Some(TxKeys { profile, key: raw[..kl].to_vec(), salt: raw[kl..kl + sl].to_vec(), how: format!("SDES {suite}") })
}
/// DTLS-SRTP: RFC 5764 4.2 -- exporter output = client key | server key | client salt | server salt
fn dtls_keys(pc: &PeerConnection) -> Option<TxKeys> {
    let d = pc.verif_dtls_transport()?;
    let DtlsState::Connected(_, prof) = d.get_state() else { return None };
    let (profile, kl, sl) = match prof { Some(2) => (RefProfile::Aes128CmHmacSha1_32, 16, 14), Some(7) => (RefProfile::AeadAes128Gcm, 16, 12), _ => (RefProfile::Aes128CmHmacSha1_80, 16, 14) };
    let m = d.export_keying_material("EXTRACTOR-dtls_srtp", 2 * (kl + sl)).ok()?;
    let client = d.verif_is_client();
    let (key, salt) = if client { (m[..kl].to_vec(), m[2 * kl..2 * kl + sl].to_vec()) } else { (m[kl..2 * kl].to_vec(), m[2 * kl + sl..].to_vec()) };
    Some(TxKeys { profile, key, salt, how: format!("DTLS-SRTP exporter, profile {:?}, dtls {}", prof, if client { "client" } else { "server" }) })
}

fn spoil_answer(sdp: &str, fault: Fault) -> String {
    sdp.lines().filter_map(|l| {
        if !l.starts_with("a=crypto:") { return Some(l.to_string()); }
        match fault {
            Fault::AnswerNoCrypto => None,
            Fault::AnswerOtherSuite => Some(l.replace("AES_CM_128_HMAC_SHA1_80", "AEAD_AES_128_GCM")),
            Fault::AnswerShortKey => {
                let f: Vec<&str> = l.split_whitespace().collect();
                let raw = f.get(2).and_then(|x| x.strip_prefix("inline:")).and_then(|x| x.split('|').next()).and_then(b64_decode).unwrap_or_default();
                Some(format!("{} {} inline:{}", f[0], f[1], b64_encode(&raw[..raw.len().min(20)])))
            }
            _ => Some(l.to_string()),
        }
    }).collect::<Vec<_>>().join("\r\n") + "\r\n"
}

fn quiet<T>(f: impl FnOnce() -> Option<T>) -> Option<T> {
    super::QUIET.with(|q| q.set(true));
    let r = std::panic::catch_unwind(std::panic::AssertUnwindSafe(f)).ok().flatten();
    super::QUIET.with(|q| q.set(false));
    r
}
fn contains(hay: &[u8], needle: &[u8]) -> bool { hay.windows(needle.len()).any(|w| w == needle) }

// ------------------------------------------------------------------------------------ one scenario
pub async fn run(sc: Scenario) -> PcOutcome {
    let t_start = Instant::now();
    let mut steps: Vec<String> = vec![];
    let mut fail: Option<String> = None;
    let direct = sc.mode != Mode::WebRtc;
    let (off, ans) = match (make_side(sc.mode, sc.rtx), make_side(sc.mode, sc.rtx)) {
        (Ok(a), Ok(b)) => (a, b),
        (a, b) => return PcOutcome { fail: Some(format!("harness: cannot build the peers: {:?} {:?}", a.err(), b.err())), desc: json!({"scenario": sc.name}), media_datagrams: 0 },
    };
    let tap = Tap::new(sc.fault, 25).await;

    // application activity from the very first moment: samples on every track, key-frame requests on every receiver
    let stop = Arc::new(AtomicBool::new(false));
    let mut pumps = vec![];
    for side in [&off, &ans] {
        let (a, v, stop2) = (side.audio.clone(), side.video.clone(), stop.clone());
        pumps.push(tokio::spawn(async move {
            let mut n = 0u32;
            while !stop2.load(Ordering::SeqCst) {
                let _ = a.send(sample(false, n));
                let _ = v.send(sample(true, n));
                n += 1;
                tokio::time::sleep(Duration::from_millis(10)).await;
            }
        }));
        let (pc, stop2) = (side.pc.clone(), stop.clone());
        pumps.push(tokio::spawn(async move {
            while !stop2.load(Ordering::SeqCst) {
                for t in pc.get_transceivers() {
                    if let Some(r) = t.receiver() { let _ = tokio::time::timeout(Duration::from_millis(50), r.request_key_frame()).await; }
                }
                tokio::time::sleep(Duration::from_millis(40)).await;
            }
        }));
    }

    // ---- offer / answer through SDP text, every address re-pointed at the tap
    let mut offer_sdp = String::new();
    let mut answer_sdp = String::new();
    let negotiated: Result<(), String> = async {
        off.pc.create_offer().await.map_err(|e| format!("create_offer: {e}"))?;
        if !gather(&off.pc, direct).await { return Err("offerer: ICE gathering did not complete".into()); }
        let offer = off.pc.create_offer().await.map_err(|e| format!("create_offer: {e}"))?;
        offer_sdp = offer.to_sdp_string();
        off.pc.set_local_description(offer).map_err(|e| format!("set_local_description(offer): {e}"))?;
        let real = media_port(&offer_sdp).ok_or("no media port in the offer")?;
        *tap.off_real.lock() = Some(SocketAddr::from(([127, 0, 0, 1], real)));
        let offer_rx = SessionDescription::parse(SdpType::Offer, &repoint(&offer_sdp, real, tap.for_off.port())).map_err(|e| format!("parse(offer): {e}"))?;
        ans.pc.set_remote_description(offer_rx).await.map_err(|e| format!("set_remote_description(offer): {e}"))?;
        ans.pc.create_answer().await.map_err(|e| format!("create_answer: {e}"))?;
        if !gather(&ans.pc, direct).await { return Err("answerer: ICE gathering did not complete".into()); }
        let answer = ans.pc.create_answer().await.map_err(|e| format!("create_answer: {e}"))?;
        answer_sdp = answer.to_sdp_string();
        ans.pc.set_local_description(answer).map_err(|e| format!("set_local_description(answer): {e}"))?;
        let real = media_port(&answer_sdp).ok_or("no media port in the answer")?;
        *tap.ans_real.lock() = Some(SocketAddr::from(([127, 0, 0, 1], real)));
        let shown = spoil_answer(&repoint(&answer_sdp, real, tap.for_ans.port()), sc.fault);
        match SessionDescription::parse(SdpType::Answer, &shown) {
            Ok(answer_rx) => { if let Err(e) = off.pc.set_remote_description(answer_rx).await { steps.push(format!("offerer rejected the answer: {e}")); } }
            Err(e) => steps.push(format!("offerer cannot parse the answer: {e}")),
        }
        Ok(())
    }.await;
    if let Err(e) = &negotiated { steps.push(format!("negotiation stopped: {e}")); }
    let t_negotiated = Instant::now();

    // ---- connect, exchange, close
    let expect_connect = negotiated.is_ok() && sc.fault == Fault::None;
    let both = async { tokio::try_join!(off.pc.wait_for_connected(), ans.pc.wait_for_connected()) };
    let connected = matches!(tokio::time::timeout(if expect_connect { Duration::from_secs(12) } else { sc.give_up }, both).await, Ok(Ok(_)));
    let t_connected = Instant::now();
    steps.push(format!("connected={} after {} ms", connected, t_negotiated.elapsed().as_millis()));
    if expect_connect && !connected {
        fail = Some(format!("harness: the pair did not connect through the tap (offerer {:?}, answerer {:?})",
            *off.pc.subscribe_peer_state().borrow(), *ans.pc.subscribe_peer_state().borrow()));
    }
    if connected { tokio::time::sleep(sc.media).await; }
    else {
        // keep the application pushing media / requesting key frames on the half-configured connection
        let left = sc.give_up.saturating_sub(t_negotiated.elapsed());
        tokio::time::sleep(left).await;
        steps.push(format!("not connected: offerer {:?}, answerer {:?}", *off.pc.subscribe_peer_state().borrow(), *ans.pc.subscribe_peer_state().borrow()));
    }
    let off_keys = match sc.mode { Mode::WebRtc => dtls_keys(&off.pc), Mode::Srtp => if matches!(sc.fault, Fault::None) { sdes_keys(&offer_sdp) } else { None }, Mode::Rtp => None };
    let ans_keys = match sc.mode { Mode::WebRtc => dtls_keys(&ans.pc), Mode::Srtp => sdes_keys(&answer_sdp), Mode::Rtp => None };
    let t_close = Instant::now();
    off.pc.close();
    tokio::time::sleep(Duration::from_millis(200)).await;
    ans.pc.close();
    tokio::time::sleep(Duration::from_millis(200)).await;
    stop.store(true, Ordering::SeqCst);
    for p in pumps { let _ = p.await; }
    tokio::time::sleep(Duration::from_millis(50)).await;

    // ---- oracle over everything that crossed the tap
    let log = std::mem::take(&mut *tap.log.lock());
    let mandatory = sc.mode != Mode::Rtp;
    let mut ctx_off = off_keys.as_ref().and_then(|k| RefCtx::new(&k.key, &k.salt, k.profile, None, None).ok());
    let mut ctx_ans = ans_keys.as_ref().and_then(|k| RefCtx::new(&k.key, &k.salt, k.profile, None, None).ok());
    let mut counts = std::collections::BTreeMap::<String, u64>::new();
    let mut media = 0usize;
    let mut clear_seen = 0usize;
    for (n, r) in log.iter().enumerate() {
        let d = &r.bytes;
        if d.is_empty() { continue; }
        let who = if r.from_off { "offerer" } else { "answerer" };
        let phase = if r.at < t_negotiated { "during offer/answer" } else if r.at < t_connected { "before Connected" } else if r.at < t_close { if connected { "connected" } else { "after the descriptions, never connected" } } else { "after close()" };
        let cleartext = contains(d, SAMPLE_MARK);
        if cleartext { clear_seen += 1; }
        let class = match d[0] { 0..=3 => "stun", 20..=63 => "dtls", 128..=191 => "media", _ => "other" };
        *counts.entry(format!("{who} {class}")).or_default() += 1;
        if mandatory && cleartext && fail.is_none() {
            fail = Some(format!("datagram #{n} from the {who} ({phase}, +{} ms, {} bytes, first byte {}) contains the cleartext of a media sample", r.at.duration_since(t_start).as_millis(), d.len(), d[0]));
        }
        if class != "media" { continue; }
        media += 1;
        if !mandatory { continue; }
        // the side whose answer was spoiled on the way is judged; its peer negotiated normally and may send under its own keys
        let keys = if r.from_off { &off_keys } else { &ans_keys };
        let ctx = if r.from_off { &mut ctx_off } else { &mut ctx_ans };
        let looks_rtcp = d.len() >= 2 && (192..=223).contains(&d[1]);
        let plain: Option<Vec<u8>> = match (ctx, keys) {
            (Some(c), Some(k)) => {
                if looks_rtcp {
                    let idx = if matches!(k.profile, RefProfile::AeadAes128Gcm) { d.len().checked_sub(4) } else { d.len().checked_sub(14) };
                    let e_bit = matches!(idx, Some(i) if i >= 8 && d[i] & 0x80 != 0);
                    if e_bit { quiet(|| c.decrypt_rtcp(d).ok().map(|b| b.to_vec())) } else { None }
                } else { quiet(|| c.decrypt_rtp(d).ok().map(|b| b.to_vec())) }
            }
            _ => None,
        };
        match plain {
            Some(p) => {
                let kind = if looks_rtcp {
                    let mut names = vec![];
                    let mut o = 0;
                    while o + 4 <= p.len() {
                        names.push(match (p[o + 1], p[o] & 0x1F) { (200, _) => "SR", (201, _) => "RR", (202, _) => "SDES", (203, _) => "BYE", (205, 1) => "NACK", (205, _) => "RTPFB", (206, 1) => "PLI", (206, _) => "PSFB", _ => "RTCP?" });
                        o += (u16::from_be_bytes([p[o + 2], p[o + 3]]) as usize + 1) * 4;
                    }
                    names.join("+")
                } else if p[1] & 0x7F == 97 { "RTX".to_string() }
                  else if tap.dropped_video.lock().contains(&u16::from_be_bytes([p[2], p[3]])) && p[1] & 0x7F == 96 { "retransmission".to_string() }
                  else { "RTP".to_string() };
                *counts.entry(format!("{who} protected {kind} {phase}")).or_default() += 1;
            }
            None => {
                if fail.is_none() {
                    let what = if looks_rtcp { format!("RTCP packet type {}", d[1]) } else { format!("RTP payload type {} ssrc {:#x}", d[1] & 0x7F, if d.len() >= 12 { u32::from_be_bytes([d[8], d[9], d[10], d[11]]) } else { 0 }) };
                    fail = Some(format!("datagram #{n} from the {who} ({phase}, +{} ms, {} bytes) is in the RTP/RTCP range (parses as {what}) but {}",
                        r.at.duration_since(t_start).as_millis(), d.len(),
                        match keys { Some(k) => format!("does not unprotect under the {who}'s session keys ({})", k.how), None => format!("the {who} has no SRTP keys (they never came into existence)") }));
                }
            }
        }
    }
    // the cleartext detector must not be blind: in the plain RTP control the samples are visible on the wire
    if sc.mode == Mode::Rtp && connected && clear_seen == 0 && fail.is_none() {
        fail = Some("harness: plain-RTP control run showed no cleartext sample on the wire -- the leak detector would be blind".into());
    }
    let desc = json!({"pc_level": true, "scenario": sc.name, "mode": format!("{:?}", sc.mode), "rtx": sc.rtx, "fault": format!("{:?}", sc.fault),
        "steps": steps, "datagrams": log.len(), "media_datagrams": media, "datagrams_with_cleartext_sample": clear_seen,
        "video_packet_dropped_by_tap": *tap.dropped_video.lock(), "keys": {"offerer": off_keys.as_ref().map(|k| k.how.clone()), "answerer": ans_keys.as_ref().map(|k| k.how.clone())},
        "counts": counts});
    PcOutcome { fail, desc, media_datagrams: media }
}

pub fn scenarios(thorough: bool) -> Vec<Scenario> {
    let long = Duration::from_millis(3700);
    let short = Duration::from_millis(900);
    let g = Duration::from_millis(1500);
    let mut v = vec![
        Scenario { name: "dtls-srtp: full call, sender/receiver reports, PLI, NACK + retransmission, close", mode: Mode::WebRtc, rtx: false, fault: Fault::None, media: long, give_up: g },
        Scenario { name: "dtls-srtp: RTX retransmission", mode: Mode::WebRtc, rtx: true, fault: Fault::None, media: short, give_up: g },
        Scenario { name: "dtls-srtp: handshake never completes (tap drops DTLS), media and PLI pushed, close", mode: Mode::WebRtc, rtx: false, fault: Fault::BlockDtls, media: short, give_up: g },
        Scenario { name: "sdes-srtp: full call, sender/receiver reports, PLI, NACK + retransmission, close", mode: Mode::Srtp, rtx: false, fault: Fault::None, media: long, give_up: g },
        Scenario { name: "sdes-srtp: RTX retransmission", mode: Mode::Srtp, rtx: true, fault: Fault::None, media: short, give_up: g },
        Scenario { name: "sdes-srtp: answer without a=crypto", mode: Mode::Srtp, rtx: false, fault: Fault::AnswerNoCrypto, media: short, give_up: g },
        Scenario { name: "sdes-srtp: answer with another crypto suite", mode: Mode::Srtp, rtx: false, fault: Fault::AnswerOtherSuite, media: short, give_up: g },
        Scenario { name: "sdes-srtp: answer with a truncated key", mode: Mode::Srtp, rtx: false, fault: Fault::AnswerShortKey, media: short, give_up: g },
        Scenario { name: "plain rtp control (detector self-test)", mode: Mode::Rtp, rtx: false, fault: Fault::None, media: short, give_up: g },
    ];
    let _ = thorough;
    v
}

/// a scenario whose peers could not even be connected through the tap says nothing about the property: try again
/// (loaded machine), report only a persistent failure
pub async fn run_with_retry(sc: Scenario) -> PcOutcome {
    let mut last = run(sc.clone()).await;
    for _ in 0..2 {
        match &last.fail { Some(f) if f.starts_with("harness:") => { last = run(sc.clone()).await; } _ => break }
    }
    last
}

/// all scenarios concurrently, `waves` times one after the other
pub async fn run_all(thorough: bool) -> Vec<(Scenario, PcOutcome)> {
    let mut out = vec![];
    for _ in 0..(if thorough { 4 } else { 1 }) {
        let hs: Vec<_> = scenarios(thorough).into_iter().map(|sc| (sc.clone(), tokio::spawn(run_with_retry(sc)))).collect();
        for (sc, h) in hs {
            let r = match h.await {
                Ok(r) => r,
                Err(e) => PcOutcome { fail: Some(format!("PeerConnection scenario task panicked: {}", e)), desc: json!({"scenario": sc.name}), media_datagrams: 0 },
            };
            out.push((sc, r));
        }
    }
    out
}
