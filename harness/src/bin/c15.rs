//! C15 — RTP/RTCP codec correspondence harness.
//!
//! Drives the real `rustrtc::rtp` / `rustrtc::rtx` / NACK handler code with generated logical
//! packets and wire strings, records what the implementation returned (Ok value / Err class /
//! Panic) as Gallina terms for `Run/C15Run.v`, and evaluates the property directly on the
//! implementation's own outputs (round trips, agreement with webrtc-rs `rtp`/`rtcp`, extension
//! get/set laws, NACK set preservation, RTX restore) independently of the Coq model.
use bytes::Bytes;
use rustrtc::errors::RtpError;
use rustrtc::rtp::*;
use serde_json::json;
use std::collections::BTreeMap;
use vh::*;
use webrtc_util::marshal::{Marshal, Unmarshal};

mod rtcpx {
    use super::*;
    use std::collections::BTreeSet;

    // ---------------------------------------------------------------- terms
    fn rb_term(b: &ReportBlock) -> String {
        format!("(mkRB {} {} {} {} {} {} {})", b.ssrc, b.fraction_lost, z(b.packets_lost as i128), b.highest_sequence, b.jitter, b.last_sender_report, b.delay_since_last_sender_report)
    }
    fn u32s(l: &[u32]) -> String { zlist(l.iter().map(|x| *x as i128)) }
    fn rtcp_term(p: &RtcpPacket) -> String {
        match p {
            RtcpPacket::SenderReport(s) => format!("(SR {} {} {} {} {} {} {})", s.sender_ssrc, s.ntp_most, s.ntp_least, s.rtp_timestamp, s.packet_count, s.octet_count, list_term(&s.report_blocks.iter().map(rb_term).collect::<Vec<_>>())),
            RtcpPacket::ReceiverReport(r) => format!("(RR {} {})", r.sender_ssrc, list_term(&r.report_blocks.iter().map(rb_term).collect::<Vec<_>>())),
            RtcpPacket::SourceDescription(d) => format!("(SDES {})", list_term(&d.chunks.iter().map(|c| format!("(mkChunk {} {})", c.ssrc, list_term(&c.items.iter().map(|i| format!("(mkItem {} {})", i.ty, bytes_term(i.text.as_bytes()))).collect::<Vec<_>>()))).collect::<Vec<_>>())),
            RtcpPacket::Goodbye(b) => format!("(BYE {} {})", u32s(&b.sources), opt_term(b.reason.as_ref().map(|r| bytes_term(r.as_bytes())))),
            RtcpPacket::PictureLossIndication(p) => format!("(PLI {} {})", p.sender_ssrc, p.media_ssrc),
            RtcpPacket::FullIntraRequest(f) => format!("(FIR {} {})", f.sender_ssrc, list_term(&f.requests.iter().map(|e| format!("(mkFir {} {})", e.ssrc, e.sequence_number)).collect::<Vec<_>>())),
            RtcpPacket::GenericNack(n) => format!("(NACK {} {} {})", n.sender_ssrc, n.media_ssrc, zlist(n.lost_packets.iter().map(|x| *x as i128))),
            RtcpPacket::RemoteBitrateEstimate(r) => format!("(REMB {} {} {})", r.sender_ssrc, r.bitrate_bps, u32s(&r.ssrcs)),
            RtcpPacket::TransportWideCc(t) => format!("(TWCC {} {} {} {} {} {} {})", t.sender_ssrc, t.media_ssrc, t.base_sequence, t.packet_status_count, t.reference_time_64ms, t.feedback_packet_count, bytes_term(&t.payload)),
        }
    }
    fn rtcps_term(v: &Vec<RtcpPacket>) -> String { list_term(&v.iter().map(rtcp_term).collect::<Vec<_>>()) }
    fn kind_of(p: &RtcpPacket) -> &'static str {
        match p { RtcpPacket::SenderReport(_) => "SR", RtcpPacket::ReceiverReport(_) => "RR", RtcpPacket::SourceDescription(_) => "SDES", RtcpPacket::Goodbye(_) => "BYE",
                  RtcpPacket::PictureLossIndication(_) => "PLI", RtcpPacket::FullIntraRequest(_) => "FIR", RtcpPacket::GenericNack(_) => "NACK",
                  RtcpPacket::RemoteBitrateEstimate(_) => "REMB", RtcpPacket::TransportWideCc(_) => "TWCC" }
    }
    fn short(v: &[RtcpPacket]) -> String { let s = format!("{:?}", v); if s.len() > 600 { format!("{}…", &s[..s.char_indices().take(600).last().map(|x| x.0).unwrap_or(0)]) } else { s } }

    fn impl_marshal_rtcp(v: &[RtcpPacket]) -> Result<Result<Vec<u8>, RtpError>, String> { let v = v.to_vec(); catch(move || marshal_rtcp_packets(&v)) }
    fn impl_parse_rtcp(b: &[u8]) -> Result<Result<Vec<RtcpPacket>, RtpError>, String> { let b = b.to_vec(); catch(move || parse_rtcp_packets(&b, None)) }

    // ---------------------------------------------------------------- the domain of the property, per type
    #[derive(PartialEq, Debug)]
    enum Dom { Valid, MustRefuse(&'static str), Lossy(&'static str) }
    fn lost_ok(b: &ReportBlock) -> bool { (-(1 << 23)..(1 << 23)).contains(&b.packets_lost) }
    fn domain(p: &RtcpPacket) -> Dom {
        match p {
            RtcpPacket::SenderReport(s) => if s.report_blocks.len() > 31 { Dom::MustRefuse("more than 31 report blocks") } else if !s.report_blocks.iter().all(lost_ok) { Dom::Lossy("packets_lost outside 24 bits is clamped") } else { Dom::Valid },
            RtcpPacket::ReceiverReport(s) => if s.report_blocks.len() > 31 { Dom::MustRefuse("more than 31 report blocks") } else if !s.report_blocks.iter().all(lost_ok) { Dom::Lossy("packets_lost outside 24 bits is clamped") } else { Dom::Valid },
            RtcpPacket::SourceDescription(d) => if d.chunks.len() > 31 { Dom::MustRefuse("more than 31 chunks") } else if d.chunks.iter().any(|c| c.items.iter().any(|i| i.text.len() > 255)) { Dom::MustRefuse("SDES item longer than 255 bytes") }
                else if d.chunks.iter().any(|c| c.items.iter().any(|i| i.ty == 0)) { Dom::Lossy("item type 0 is the list terminator") } else { Dom::Valid },
            RtcpPacket::Goodbye(b) => if b.sources.len() > 31 { Dom::MustRefuse("more than 31 sources") } else if b.reason.as_ref().map_or(false, |r| r.len() > 255) { Dom::Lossy("reason longer than 255 bytes is truncated") } else { Dom::Valid },
            RtcpPacket::GenericNack(n) => if n.lost_packets.is_empty() { Dom::MustRefuse("empty NACK") } else { Dom::Valid },
            RtcpPacket::RemoteBitrateEstimate(r) => if r.ssrcs.len() > 255 { Dom::MustRefuse("more than 255 REMB SSRCs") } else { Dom::Valid },
            RtcpPacket::TransportWideCc(t) => if t.reference_time_64ms >= 1 << 24 { Dom::Lossy("reference time is a 24-bit field") } else { Dom::Valid },
            _ => Dom::Valid,
        }
    }
    /// what the receiver must get for a valid packet (the format itself loses NACK order/duplicates and REMB low bits)
    fn canon(p: &RtcpPacket) -> RtcpPacket {
        match p {
            RtcpPacket::GenericNack(n) => { let mut l = n.lost_packets.clone(); l.sort(); l.dedup(); RtcpPacket::GenericNack(GenericNack { lost_packets: l, ..n.clone() }) }
            RtcpPacket::RemoteBitrateEstimate(r) => { let mut m = r.bitrate_bps; let mut e = 0; while m > 0x3FFFF { m >>= 1; e += 1; } RtcpPacket::RemoteBitrateEstimate(RemoteBitrateEstimate { bitrate_bps: m << e, ..r.clone() }) }
            o => o.clone(),
        }
    }
    fn same_modulo_nack_order(a: &RtcpPacket, b: &RtcpPacket) -> bool {
        match (a, b) {
            (RtcpPacket::GenericNack(x), RtcpPacket::GenericNack(y)) => x.sender_ssrc == y.sender_ssrc && x.media_ssrc == y.media_ssrc && x.lost_packets.iter().collect::<BTreeSet<_>>() == y.lost_packets.iter().collect::<BTreeSet<_>>() && y.lost_packets.len() == y.lost_packets.iter().collect::<BTreeSet<_>>().len(),
            _ => a == b,
        }
    }

    // ---------------------------------------------------------------- webrtc-rs as the independent reader
    fn ref_agree(ours: &[RtcpPacket], bytes: &[u8]) -> Option<String> {
        let mut b = Bytes::copy_from_slice(bytes);
        let r = match catch(move || rtcp::packet::unmarshal(&mut b).map_err(|e| e.to_string())) { Ok(Ok(r)) => r, Ok(Err(e)) => return Some(format!("webrtc-rs rejects the encoding: {}", e)), Err(e) => return Some(format!("webrtc-rs panicked: {}", e)) };
        if r.len() != ours.len() { return Some(format!("webrtc-rs sees {} packets, rustrtc wrote {}", r.len(), ours.len())); }
        for (o, x) in ours.iter().zip(r.iter()) {
            let any = x.as_any();
            let rb_same = |a: &ReportBlock, b: &rtcp::reception_report::ReceptionReport| a.ssrc == b.ssrc && a.fraction_lost == b.fraction_lost && (a.packets_lost as u32 & 0xFF_FFFF) == b.total_lost && a.highest_sequence == b.last_sequence_number && a.jitter == b.jitter && a.last_sender_report == b.last_sender_report && a.delay_since_last_sender_report == b.delay;
            let ok = match o {
                RtcpPacket::SenderReport(s) => any.downcast_ref::<rtcp::sender_report::SenderReport>().map_or(false, |y| y.ssrc == s.sender_ssrc && y.ntp_time == ((s.ntp_most as u64) << 32 | s.ntp_least as u64) && y.rtp_time == s.rtp_timestamp && y.packet_count == s.packet_count && y.octet_count == s.octet_count && y.reports.len() == s.report_blocks.len() && s.report_blocks.iter().zip(y.reports.iter()).all(|(a, b)| rb_same(a, b))),
                RtcpPacket::ReceiverReport(s) => any.downcast_ref::<rtcp::receiver_report::ReceiverReport>().map_or(false, |y| y.ssrc == s.sender_ssrc && y.reports.len() == s.report_blocks.len() && s.report_blocks.iter().zip(y.reports.iter()).all(|(a, b)| rb_same(a, b))),
                RtcpPacket::SourceDescription(d) => any.downcast_ref::<rtcp::source_description::SourceDescription>().map_or(false, |y| y.chunks.len() == d.chunks.len() && d.chunks.iter().zip(y.chunks.iter()).all(|(a, b)| a.ssrc == b.source && a.items.len() == b.items.len() && a.items.iter().zip(b.items.iter()).all(|(i, j)| i.ty == j.sdes_type as u8 && i.text.as_bytes() == &j.text[..]))),
                RtcpPacket::Goodbye(g) => any.downcast_ref::<rtcp::goodbye::Goodbye>().map_or(false, |y| y.sources == g.sources && g.reason.as_ref().map_or(&b""[..], |r| r.as_bytes()) == &y.reason[..]),
                RtcpPacket::PictureLossIndication(p) => any.downcast_ref::<rtcp::payload_feedbacks::picture_loss_indication::PictureLossIndication>().map_or(false, |y| y.sender_ssrc == p.sender_ssrc && y.media_ssrc == p.media_ssrc),
                RtcpPacket::FullIntraRequest(f) => any.downcast_ref::<rtcp::payload_feedbacks::full_intra_request::FullIntraRequest>().map_or(false, |y| y.sender_ssrc == f.sender_ssrc && y.fir.len() == f.requests.len() && f.requests.iter().zip(y.fir.iter()).all(|(a, b)| a.ssrc == b.ssrc && a.sequence_number == b.sequence_number)),
                RtcpPacket::GenericNack(n) => any.downcast_ref::<rtcp::transport_feedbacks::transport_layer_nack::TransportLayerNack>().map_or(false, |y| y.sender_ssrc == n.sender_ssrc && y.media_ssrc == n.media_ssrc && y.nacks.iter().flat_map(|p| p.packet_list()).collect::<BTreeSet<u16>>() == n.lost_packets.iter().copied().collect::<BTreeSet<u16>>()),
                RtcpPacket::RemoteBitrateEstimate(e) => any.downcast_ref::<rtcp::payload_feedbacks::receiver_estimated_maximum_bitrate::ReceiverEstimatedMaximumBitrate>().map_or(false, |y| y.sender_ssrc == e.sender_ssrc && y.ssrcs == e.ssrcs && y.bitrate == canon(o).as_remb().unwrap() as f32),
                RtcpPacket::TransportWideCc(_) => true, // opaque payload on our side: the reference needs a well-formed chunk list
            };
            if !ok { return Some(format!("webrtc-rs reads {} differently: {:?}", kind_of(o), x)); }
        }
        None
    }
    trait AsRemb { fn as_remb(&self) -> Option<u64>; }
    impl AsRemb for RtcpPacket { fn as_remb(&self) -> Option<u64> { if let RtcpPacket::RemoteBitrateEstimate(r) = self { Some(r.bitrate_bps) } else { None } } }

    // ---------------------------------------------------------------- oracles
    /// returns (oracle_fail, known class)
    fn oracle_logical(v: &[RtcpPacket], m: &Result<Result<Vec<u8>, RtpError>, String>) -> (Option<String>, Option<String>) {
        let doms: Vec<Dom> = v.iter().map(domain).collect();
        let refuse = doms.iter().find_map(|d| if let Dom::MustRefuse(w) = d { Some(*w) } else { None });
        match m {
            Err(e) => (Some(format!("marshal_rtcp_packets panicked: {}", e)), None),
            Ok(Err(e)) => if refuse.is_some() { (None, None) } else { (Some(format!("marshal refused a representable compound packet: {:?}", e)), None) },
            Ok(Ok(bytes)) => {
                if let Some(w) = refuse { return (Some(format!("marshal emitted bytes for a packet that does not fit the format ({})", w)), None); }
                if bytes.len() % 4 != 0 { return (Some("compound length not a multiple of 4".into()), None); }
                // an SDES "item" of type 0 is the END marker, not an item: outside the domain, nothing is demanded of the bytes
                if doms.iter().any(|d| *d == Dom::Lossy("item type 0 is the list terminator")) { return (None, None); }
                let back = impl_parse_rtcp(bytes);
                let back = match back { Ok(Ok(b)) => b, other => return (Some(format!("parse(marshal xs) fails: {}", res_class(&other))), None) };
                if back.len() != v.len() { return (Some(format!("parse(marshal xs) has {} packets, expected {}", back.len(), v.len())), None); }
                let known = None;
                for ((x, y), d) in v.iter().zip(back.iter()).zip(doms.iter()) {
                    match d {
                        Dom::Valid => if canon(x) != *y { return (Some(format!("parse(marshal [x]) != x for {}: sent {:?} got {:?}", kind_of(x), short(std::slice::from_ref(x)), short(std::slice::from_ref(y)))), None); },
                        Dom::Lossy(_w) => {
                            // documented lossy cases: check the specific expectation
                            match (x, y) {
                                (RtcpPacket::Goodbye(a), RtcpPacket::Goodbye(b)) => {
                                    let (ra, rb) = (a.reason.as_ref().unwrap(), b.reason.as_ref().unwrap());
                                    if a.sources != b.sources || !ra.starts_with(rb.as_str()) || rb.len() > 255 || rb.len() + 4 <= 255.min(ra.len()) { return (Some(format!("BYE reason truncation is not a character-boundary prefix: {} -> {} bytes ending {:?}", ra.len(), rb.len(), rb.chars().last())), None); }
                                }
                                (RtcpPacket::TransportWideCc(a), RtcpPacket::TransportWideCc(b)) => {
                                    // only the 24-bit reference time may be masked
                                    if a.payload != b.payload || a.sender_ssrc != b.sender_ssrc || a.media_ssrc != b.media_ssrc || a.base_sequence != b.base_sequence || a.packet_status_count != b.packet_status_count || a.feedback_packet_count != b.feedback_packet_count || b.reference_time_64ms != a.reference_time_64ms & 0xFF_FFFF { return (Some("TWCC fields other than the masked reference time changed".into()), None); }
                                }
                                (RtcpPacket::SenderReport(a), RtcpPacket::SenderReport(b)) => if a.report_blocks.iter().zip(b.report_blocks.iter()).any(|(p, q)| q.packets_lost != p.packets_lost.clamp(-(1 << 23), (1 << 23) - 1)) { return (Some("packets_lost not clamped to 24 bits".into()), None); },
                                (RtcpPacket::ReceiverReport(a), RtcpPacket::ReceiverReport(b)) => if a.report_blocks.iter().zip(b.report_blocks.iter()).any(|(p, q)| q.packets_lost != p.packets_lost.clamp(-(1 << 23), (1 << 23) - 1)) { return (Some("packets_lost not clamped to 24 bits".into()), None); },
                                _ => {}
                            }
                        }
                        Dom::MustRefuse(_) => unreachable!(),
                    }
                }
                // the reference cannot read: an empty compound, an opaque TWCC chunk list, SDES item types above 8
                // (dropped), a zero REMB mantissa (decoded as 2^23)
                let ref_ok = !v.is_empty() && v.iter().all(|p| match p {
                    RtcpPacket::TransportWideCc(_) => false,
                    RtcpPacket::SourceDescription(d) => d.chunks.iter().all(|c| c.items.iter().all(|i| (1..=8).contains(&i.ty))),
                    RtcpPacket::RemoteBitrateEstimate(e) => e.bitrate_bps != 0,
                    _ => true });
                if ref_ok && doms.iter().all(|d| *d == Dom::Valid) {
                    if let Some(e) = ref_agree(v, bytes) { return (Some(e), None); }
                }
                (None, known)
            }
        }
    }
    fn oracle_wire(_raw: &[u8], r: &Result<Result<Vec<RtcpPacket>, RtpError>, String>) -> (Option<String>, Option<String>) {
        match r {
            Err(m) => (Some(format!("parse_rtcp_packets panicked: {}", m)), None),
            Ok(Err(_)) => (None, None),
            Ok(Ok(xs)) => {
                // a text that decoded to more than 255 bytes (invalid UTF-8 expands to U+FFFD) cannot be sent again
                let lossy_text = xs.iter().any(|p| match p { RtcpPacket::SourceDescription(d) => d.chunks.iter().any(|c| c.items.iter().any(|i| i.text.len() > 255)), RtcpPacket::Goodbye(b) => b.reason.as_ref().map_or(false, |r| r.len() > 255), _ => false });
                // a feedback message without any FCI entry is accepted leniently but is not a well-formed packet
                let empty_fci = xs.iter().any(|p| matches!(p, RtcpPacket::GenericNack(n) if n.lost_packets.is_empty()));
                if lossy_text || empty_fci { return (None, None); }
                let m = impl_marshal_rtcp(xs);
                match &m {
                    Ok(Ok(b)) => {
                        match impl_parse_rtcp(b) {
                            Ok(Ok(ys)) => {
                                if ys.len() != xs.len() { return (Some("re-parsed packet count differs".into()), None); }
                                let known = None;
                                for (x, y) in xs.iter().zip(ys.iter()) {
                                    if same_modulo_nack_order(x, y) { continue; }
                                    return (Some(format!("parse(marshal(parse raw)) != parse raw for {}: {} vs {}", kind_of(x), short(std::slice::from_ref(x)), short(std::slice::from_ref(y)))), None);
                                }
                                (None, known)
                            }
                            other => (Some(format!("re-serialised compound does not parse: {}", res_class(&other))), None),
                        }
                    }
                    other => (Some(format!("a parsed compound packet does not re-serialise: {}", res_class(other))), None),
                }
            }
        }
    }

    fn case_logical(cx: &mut Ctx, kind: &str, v: &[RtcpPacket]) -> Option<Vec<u8>> {
        let m = impl_marshal_rtcp(v);
        let (fail, known) = oracle_logical(v, &m);
        for p in v { cx.bump(&format!("rtcp.type.{}", kind_of(p))); }
        cx.bump(&format!("rtcp.marshal.{}", match &m { Ok(Ok(_)) => "ok", Ok(Err(_)) => "err", Err(_) => "panic" }));
        cx.bump(&format!("rtcp.compound.{}", v.len().min(4)));
        let term = format!("KRtcpMarshal {} {}", rtcps_term(&v.to_vec()), res_term(&m, |b| bytes_term(b)));
        let big = term.len() > 400_000;
        cx.push(kind, if big { "-".into() } else { term }, json!({"op": "marshal_rtcp_packets", "packets": short(v), "impl": res_class(&m), "bytes": m.as_ref().ok().and_then(|x| x.as_ref().ok()).map(|b| if b.len() > 400 { format!("{}… ({} bytes)", hex(&b[..400]), b.len()) } else { hex(b) })}),
            fail, known, matches!(m, Ok(Ok(_))), format!("CM{:?}", v));
        match m { Ok(Ok(b)) => Some(b), _ => None }
    }
    fn case_wire(cx: &mut Ctx, kind: &str, raw: &[u8]) {
        let r = impl_parse_rtcp(raw);
        let (fail, known) = oracle_wire(raw, &r);
        cx.bump(&format!("rtcp.parse.{}", match &r { Ok(Ok(v)) => format!("ok{}", v.len().min(4)), Ok(Err(e)) => format!("{:?}", e).split('(').next().unwrap().to_string(), Err(_) => "panic".into() }));
        let term = format!("KRtcpParse {} {}", bytes_term(raw), res_term(&r, rtcps_term));
        cx.push(kind, term, json!({"op": "parse_rtcp_packets", "raw": if raw.len() > 400 { format!("{}… ({} bytes)", hex(&raw[..400]), raw.len()) } else { hex(raw) }, "impl": res_class(&r), "packets": r.as_ref().ok().and_then(|x| x.as_ref().ok()).map(|v| short(v))}),
            fail, known, matches!(&r, Ok(Ok(v)) if !v.is_empty()), format!("CP{}", hex(raw)));
    }

    // ---------------------------------------------------------------- generators
    fn gen_block(r: &mut Rng, wild: bool) -> ReportBlock {
        let lost = match r.below(9) { 0 => 0, 1 => -1, 2 => (1 << 23) - 1, 3 => -(1 << 23), 4 => 1, 5 if wild => 1 << 23, 6 if wild => -(1 << 23) - 1, 7 if wild => *r.pick(&[i32::MAX, i32::MIN]), _ => (r.next() as i32) >> 8 };
        ReportBlock { ssrc: pick_u32(r), fraction_lost: *r.pick(&[0u8, 1, 128, 255]), packets_lost: lost, highest_sequence: pick_u32(r), jitter: pick_u32(r), last_sender_report: pick_u32(r), delay_since_last_sender_report: pick_u32(r) }
    }
    fn gen_text(r: &mut Rng, wild: bool) -> String {
        let n = match r.below(10) { 0 => 0, 1 => 1, 2 => 254, 3 => 255, 4 if wild => 256, 5 if wild => 300, _ => r.range(1, 20) } as usize;
        let alphabet: &[&str] = if r.chance(1, 3) { &["a", "é", "€", "😀", "z", "ß"] } else { &["a", "b", "@", ".", "0", " "] };
        let mut s = String::new();
        while s.len() < n { let c = *r.pick(alphabet); if s.len() + c.len() > n { if s.len() + 1 <= n { s.push('x'); } else { break; } } else { s.push_str(c); } }
        s
    }
    fn gen_count(r: &mut Rng, wild: bool) -> usize { if wild { *r.pick(&[0usize, 1, 2, 30, 31, 31, 32, 33]) } else { *r.pick(&[0usize, 1, 1, 2, 3, 31]) } }
    fn gen_rtcp(r: &mut Rng, wild: bool) -> RtcpPacket {
        match r.below(9) {
            0 => RtcpPacket::SenderReport(SenderReport { sender_ssrc: pick_u32(r), ntp_most: pick_u32(r), ntp_least: pick_u32(r), rtp_timestamp: pick_u32(r), packet_count: pick_u32(r), octet_count: pick_u32(r), report_blocks: (0..gen_count(r, wild)).map(|_| gen_block(r, wild)).collect() }),
            1 => RtcpPacket::ReceiverReport(ReceiverReport { sender_ssrc: pick_u32(r), report_blocks: (0..gen_count(r, wild)).map(|_| gen_block(r, wild)).collect() }),
            2 => RtcpPacket::SourceDescription(SourceDescription { chunks: (0..gen_count(r, wild)).map(|_| SdesChunk { ssrc: pick_u32(r), items: (0..r.below(4)).map(|_| SdesItem { ty: if wild && r.chance(1, 30) { 0 } else { *r.pick(&[1u8, 1, 2, 7, 8, 255]) }, text: gen_text(r, wild) }).collect() }).collect() }),
            3 => RtcpPacket::Goodbye(Goodbye { sources: (0..gen_count(r, wild)).map(|_| pick_u32(r)).collect(), reason: if r.chance(1, 2) { None } else { Some(gen_text(r, wild)) } }),
            4 => RtcpPacket::PictureLossIndication(PictureLossIndication { sender_ssrc: pick_u32(r), media_ssrc: pick_u32(r) }),
            5 => RtcpPacket::FullIntraRequest(FullIntraRequest { sender_ssrc: pick_u32(r), requests: (0..r.below(4)).map(|_| FirRequest { ssrc: pick_u32(r), sequence_number: *r.pick(&[0u8, 1, 255]) }).collect() }),
            6 => { let base = if r.chance(1, 3) { 65520 + r.below(16) as u16 } else { pick_u16(r) }; let n = if wild && r.chance(1, 12) { 0 } else { r.range(1, 24) };
                   RtcpPacket::GenericNack(GenericNack { sender_ssrc: pick_u32(r), media_ssrc: pick_u32(r), lost_packets: (0..n).map(|_| base.wrapping_add(r.below(40) as u16)).collect() }) }
            7 => { let br = match r.below(10) { 0 => 0, 1 => 0x3FFFF, 2 => 0x40000, 3 => 0x40001, 4 => u64::MAX, 5 => 1 << 63, 6 => 0x3FFFFu64 << 46, 7 => 750_000, _ => r.next() >> r.below(64) };
                   let n = if wild && r.chance(1, 15) { *r.pick(&[255usize, 256]) } else { r.below(4) as usize };
                   RtcpPacket::RemoteBitrateEstimate(RemoteBitrateEstimate { sender_ssrc: pick_u32(r), bitrate_bps: br, ssrcs: (0..n).map(|_| pick_u32(r)).collect() }) }
            _ => { let n = if wild { *r.pick(&[0usize, 4, 8, 1, 2, 3, 5]) } else { *r.pick(&[0usize, 4, 8, 20]) };
                   RtcpPacket::TransportWideCc(TransportWideCc { sender_ssrc: pick_u32(r), media_ssrc: pick_u32(r), base_sequence: pick_u16(r), packet_status_count: pick_u16(r), reference_time_64ms: if wild && r.chance(1, 10) { 1 << 24 } else { *r.pick(&[0u32, 1, 0xFF_FFFF, 0x80_0000, 12345]) }, feedback_packet_count: *r.pick(&[0u8, 1, 255]), payload: r.bytes(n) }) }
        }
    }

    fn mutations(r: &mut Rng, base: &[u8]) -> Vec<Vec<u8>> {
        let mut v = vec![];
        // sub-packet boundaries
        let mut offs = vec![]; let mut o = 0;
        while o + 4 <= base.len() { offs.push(o); o += (u16::from_be_bytes([base[o + 2], base[o + 3]]) as usize + 1) * 4; }
        for &o in &offs {
            let plen = (u16::from_be_bytes([base[o + 2], base[o + 3]]) as usize + 1) * 4;
            for c in [o + 1, o + 3, o + 4, o + 5, o + plen - 1, o + plen, o + plen + 1, o + plen + 3] { if c <= base.len() { v.push(base[..c].to_vec()); } }
            let w = u16::from_be_bytes([base[o + 2], base[o + 3]]);
            for nw in [0u16, w.wrapping_sub(1), w.wrapping_add(1), 0xFFFF] { let mut b = base.to_vec(); b[o + 2..o + 4].copy_from_slice(&nw.to_be_bytes()); v.push(b); }
            for cnt in [0u8, 1, 2, 15, 30, 31] { let mut b = base.to_vec(); b[o] = (b[o] & 0xE0) | cnt; v.push(b); }
            for ver in [0u8, 1, 3] { let mut b = base.to_vec(); b[o] = (b[o] & 0x3F) | (ver << 6); v.push(b); }
            for pt in [192u8, 199, 200, 201, 202, 203, 204, 205, 206, 207, 208, 0] { let mut b = base.to_vec(); b[o + 1] = pt; v.push(b); }
            for pad in [0usize, 1, 2, plen.saturating_sub(5), plen - 4, plen - 3, 255] { let mut b = base.to_vec(); b[o] |= 0x20; b[o + plen - 1] = pad as u8; v.push(b); }
            // a byte inside the body
            if plen > 4 { for _ in 0..3 { let mut b = base.to_vec(); let i = o + 4 + r.below((plen - 4) as u64) as usize; b[i] = *r.pick(&[0u8, 1, 0x7F, 0x80, 0xC3, 0xE2, 0xF0, 0xFF]); v.push(b); } }
        }
        v
    }

    pub fn run(cx: &mut Ctx, r: &mut Rng, thorough: bool) {
        let blk = ReportBlock { ssrc: 1, fraction_lost: 0, packets_lost: 0, highest_sequence: 0, jitter: 0, last_sender_report: 0, delay_since_last_sender_report: 0 };
        // ---- corpus: the F12 witnesses (now refused / truncated at a boundary) and boundary values of every count
        let corpus: Vec<Vec<RtcpPacket>> = vec![
            vec![RtcpPacket::SourceDescription(SourceDescription { chunks: vec![SdesChunk { ssrc: 1, items: vec![SdesItem { ty: 1, text: "a".repeat(300) }] }] })],
            vec![RtcpPacket::SourceDescription(SourceDescription { chunks: vec![SdesChunk { ssrc: 1, items: vec![SdesItem { ty: 1, text: "a".repeat(255) }] }] })],
            vec![RtcpPacket::SourceDescription(SourceDescription { chunks: vec![SdesChunk { ssrc: 1, items: vec![SdesItem { ty: 1, text: "a".repeat(256) }] }] })],
            vec![RtcpPacket::ReceiverReport(ReceiverReport { sender_ssrc: 5, report_blocks: vec![blk.clone(); 32] })],
            vec![RtcpPacket::ReceiverReport(ReceiverReport { sender_ssrc: 5, report_blocks: vec![blk.clone(); 31] })],
            vec![RtcpPacket::SenderReport(SenderReport { sender_ssrc: 5, ntp_most: 1, ntp_least: 2, rtp_timestamp: 3, packet_count: 4, octet_count: 5, report_blocks: vec![blk.clone(); 32] })],
            vec![RtcpPacket::SenderReport(SenderReport { sender_ssrc: 5, ntp_most: 1, ntp_least: 2, rtp_timestamp: 3, packet_count: 4, octet_count: 5, report_blocks: vec![blk.clone(); 31] })],
            vec![RtcpPacket::Goodbye(Goodbye { sources: vec![1], reason: Some("é".repeat(128)) })],
            vec![RtcpPacket::Goodbye(Goodbye { sources: vec![1], reason: Some(format!("a{}", "€".repeat(100))) })],
            vec![RtcpPacket::Goodbye(Goodbye { sources: vec![1], reason: Some(format!("ab{}", "😀".repeat(70))) })],
            vec![RtcpPacket::Goodbye(Goodbye { sources: vec![1], reason: Some("x".repeat(255)) })],
            vec![RtcpPacket::Goodbye(Goodbye { sources: vec![7; 32], reason: None })],
            vec![RtcpPacket::Goodbye(Goodbye { sources: vec![7; 31], reason: Some(String::new()) })],
            vec![RtcpPacket::Goodbye(Goodbye { sources: vec![], reason: None })],
            vec![RtcpPacket::SourceDescription(SourceDescription { chunks: (0..32).map(|i| SdesChunk { ssrc: i, items: vec![] }).collect() })],
            vec![RtcpPacket::SourceDescription(SourceDescription { chunks: (0..31).map(|i| SdesChunk { ssrc: i, items: vec![SdesItem { ty: 1, text: "c".repeat(i as usize % 5) }] }).collect() })],
            vec![RtcpPacket::RemoteBitrateEstimate(RemoteBitrateEstimate { sender_ssrc: 1, bitrate_bps: 750_000, ssrcs: vec![2, 3] })],
            vec![RtcpPacket::RemoteBitrateEstimate(RemoteBitrateEstimate { sender_ssrc: 1, bitrate_bps: u64::MAX, ssrcs: vec![] })],
            vec![RtcpPacket::RemoteBitrateEstimate(RemoteBitrateEstimate { sender_ssrc: 1, bitrate_bps: 0, ssrcs: vec![9; 256] })],
            vec![RtcpPacket::RemoteBitrateEstimate(RemoteBitrateEstimate { sender_ssrc: 1, bitrate_bps: 0x3FFFF, ssrcs: vec![9; 255] })],
            vec![RtcpPacket::ReceiverReport(ReceiverReport { sender_ssrc: 5, report_blocks: vec![ReportBlock { packets_lost: -1, ..blk.clone() }, ReportBlock { packets_lost: -(1 << 23), ..blk.clone() }, ReportBlock { packets_lost: (1 << 23) - 1, ..blk.clone() }, ReportBlock { packets_lost: 1 << 23, ..blk.clone() }, ReportBlock { packets_lost: i32::MIN, ..blk.clone() }] })],
            vec![RtcpPacket::TransportWideCc(TransportWideCc { sender_ssrc: 1, media_ssrc: 2, base_sequence: 3, packet_status_count: 1, reference_time_64ms: 0xFF_FFFF, feedback_packet_count: 255, payload: vec![0x20, 0x01, 0x04, 0x00] })],
            vec![RtcpPacket::TransportWideCc(TransportWideCc { sender_ssrc: 1, media_ssrc: 2, base_sequence: 3, packet_status_count: 1, reference_time_64ms: 5, feedback_packet_count: 0, payload: vec![0x20] })],
            vec![RtcpPacket::PictureLossIndication(PictureLossIndication { sender_ssrc: 1, media_ssrc: 2 }), RtcpPacket::GenericNack(GenericNack { sender_ssrc: 5, media_ssrc: 6, lost_packets: vec![100, 102] })],
            vec![],
        ];
        for c in &corpus { if let Some(b) = case_logical(cx, "corpus", c) { case_wire(cx, "corpus", &b); } }
        // wire corpus: all strings of length < 4 are an empty compound; one header of every type with an empty body
        case_wire(cx, "exhaustive", &[]);
        for b in [0x80u8, 0x00, 0xFF] { case_wire(cx, "exhaustive", &[b]); case_wire(cx, "exhaustive", &[b, 200, 0]); }
        for pt in 190..=212u8 { for first in [0x80u8, 0x81, 0x8F, 0x9F, 0xA0, 0xA1, 0x40] { case_wire(cx, "exhaustive", &[first, pt, 0, 0]); case_wire(cx, "exhaustive", &[first, pt, 0, 1, 0, 0, 0, 1]); } }
        // XR and unknown types are skipped, also inside a compound
        case_wire(cx, "corpus", &[0x80, 207, 0, 1, 1, 2, 3, 4, 0x81, 206, 0, 2, 0, 0, 0, 1, 0, 0, 0, 2]);
        // REMB exponent 63 with full mantissa: the shift leaves u64
        case_wire(cx, "corpus", &[0x8F, 206, 0, 4, 0, 0, 0, 1, 0, 0, 0, 0, b'R', b'E', b'M', b'B', 0, 0xFF, 0xFF, 0xFF]);
        case_wire(cx, "corpus", &[0x8F, 206, 0, 4, 0, 0, 0, 1, 0, 0, 0, 0, b'R', b'E', b'M', b'X', 0, 0, 0, 1]);
        // SDES text that is not UTF-8, BYE reason cut short
        case_wire(cx, "corpus", &[0x81, 202, 0, 3, 0, 0, 0, 1, 1, 4, 0xC3, 0x28, 0xE2, 0x82, 0, 0]);
        case_wire(cx, "corpus", &[0x81, 203, 0, 2, 0, 0, 0, 1, 9, b'a', b'b', b'c']);
        // ---- generated compounds (valid domain), each also parsed back and mutated
        let n = if thorough { 3000 } else { 360 };
        for i in 0..n {
            let k = match r.below(6) { 0 | 1 | 2 => 1, 3 => 2, 4 => 3, _ => 4 };
            let v: Vec<RtcpPacket> = (0..k).map(|_| gen_rtcp(r, false)).collect();
            if let Some(b) = case_logical(cx, "random", &v) {
                case_wire(cx, "random", &b);
                let muts = mutations(r, &b);
                if (thorough && i % 5 == 0) || i % 30 == 0 { for m in &muts { case_wire(cx, "mutated", m); } } else { for _ in 0..2 { let m = r.pick(&muts).clone(); case_wire(cx, "mutated", &m); } }
            }
        }
        // ---- generated compounds beyond the field ranges (must be refused, or lossy in the documented way)
        let n = if thorough { 3000 } else { 300 };
        for _ in 0..n {
            let k = if r.chance(2, 3) { 1 } else { 2 };
            let v: Vec<RtcpPacket> = (0..k).map(|_| gen_rtcp(r, true)).collect();
            if let Some(b) = case_logical(cx, "random-wild", &v) { if b.len() < 3000 { case_wire(cx, "random-wild", &b); } }
        }
        // ---- webrtc-rs serialises, rustrtc parses
        let n = if thorough { 2000 } else { 200 };
        for _ in 0..n {
            use rtcp::packet::Packet as RP;
            let mk_rr = |r: &mut Rng| rtcp::reception_report::ReceptionReport { ssrc: pick_u32(r), fraction_lost: r.next() as u8, total_lost: (r.next() as u32) & 0xFF_FFFF, last_sequence_number: pick_u32(r), jitter: pick_u32(r), last_sender_report: pick_u32(r), delay: pick_u32(r) };
            let to_rb = |x: &rtcp::reception_report::ReceptionReport| ReportBlock { ssrc: x.ssrc, fraction_lost: x.fraction_lost, packets_lost: ((x.total_lost << 8) as i32) >> 8, highest_sequence: x.last_sequence_number, jitter: x.jitter, last_sender_report: x.last_sender_report, delay_since_last_sender_report: x.delay };
            let (pkt, want): (Box<dyn RP + Send + Sync>, RtcpPacket) = match r.below(7) {
                0 => { let reps: Vec<_> = (0..r.below(4)).map(|_| mk_rr(r)).collect(); let (a, b) = (pick_u32(r), pick_u32(r));
                       let p = rtcp::sender_report::SenderReport { ssrc: pick_u32(r), ntp_time: (a as u64) << 32 | b as u64, rtp_time: pick_u32(r), packet_count: pick_u32(r), octet_count: pick_u32(r), reports: reps.clone(), ..Default::default() };
                       let w = RtcpPacket::SenderReport(SenderReport { sender_ssrc: p.ssrc, ntp_most: a, ntp_least: b, rtp_timestamp: p.rtp_time, packet_count: p.packet_count, octet_count: p.octet_count, report_blocks: reps.iter().map(to_rb).collect() }); (Box::new(p), w) }
                1 => { let reps: Vec<_> = (0..r.below(4)).map(|_| mk_rr(r)).collect(); let p = rtcp::receiver_report::ReceiverReport { ssrc: pick_u32(r), reports: reps.clone(), ..Default::default() };
                       let w = RtcpPacket::ReceiverReport(ReceiverReport { sender_ssrc: p.ssrc, report_blocks: reps.iter().map(to_rb).collect() }); (Box::new(p), w) }
                2 => { let txt = gen_text(r, false); let s = pick_u32(r);
                       let p = rtcp::source_description::SourceDescription { chunks: vec![rtcp::source_description::SourceDescriptionChunk { source: s, items: vec![rtcp::source_description::SourceDescriptionItem { sdes_type: rtcp::source_description::SdesType::SdesCname, text: Bytes::from(txt.clone().into_bytes()) }] }] };
                       let w = RtcpPacket::SourceDescription(SourceDescription { chunks: vec![SdesChunk { ssrc: s, items: vec![SdesItem { ty: 1, text: txt }] }] }); (Box::new(p), w) }
                3 => { let srcs: Vec<u32> = (0..r.below(4)).map(|_| pick_u32(r)).collect(); let txt = if r.chance(1, 2) { String::new() } else { gen_text(r, false) };
                       let p = rtcp::goodbye::Goodbye { sources: srcs.clone(), reason: Bytes::from(txt.clone().into_bytes()) };
                       let w = RtcpPacket::Goodbye(Goodbye { sources: srcs, reason: if txt.is_empty() { None } else { Some(txt) } }); (Box::new(p), w) }
                4 => { let p = rtcp::payload_feedbacks::picture_loss_indication::PictureLossIndication { sender_ssrc: pick_u32(r), media_ssrc: pick_u32(r) };
                       let w = RtcpPacket::PictureLossIndication(PictureLossIndication { sender_ssrc: p.sender_ssrc, media_ssrc: p.media_ssrc }); (Box::new(p), w) }
                5 => { let fir: Vec<_> = (0..r.range(1, 3)).map(|_| rtcp::payload_feedbacks::full_intra_request::FirEntry { ssrc: pick_u32(r), sequence_number: r.next() as u8 }).collect();
                       let p = rtcp::payload_feedbacks::full_intra_request::FullIntraRequest { sender_ssrc: pick_u32(r), media_ssrc: 0, fir: fir.clone() };
                       let w = RtcpPacket::FullIntraRequest(FullIntraRequest { sender_ssrc: p.sender_ssrc, requests: fir.iter().map(|e| FirRequest { ssrc: e.ssrc, sequence_number: e.sequence_number }).collect() }); (Box::new(p), w) }
                _ => { let m = r.below(0x40000); let e = r.below(20); let ss: Vec<u32> = (0..r.below(3)).map(|_| pick_u32(r)).collect();
                       let p = rtcp::payload_feedbacks::receiver_estimated_maximum_bitrate::ReceiverEstimatedMaximumBitrate { sender_ssrc: pick_u32(r), bitrate: (m << e) as f32, ssrcs: ss.clone() };
                       let w = RtcpPacket::RemoteBitrateEstimate(RemoteBitrateEstimate { sender_ssrc: p.sender_ssrc, bitrate_bps: ((m << e) as f32) as u64, ssrcs: ss }); (Box::new(p), w) }
            };
            let Ok(bytes) = rtcp::packet::marshal(&[pkt]) else { cx.bump("rtcp.ref.marshal.err"); continue; };
            let got = impl_parse_rtcp(&bytes);
            let (mut fail, known) = oracle_wire(&bytes, &got);
            if fail.is_none() {
                match &got {
                    Ok(Ok(v)) if v.len() == 1 => {
                        let same = match (&v[0], &want) {
                            (RtcpPacket::RemoteBitrateEstimate(a), RtcpPacket::RemoteBitrateEstimate(b)) => a.sender_ssrc == b.sender_ssrc && a.ssrcs == b.ssrcs && (a.bitrate_bps as f32) == (b.bitrate_bps as f32),
                            // "no reason" and "empty reason" are one encoding on the reference side
                            (RtcpPacket::Goodbye(a), RtcpPacket::Goodbye(b)) => a.sources == b.sources && a.reason.clone().unwrap_or_default() == b.reason.clone().unwrap_or_default(),
                            (a, b) => a == b,
                        };
                        if !same { fail = Some(format!("a webrtc-rs {} reads differently: {} vs expected {}", kind_of(&want), short(v), short(std::slice::from_ref(&want)))); }
                    }
                    other => fail = Some(format!("rustrtc does not read a webrtc-rs {}: {}", kind_of(&want), res_class(other))),
                }
            }
            let term = format!("KRtcpParse {} {}", bytes_term(&bytes), res_term(&got, rtcps_term));
            cx.push("ref-encoded", term, json!({"op": "parse_rtcp_packets(webrtc-rs bytes)", "raw": hex(&bytes), "expected": short(std::slice::from_ref(&want))}), fail, known, true, format!("CR{}", hex(&bytes)));
        }
        // ---- malformed stream
        let n = if thorough { 4000 } else { 300 };
        for _ in 0..n {
            let len = match r.below(3) { 0 => r.range(0, 12), 1 => 4 * r.range(1, 12), _ => r.range(0, 80) } as usize;
            let mut b = r.bytes(len);
            if b.len() >= 4 && r.chance(4, 5) { b[0] = 0x80 | (b[0] & 0x3F); b[1] = *r.pick(&[200u8, 201, 202, 203, 205, 206, 207, 204]); if r.chance(2, 3) { let w = (len / 4).saturating_sub(1) as u16; b[2..4].copy_from_slice(&w.to_be_bytes()); } }
            case_wire(cx, "malformed", &b);
        }
    }
}

// ------------------------------------------------------------------------------------------ terms
pub fn err_term(e: &RtpError) -> String {
    match e {
        RtpError::PacketTooShort => "(Err EShort)".into(),
        RtpError::UnsupportedVersion(v) => format!("(Err (EVersion {}))", v),
        RtpError::InvalidHeader(_) => "(Err EInvalidHeader)".into(),
        RtpError::InvalidRtcp(_) => "(Err EInvalidRtcp)".into(),
        RtpError::LengthMismatch => "(Err ELenMismatch)".into(),
    }
}
/// outer Err = panic message
pub fn res_term<T>(r: &Result<Result<T, RtpError>, String>, f: impl Fn(&T) -> String) -> String {
    match r {
        Err(_) => "Panic".into(),
        Ok(Err(e)) => err_term(e),
        Ok(Ok(v)) => format!("(Ok {})", f(v)),
    }
}
pub fn res_class<T>(r: &Result<Result<T, RtpError>, String>) -> String {
    match r {
        Err(m) => format!("Panic({})", m),
        Ok(Err(e)) => format!("Err({:?})", e),
        Ok(Ok(_)) => "Ok".into(),
    }
}
fn ext_term(e: &RtpHeaderExtension) -> String {
    format!("(mkExt {} {})", e.profile, bytes_term(&e.data))
}
fn hdr_term(h: &RtpHeader) -> String {
    format!(
        "(mkHdr {} {} {} {} {} {} {})",
        bool_term(h.marker),
        h.payload_type,
        h.sequence_number,
        h.timestamp,
        h.ssrc,
        zlist(h.csrcs.iter().map(|x| *x as i128)),
        opt_term(h.extension.as_ref().map(ext_term))
    )
}
fn pkt_term(p: &RtpPacket) -> String {
    format!("(mkPkt {} {} {})", hdr_term(&p.header), bytes_term(&p.payload), p.padding_len)
}
pub fn hex(b: &[u8]) -> String {
    b.iter().map(|x| format!("{:02x}", x)).collect()
}
fn hdr_json(h: &RtpHeader) -> serde_json::Value {
    json!({"m": h.marker, "pt": h.payload_type, "seq": h.sequence_number, "ts": h.timestamp, "ssrc": h.ssrc,
           "csrcs": h.csrcs, "ext": h.extension.as_ref().map(|e| json!({"profile": e.profile, "data": hex(&e.data)}))})
}
fn pkt_json(p: &RtpPacket) -> serde_json::Value {
    json!({"hdr": hdr_json(&p.header), "payload": hex(&p.payload), "padding_len": p.padding_len})
}

pub struct Ctx {
    pub out: Out,
    pub stats: BTreeMap<String, u64>,
}
impl Ctx {
    pub fn bump(&mut self, k: &str) {
        *self.stats.entry(k.to_string()).or_default() += 1;
    }
    pub fn push(&mut self, kind: &str, term: String, desc: serde_json::Value, fail: Option<String>, known: Option<String>, nontrivial: bool, key: String) {
        self.bump(&format!("kind:{}", kind));
        self.out.push(Case { term, desc, oracle_fail: fail, known, nontrivial, key, kind: kind.to_string() });
    }
}

// ------------------------------------------------------------------------------------------ real code
fn impl_parse(raw: &[u8]) -> Result<Result<RtpPacket, RtpError>, String> {
    let v = raw.to_vec();
    catch(move || RtpPacket::parse(&v))
}
fn impl_marshal(p: &RtpPacket) -> Result<Result<Vec<u8>, RtpError>, String> {
    let p = p.clone();
    catch(move || p.marshal())
}

// ------------------------------------------------------------------------------------------ webrtc-rs second oracle
fn ref_parse(raw: &[u8]) -> Result<Result<rtp::packet::Packet, String>, String> {
    let v = Bytes::copy_from_slice(raw);
    catch(move || {
        let mut b = v.clone();
        rtp::packet::Packet::unmarshal(&mut b).map_err(|e| e.to_string())
    })
}

/// compare rustrtc's logical packet with what webrtc-rs read from the same bytes
fn agree_with_ref(p: &RtpPacket, r: &rtp::packet::Packet, raw_len: usize) -> Option<String> {
    let h = &p.header;
    let rh = &r.header;
    if rh.version != 2 { return Some(format!("ref version {}", rh.version)); }
    if rh.marker != h.marker { return Some("marker differs from webrtc-rs".into()); }
    if rh.payload_type != h.payload_type { return Some(format!("pt {} vs webrtc-rs {}", h.payload_type, rh.payload_type)); }
    if rh.sequence_number != h.sequence_number { return Some("seq differs from webrtc-rs".into()); }
    if rh.timestamp != h.timestamp { return Some("timestamp differs from webrtc-rs".into()); }
    if rh.ssrc != h.ssrc { return Some("ssrc differs from webrtc-rs".into()); }
    if rh.csrc != h.csrcs { return Some("csrc list differs from webrtc-rs".into()); }
    if rh.extension != h.extension.is_some() { return Some("X bit differs from webrtc-rs".into()); }
    if rh.padding != (p.padding_len != 0) && !(rh.padding && p.padding_len == 0) { return Some("P bit differs from webrtc-rs".into()); }
    if r.payload[..] != p.payload[..] { return Some(format!("payload differs from webrtc-rs ({} vs {} bytes)", p.payload.len(), r.payload.len())); }
    if let Some(e) = &h.extension {
        if rh.extension_profile != e.profile { return Some("extension profile differs from webrtc-rs".into()); }
        if e.profile == 0xBEDE || e.profile == 0x1000 {
            for x in &rh.extensions {
                // first element with that id wins in both implementations
                let first = rh.extensions.iter().find(|y| y.id == x.id).unwrap();
                let ours = h.get_extension(x.id);
                if e.profile == 0xBEDE && (x.id == 0 || x.id == 15) { continue; }
                if ours.as_deref() != Some(&first.payload[..]) {
                    return Some(format!("extension id {} differs from webrtc-rs: {:?} vs {:?}", x.id, ours.map(|b| hex(&b)), hex(&first.payload)));
                }
            }
        } else {
            let d: Vec<u8> = rh.extensions.iter().flat_map(|x| x.payload.to_vec()).collect();
            if d[..] != e.data[..] { return Some("opaque extension data differs from webrtc-rs".into()); }
        }
    }
    let _ = raw_len;
    None
}

/// the direct round-trip oracle for a logical packet within the field ranges
fn oracle_logical(p: &RtpPacket, m: &Result<Result<Vec<u8>, RtpError>, String>) -> Option<String> {
    let encodable = p.header.csrcs.len() <= 15 && p.header.extension.as_ref().map_or(true, |e| e.data.len() % 4 == 0);
    match m {
        Err(msg) => Some(format!("marshal panicked: {}", msg)),
        Ok(Err(e)) => if encodable { Some(format!("marshal refused an encodable packet: {:?}", e)) } else { None },
        Ok(Ok(bytes)) => {
            if !encodable { return Some("marshal accepted > 15 CSRCs or unaligned extension data".into()); }
            let exp_len = 12 + 4 * p.header.csrcs.len() + p.header.extension.as_ref().map_or(0, |e| 4 + e.data.len()) + p.payload.len() + p.padding_len as usize;
            if bytes.len() != exp_len { return Some(format!("serialised length {} != {}", bytes.len(), exp_len)); }
            let back = impl_parse(bytes);
            let mut want = p.clone();
            want.header.payload_type &= 0x7F; // 7-bit field: the domain of the property is pt < 128
            match &back {
                Ok(Ok(q)) if *q == want => {}
                other => return Some(format!("parse(marshal p) != p: {}", res_class(other))),
            }
            // independent implementation reads the same fields
            let ext_wellformed = p.header.extension.as_ref().map_or(true, |e| (e.profile != 0xBEDE && e.profile != 0x1000) || onebyte_wellformed(&e.data, e.profile));
            if !ext_wellformed { return None; }
            match ref_parse(bytes) {
                Ok(Ok(r)) => agree_with_ref(&want, &r, bytes.len()),
                Ok(Err(e)) => if ext_wellformed { Some(format!("webrtc-rs rejects rustrtc's serialisation: {}", e)) } else { None },
                Err(e) => if ext_wellformed { Some(format!("webrtc-rs panicked on rustrtc's serialisation: {}", e)) } else { None },
            }
        }
    }
}

/// can the reference read this RFC 8285 block: complete elements only (it slices blindly), no id-15 stop element
fn onebyte_wellformed(d: &[u8], profile: u16) -> bool {
    let mut i = 0;
    while i < d.len() {
        if d[i] == 0 { i += 1; continue; }
        if profile == 0xBEDE {
            let id = d[i] >> 4; let n = (d[i] & 15) as usize + 1; i += 1;
            if id == 15 { return false; } // webrtc-rs stops at id 15 without skipping the rest of the block (its payload then starts inside the extension): not comparable
            if i + n > d.len() { return false; }
            i += n;
        } else {
            i += 1;
            if i >= d.len() { return false; }
            let n = d[i] as usize; i += 1;
            if i + n > d.len() { return false; }
            i += n;
        }
    }
    true
}

/// oracle for a wire string: no panic; what parses re-serialises to something that parses to the same fields,
/// also for webrtc-rs
fn oracle_wire(raw: &[u8], r: &Result<Result<RtpPacket, RtpError>, String>) -> Option<String> {
    match r {
        Err(m) => Some(format!("parse panicked: {}", m)),
        Ok(Err(_)) => None,
        Ok(Ok(p)) => {
            if p.payload.len() + p.padding_len as usize > raw.len() { return Some("payload + padding longer than input".into()); }
            let m = impl_marshal(p);
            match &m {
                Ok(Ok(b)) => {
                    if b.len() != raw.len() { return Some(format!("re-serialised length {} != input length {}", b.len(), raw.len())); }
                    match impl_parse(b) {
                        Ok(Ok(q)) if q == *p => {}
                        other => return Some(format!("parse(marshal(parse raw)) != parse raw: {}", res_class(&other))),
                    }
                    let wf = p.header.extension.as_ref().map_or(true, |e| (e.profile != 0xBEDE && e.profile != 0x1000) || onebyte_wellformed(&e.data, e.profile));
                    if wf {
                        match ref_parse(b) {
                            Ok(Ok(rp)) => { if let Some(e) = agree_with_ref(p, &rp, b.len()) { return Some(format!("re-serialised: {}", e)); } }
                            other => return Some(format!("webrtc-rs cannot read the re-serialisation: {:?}", other.map(|x| x.map(|_| ())))),
                        }
                        // and the original input, when the reference accepts it
                        if let Ok(Ok(rp)) = ref_parse(raw) { if let Some(e) = agree_with_ref(p, &rp, raw.len()) { return Some(format!("input: {}", e)); } }
                    }
                    None
                }
                other => Some(format!("a parsed packet does not re-serialise: {}", res_class(other))),
            }
        }
    }
}

// ------------------------------------------------------------------------------------------ generators
/// `mul * below(n)` random bytes
fn rbelow(r: &mut Rng, n: u64, mul: usize) -> Vec<u8> {
    let k = r.below(n) as usize * mul;
    r.bytes(k)
}
fn pick_u32(r: &mut Rng) -> u32 {
    match r.below(8) { 0 => 0, 1 => 1, 2 => 0x7FFF_FFFF, 3 => 0x8000_0000, 4 => 0xFFFF_FFFF, _ => r.next() as u32 }
}
fn pick_u16(r: &mut Rng) -> u16 {
    match r.below(8) { 0 => 0, 1 => 1, 2 => 0x7FFF, 3 => 0x8000, 4 => 0xFFFF, _ => r.next() as u16 }
}
/// a sequence of one-byte (0xBEDE) elements; returns raw block (not yet aligned)
fn gen_onebyte_block(r: &mut Rng, defect: u64) -> Vec<u8> {
    let mut d = vec![];
    let n = r.below(5);
    for _ in 0..n {
        while r.chance(1, 4) { d.push(0); }
        let id = if r.chance(1, 12) { 0 } else { r.range(1, 14) as u8 };
        let len = *r.pick(&[1usize, 1, 2, 3, 4, 8, 15, 16]);
        d.push((id << 4) | (len as u8 - 1));
        d.extend(r.bytes(len));
    }
    match defect {
        1 => { d.push(0xF0 | r.below(16) as u8); d.extend(rbelow(r, 6, 1)); } // id 15 terminator + junk
        2 => { let len = r.range(2, 16) as usize; d.push(((r.range(1, 14) as u8) << 4) | (len as u8 - 1)); d.extend(rbelow(r, len as u64, 1)); } // truncated last element
        _ => {}
    }
    d
}
fn gen_twobyte_block(r: &mut Rng, defect: u64) -> Vec<u8> {
    let mut d = vec![];
    let n = r.below(5);
    for _ in 0..n {
        while r.chance(1, 4) { d.push(0); }
        let id = r.range(1, 255) as u8;
        let len = *r.pick(&[0usize, 1, 2, 3, 4, 16, 17, 40]);
        d.push(id); d.push(len as u8); d.extend(r.bytes(len));
    }
    match defect {
        1 => { d.push(r.range(1, 255) as u8); } // id without length byte
        2 => { let len = r.range(2, 200) as usize; d.push(r.range(1, 255) as u8); d.push(len as u8); d.extend(rbelow(r, len as u64, 1)); }
        _ => {}
    }
    d
}
fn align4(mut d: Vec<u8>) -> Vec<u8> { while d.len() % 4 != 0 { d.push(0); } d }

fn gen_ext(r: &mut Rng, allow_unaligned: bool) -> Option<RtpHeaderExtension> {
    match r.below(10) {
        0 | 1 | 2 => None,
        3 | 4 | 5 => { let defect = if r.chance(1, 5) { r.range(1, 2) } else { 0 }; Some(RtpHeaderExtension::new(0xBEDE, align4(gen_onebyte_block(r, defect)))) }
        6 | 7 => { let defect = if r.chance(1, 5) { r.range(1, 2) } else { 0 }; Some(RtpHeaderExtension::new(0x1000, align4(gen_twobyte_block(r, defect)))) }
        8 => { let n = *r.pick(&[0usize, 4, 8, 64]); Some(RtpHeaderExtension::new(pick_u16(r), r.bytes(n))) }
        _ => { let n = if allow_unaligned { *r.pick(&[1usize, 2, 3, 5, 7]) } else { 4 }; Some(RtpHeaderExtension::new(*r.pick(&[0xBEDEu16, 0x1000, 0x1234]), r.bytes(n))) }
    }
}
fn gen_header(r: &mut Rng, wild: bool) -> RtpHeader {
    let ncsrc = if wild { *r.pick(&[0usize, 0, 1, 2, 14, 15, 15, 16, 17]) } else { *r.pick(&[0usize, 0, 1, 2, 14, 15]) };
    RtpHeader {
        marker: r.chance(1, 2),
        payload_type: if wild { *r.pick(&[0u8, 1, 96, 111, 127, 127, 128, 200, 255]) } else { *r.pick(&[0u8, 1, 96, 111, 126, 127]) },
        sequence_number: pick_u16(r),
        timestamp: pick_u32(r),
        ssrc: pick_u32(r),
        csrcs: (0..ncsrc).map(|_| pick_u32(r)).collect(),
        extension: gen_ext(r, wild),
    }
}
fn gen_packet(r: &mut Rng) -> RtpPacket {
    let header = gen_header(r, true);
    let plen = match r.below(8) { 0 => 0, 1 => 1, 2 => 2, 3 => 3, 4 => 4, 5 => r.range(5, 40), 6 => r.range(100, 300), _ => r.range(0, 16) } as usize;
    let padding_len = match r.below(8) { 0 | 1 | 2 => 0, 3 => 1, 4 => 4, 5 => 255, 6 => r.range(2, 254) as u8, _ => r.range(1, 8) as u8 };
    RtpPacket { header, payload: Bytes::from(r.bytes(plen)), padding_len }
}

fn rtp_case_logical(cx: &mut Ctx, kind: &str, p: &RtpPacket) {
    let m = impl_marshal(p);
    let fail = oracle_logical(p, &m);
    cx.bump(&format!("rtp.marshal.{}", match &m { Ok(Ok(_)) => "ok", Ok(Err(_)) => "err", Err(_) => "panic" }));
    cx.bump(&format!("rtp.csrcs.{}", p.header.csrcs.len()));
    cx.bump(&format!("rtp.ext.{}", p.header.extension.as_ref().map_or("none".to_string(), |e| format!("{:04x}", if e.profile == 0xBEDE || e.profile == 0x1000 { e.profile } else { 0 }))));
    cx.bump(&format!("rtp.padding.{}", match p.padding_len { 0 => "0", 255 => "255", _ => "mid" }));
    let term = format!("KMarshal {} {}", pkt_term(p), res_term(&m, |b| bytes_term(b)));
    cx.push(kind, term, json!({"op": "RtpPacket::marshal", "packet": pkt_json(p), "impl": res_class(&m), "bytes": m.as_ref().ok().and_then(|x| x.as_ref().ok()).map(|b| hex(b))}),
        fail, None, matches!(m, Ok(Ok(_))), format!("M{:?}", p));
    if let Ok(Ok(b)) = &m { rtp_case_wire(cx, kind, b); }
}
fn rtp_case_wire(cx: &mut Ctx, kind: &str, raw: &[u8]) {
    let r = impl_parse(raw);
    let fail = oracle_wire(raw, &r);
    cx.bump(&format!("rtp.parse.{}", match &r { Ok(Ok(_)) => "ok".to_string(), Ok(Err(e)) => format!("{:?}", e).split('(').next().unwrap().to_string(), Err(_) => "panic".into() }));
    let term = format!("KParse {} {}", bytes_term(raw), res_term(&r, pkt_term));
    cx.push(kind, term, json!({"op": "RtpPacket::parse", "raw": hex(raw), "impl": res_class(&r), "packet": r.as_ref().ok().and_then(|x| x.as_ref().ok()).map(pkt_json)}),
        fail, None, matches!(r, Ok(Ok(_))), format!("P{}", hex(raw)));
}

/// mutations aimed at every comparison of the parser: each length boundary -1/0/+1, every header bit,
/// CC / X / P / version fields, the extension word count, the padding count
fn wire_mutations(r: &mut Rng, p: &RtpPacket, base: &[u8]) -> Vec<Vec<u8>> {
    let mut v: Vec<Vec<u8>> = vec![];
    let hl = 12 + 4 * p.header.csrcs.len();
    let el = p.header.extension.as_ref().map_or(0, |e| 4 + e.data.len());
    let mut cuts = vec![0usize, 1, 2, 11, 12, 13, hl.saturating_sub(1), hl, hl + 1, hl + 3, hl + 4, hl + 5, hl + el - el.min(1), hl + el, hl + el + 1, base.len().saturating_sub(1)];
    cuts.sort(); cuts.dedup();
    for c in cuts { if c <= base.len() { v.push(base[..c].to_vec()); } }
    for bit in 0..16 { let mut b = base.to_vec(); b[bit / 8] ^= 1 << (bit % 8); v.push(b); }
    for cc in [0u8, 1, 14, 15] { let mut b = base.to_vec(); b[0] = (b[0] & 0xF0) | cc; v.push(b); }
    for ver in [0u8, 1, 3] { let mut b = base.to_vec(); b[0] = (b[0] & 0x3F) | (ver << 6); v.push(b); }
    if p.header.extension.is_some() && base.len() >= hl + 4 {
        let w = u16::from_be_bytes([base[hl + 2], base[hl + 3]]);
        let after = (base.len() - hl - 4) / 4;
        for nw in [0u16, w.wrapping_sub(1), w.wrapping_add(1), after as u16, after as u16 + 1, 0xFFFF] {
            let mut b = base.to_vec(); b[hl + 2..hl + 4].copy_from_slice(&nw.to_be_bytes()); v.push(b);
        }
    }
    // padding count
    let body = base.len() - hl - el;
    for pl in [0usize, 1, body.saturating_sub(1), body, body + 1, 255] {
        let mut b = base.to_vec(); b[0] |= 0x20; if let Some(l) = b.last_mut() { *l = pl as u8; } v.push(b);
    }
    // P bit on a packet with an empty body
    { let mut b = base[..hl + el].to_vec(); b[0] |= 0x20; v.push(b); }
    let _ = r;
    v
}

fn run_rtp(cx: &mut Ctx, r: &mut Rng, thorough: bool) {
    // ---- corpus: boundary packets
    let mut h = RtpHeader::new(96, 1000, 42, 0x1234_5678);
    h.marker = true; h.csrcs = vec![0x0102_0304];
    h.extension = Some(RtpHeaderExtension::new(0xBEDE, vec![0x10, 0xAA, 0, 0]));
    rtp_case_logical(cx, "corpus", &RtpPacket { header: h.clone(), payload: Bytes::from_static(&[9, 8, 7, 6]), padding_len: 0 });
    let mut h15 = RtpHeader::new(127, 65535, u32::MAX, u32::MAX); h15.marker = true; h15.csrcs = vec![u32::MAX; 15];
    h15.extension = Some(RtpHeaderExtension::new(0xBEDE, vec![0x10, 0xAA, 0, 0]));
    rtp_case_logical(cx, "corpus", &RtpPacket { header: h15.clone(), payload: Bytes::from_static(&[1, 2, 3]), padding_len: 255 });
    let mut h16 = h15.clone(); h16.csrcs.push(1);
    rtp_case_logical(cx, "corpus", &RtpPacket { header: h16, payload: Bytes::new(), padding_len: 0 });
    let mut hu = h.clone(); hu.extension = Some(RtpHeaderExtension::new(0x1000, vec![1, 2, 3]));
    rtp_case_logical(cx, "corpus", &RtpPacket { header: hu, payload: Bytes::new(), padding_len: 0 });
    rtp_case_logical(cx, "corpus", &RtpPacket { header: RtpHeader::new(0, 0, 0, 0), payload: Bytes::new(), padding_len: 0 });
    rtp_case_logical(cx, "corpus", &RtpPacket { header: RtpHeader::new(0, 0, 0, 0), payload: Bytes::new(), padding_len: 1 });
    rtp_case_logical(cx, "corpus", &RtpPacket { header: RtpHeader::new(200, 7, 8, 9), payload: Bytes::from_static(&[5]), padding_len: 0 });
    // all strings of length 0 and 1, the 12-byte minimum with every first byte
    rtp_case_wire(cx, "exhaustive", &[]);
    for b in 0..=255u8 { rtp_case_wire(cx, "exhaustive", &[b]); }
    for b in (0..=255u8).filter(|b| thorough || b % 4 == 0 || *b >= 0x80 && *b < 0xC0) { let mut v = vec![b, 0x60, 0, 1, 0, 0, 0, 2, 0, 0, 0, 3]; rtp_case_wire(cx, "exhaustive", &v); v.extend([0xBE, 0xDE, 0, 1, 0x1F, 0, 0, 0, 7, 2]); rtp_case_wire(cx, "exhaustive", &v); }
    // ---- generated logical packets and the mutations of their encodings
    let n = if thorough { 3000 } else { 300 };
    for i in 0..n {
        let p = gen_packet(r);
        rtp_case_logical(cx, "random", &p);
        if let Ok(Ok(b)) = impl_marshal(&p) {
            let muts = wire_mutations(r, &p, &b);
            // keep the volume bounded: all mutations for every 6th packet, 3 random ones otherwise
            if i % 10 == 0 || (thorough && i % 3 == 0) { for m in &muts { rtp_case_wire(cx, "mutated", m); } }
            else { for _ in 0..2 { let m = r.pick(&muts).clone(); rtp_case_wire(cx, "mutated", &m); } }
        }
    }
    // ---- webrtc-rs serialises, rustrtc parses
    let n = if thorough { 3000 } else { 250 };
    for _ in 0..n {
        let h = gen_header(r, false);
        let mut rh = rtp::header::Header { version: 2, padding: r.chance(1, 3), extension: false, marker: h.marker, payload_type: h.payload_type,
            sequence_number: h.sequence_number, timestamp: h.timestamp, ssrc: h.ssrc, csrc: h.csrcs.clone(), ..Default::default() };
        let mut exts: Vec<(u8, Vec<u8>)> = vec![];
        match r.below(4) {
            0 => {}
            1 => { rh.extension = true; rh.extension_profile = 0xBEDE;
                   for _ in 0..r.range(1, 4) { let id = r.range(1, 14) as u8; if exts.iter().any(|e| e.0 == id) { continue; } let l = r.range(1, 16) as usize; exts.push((id, r.bytes(l))); } }
            2 => { rh.extension = true; rh.extension_profile = 0x1000;
                   for _ in 0..r.range(1, 4) { let id = r.range(1, 255) as u8; if exts.iter().any(|e| e.0 == id) { continue; } let l = r.range(0, 40) as usize; exts.push((id, r.bytes(l))); } }
            _ => { rh.extension = true; rh.extension_profile = 0x4242; exts.push((0, rbelow(r, 6, 4))); }
        }
        rh.extensions = exts.iter().map(|(id, p)| rtp::header::Extension { id: *id, payload: Bytes::from(p.clone()) }).collect();
        let plen = r.range(0, 60) as usize;
        let rp = rtp::packet::Packet { header: rh.clone(), payload: Bytes::from(r.bytes(plen)) };
        let Ok(Ok(bytes)) = catch(move || rp.marshal().map_err(|e| e.to_string())) else { cx.bump("ref.marshal.err"); continue; };
        let got = impl_parse(&bytes);
        let mut fail = oracle_wire(&bytes, &got);
        if fail.is_none() {
            match &got {
                Ok(Ok(p)) => {
                    let ph = &p.header;
                    if (ph.marker, ph.payload_type, ph.sequence_number, ph.timestamp, ph.ssrc, &ph.csrcs) != (h.marker, h.payload_type, h.sequence_number, h.timestamp, h.ssrc, &h.csrcs) {
                        fail = Some("fields of a webrtc-rs packet read differently".into());
                    } else if p.payload.len() != plen { fail = Some(format!("payload length {} != {} (padding {})", p.payload.len(), plen, p.padding_len)); }
                    else if rh.extension != ph.extension.is_some() { fail = Some("extension presence differs".into()); }
                    else if rh.extension_profile == 0xBEDE || rh.extension_profile == 0x1000 {
                        for (id, pl) in &exts { if ph.get_extension(*id).as_deref() != Some(&pl[..]) { fail = Some(format!("extension {} written by webrtc-rs not read back", id)); } }
                    } else if rh.extension && ph.extension.as_ref().map(|e| e.data.to_vec()) != Some(exts[0].1.clone()) { fail = Some("opaque extension differs".into()); }
                }
                other => fail = Some(format!("rustrtc rejects a webrtc-rs packet: {}", res_class(other))),
            }
        }
        let term = format!("KParse {} {}", bytes_term(&bytes), res_term(&got, pkt_term));
        cx.push("ref-encoded", term, json!({"op": "RtpPacket::parse(webrtc-rs bytes)", "raw": hex(&bytes), "impl": res_class(&got)}), fail, None, true, format!("R{}", hex(&bytes)));
    }
    // ---- malformed stream: random bytes, version bits forced half of the time
    let n = if thorough { 3000 } else { 300 };
    for _ in 0..n {
        let len = match r.below(4) { 0 => r.range(0, 16), 1 => r.range(12, 40), _ => r.range(0, 120) } as usize;
        let mut b = r.bytes(len);
        if !b.is_empty() && r.chance(3, 4) { b[0] = (b[0] & 0x3F) | 0x80; }
        rtp_case_wire(cx, "malformed", &b);
    }
}

// ------------------------------------------------------------------------------------------ header extensions
fn impl_get(h: &RtpHeader, id: u8) -> Result<Result<Option<Vec<u8>>, RtpError>, String> {
    let h = h.clone();
    catch(move || Ok(h.get_extension(id).map(|b| b.to_vec())))
}
fn impl_set(h: &RtpHeader, id: u8, d: &[u8]) -> Result<Result<RtpHeader, RtpError>, String> {
    let mut h = h.clone();
    let d = d.to_vec();
    catch(move || h.set_extension(id, &d).map(|_| h))
}
fn ext_case_get(cx: &mut Ctx, kind: &str, h: &RtpHeader, id: u8) {
    let g = impl_get(h, id);
    let fail = match &g { Err(m) => Some(format!("get_extension panicked: {}", m)), _ => None };
    cx.bump(&format!("ext.get.{}", match &g { Ok(Ok(Some(_))) => "some", Ok(Ok(None)) => "none", _ => "panic" }));
    let term = format!("KGetExt {} {} {}", hdr_term(h), id, res_term(&g, |o| opt_term(o.as_ref().map(|b| bytes_term(b)))));
    cx.push(kind, term, json!({"op": "get_extension", "hdr": hdr_json(h), "id": id, "impl": format!("{:?}", g)}), fail, None, matches!(g, Ok(Ok(Some(_)))), format!("G{:?}{}", h, id));
}
fn ext_case_set(cx: &mut Ctx, kind: &str, h: &RtpHeader, id: u8, d: &[u8]) {
    let s = impl_set(h, id, d);
    let args_ok = (1..=14).contains(&id) && (1..=16).contains(&d.len()) && h.extension.as_ref().map_or(true, |e| e.profile == 0xBEDE);
    let mut fail = None;
    match &s {
        Err(m) => fail = Some(format!("set_extension panicked: {}", m)),
        Ok(Err(_)) => if args_ok { fail = Some("set_extension refused valid arguments".into()); },
        Ok(Ok(h2)) => {
            if !args_ok { fail = Some("set_extension accepted invalid arguments".into()); }
            else {
                let e2 = h2.extension.as_ref().unwrap();
                if e2.profile != 0xBEDE { fail = Some("profile changed".into()); }
                else if e2.data.len() % 4 != 0 { fail = Some("extension block not 32-bit aligned after set".into()); }
                else if h2.get_extension(id).as_deref() != Some(d) { fail = Some(format!("get(set(h,{},v),{}) != v", id, id)); }
                else {
                    for other in 0..=255u8 {
                        if other != id && h2.get_extension(other) != h.get_extension(other) { fail = Some(format!("set_extension({}) changed extension {}", id, other)); break; }
                    }
                }
                if fail.is_none() {
                    let mut hh = h2.clone(); hh.csrcs.truncate(15);
                    let p = RtpPacket { header: hh, payload: Bytes::from_static(&[1, 2, 3]), padding_len: 0 };
                    fail = oracle_logical(&p, &impl_marshal(&p)).map(|e| format!("after set_extension: {}", e));
                }
                let (a, b, c, d2, e, f) = (h2.marker == h.marker, h2.payload_type == h.payload_type, h2.sequence_number == h.sequence_number, h2.timestamp == h.timestamp, h2.ssrc == h.ssrc, h2.csrcs == h.csrcs);
                if fail.is_none() && !(a && b && c && d2 && e && f) { fail = Some("set_extension changed another header field".into()); }
            }
        }
    }
    if let Ok(Err(_)) = &s {
        // a refused call must leave the header untouched
        let mut hh = h.clone();
        let _ = hh.set_extension(id, d);
        if hh != *h && fail.is_none() { fail = Some("refused set_extension modified the header".into()); }
    }
    cx.bump(&format!("ext.set.{}", match &s { Ok(Ok(_)) => "ok", Ok(Err(_)) => "err", Err(_) => "panic" }));
    let term = format!("KSetExt {} {} {} {}", hdr_term(h), id, bytes_term(d), res_term(&s, hdr_term));
    cx.push(kind, term, json!({"op": "set_extension", "hdr": hdr_json(h), "id": id, "data": hex(d), "impl": res_class(&s),
        "new_ext": s.as_ref().ok().and_then(|x| x.as_ref().ok()).and_then(|h| h.extension.as_ref().map(|e| hex(&e.data)))}), fail, None, matches!(s, Ok(Ok(_))), format!("S{:?}{}{}", h, id, hex(d)));
}

fn run_ext(cx: &mut Ctx, r: &mut Rng, thorough: bool) {
    let base = RtpHeader::new(96, 1, 2, 3);
    let with = |profile: u16, d: Vec<u8>| { let mut h = base.clone(); h.extension = Some(RtpHeaderExtension::new(profile, d)); h };
    // corpus: F1 witness (set over a received truncated element), via the struct and via parse
    let f1 = with(0xBEDE, vec![0x1F, 0, 0, 0]);
    ext_case_set(cx, "corpus", &f1, 2, &[9]);
    ext_case_set(cx, "corpus", &f1, 1, &[9, 9]);
    for id in [0u8, 1, 2, 15] { ext_case_get(cx, "corpus", &f1, id); }
    if let Ok(p) = RtpPacket::parse(&[0x90, 96, 0, 1, 0, 0, 0, 2, 0, 0, 0, 3, 0xBE, 0xDE, 0, 1, 0x1F, 0, 0, 0, 7, 7]) { ext_case_set(cx, "corpus", &p.header, 2, &[9]); }
    ext_case_set(cx, "corpus", &base, 1, &[0xAA, 0xBB, 0xCC]);
    ext_case_set(cx, "corpus", &with(0xBEDE, vec![0x12, 0xAA, 0xBB, 0xCC]), 1, &[0x11, 0x22]);
    ext_case_set(cx, "corpus", &with(0xBEDE, vec![0x11, 0x11, 0x22, 0]), 2, &[0xFF]);
    ext_case_set(cx, "corpus", &with(0x1000, vec![1, 1, 7, 0]), 1, &[1]);
    ext_case_set(cx, "corpus", &with(0xBEDE, vec![0xF0, 0x10, 0x55, 0]), 1, &[1]);   // terminator first
    ext_case_set(cx, "corpus", &with(0xBEDE, vec![0x03, 1, 2, 3, 4, 0x10, 9, 0]), 1, &[7]); // id-0 element with a length
    for (id, l) in [(0u8, 1usize), (15, 1), (16, 1), (255, 1), (1, 0), (1, 17), (14, 16), (1, 1)] { ext_case_set(cx, "corpus", &base, id, &vec![0x5A; l]); }
    // generated
    let n = if thorough { 5000 } else { 320 };
    for _ in 0..n {
        let defect = if r.chance(1, 3) { r.range(1, 2) } else { 0 };
        let h = match r.below(8) {
            0 => base.clone(),
            1 => with(0x1000, align4(gen_twobyte_block(r, defect))),
            2 => with(pick_u16(r), rbelow(r, 4, 4)),
            3 => with(0xBEDE, rbelow(r, 24, 1)),         // arbitrary bytes, also unaligned
            _ => { let d = gen_onebyte_block(r, defect); with(0xBEDE, if r.chance(4, 5) { align4(d) } else { d }) }
        };
        let ids_present: Vec<u8> = h.extension.as_ref().map_or(vec![], |e| e.data.iter().map(|b| if e.profile == 0xBEDE { b >> 4 } else { *b }).collect());
        let pick_id = |r: &mut Rng| -> u8 { if !ids_present.is_empty() && r.chance(1, 2) { *r.pick(&ids_present) } else { *r.pick(&[0u8, 1, 2, 7, 14, 15, 16, 255]) } };
        let id = pick_id(r);
        ext_case_get(cx, "random", &h, id);
        let sid = if r.chance(5, 6) { let x = pick_id(r); if (1..=14).contains(&x) { x } else { r.range(1, 14) as u8 } } else { pick_id(r) };
        let dl = if r.chance(7, 8) { *r.pick(&[1usize, 1, 2, 3, 4, 15, 16]) } else { *r.pick(&[0usize, 17, 32]) };
        let d = r.bytes(dl);
        ext_case_set(cx, "random", &h, sid, &d);
    }
}


// ------------------------------------------------------------------------------------------ NACK packing, RTX, gap detection
mod nackx {
    use super::*;
    use rustrtc::peer_connection::DefaultRtpReceiverNackHandler;
    use rustrtc::rtx::{unwrap_rtx_packet, wrap_rtx_packet, RtxSenderConfig};
    use rustrtc::RtpReceiverInterceptor;
    use std::collections::BTreeSet;

    fn pairs_term(p: &[(u16, u16)]) -> String {
        list_term(&p.iter().map(|(a, b)| format!("({}, {})", a, b)).collect::<Vec<_>>())
    }
    fn seqs_term(l: &[u16]) -> String { zlist(l.iter().map(|x| *x as i128)) }

    /// the (pid, blp) pairs rustrtc puts on the wire for a lost list (public path: marshal_rtcp_packets)
    fn impl_pack(lost: &[u16]) -> Result<Vec<(u16, u16)>, String> {
        let n = RtcpPacket::GenericNack(GenericNack { sender_ssrc: 0x01020304, media_ssrc: 0x0A0B0C0D, lost_packets: lost.to_vec() });
        let b = catch(move || marshal_rtcp_packets(&[n]))?.map_err(|e| format!("{:?}", e))?;
        if b.len() < 12 || b[0] != 0x81 || b[1] != 205 { return Err(format!("unexpected NACK header {}", hex(&b[..b.len().min(12)]))); }
        if (u16::from_be_bytes([b[2], b[3]]) as usize + 1) * 4 != b.len() { return Err("NACK length field does not match".into()); }
        if b[4..12] != [1, 2, 3, 4, 0x0A, 0x0B, 0x0C, 0x0D] { return Err("NACK SSRC fields wrong".into()); }
        Ok(b[12..].chunks(4).map(|c| (u16::from_be_bytes([c[0], c[1]]), u16::from_be_bytes([c[2], c[3]]))).collect())
    }
    fn nack_bytes(pairs: &[(u16, u16)]) -> Vec<u8> {
        let mut b = vec![0x81, 205];
        b.extend(((2 + pairs.len()) as u16).to_be_bytes());
        b.extend([0, 0, 0, 1, 0, 0, 0, 2]);
        for (p, m) in pairs { b.extend(p.to_be_bytes()); b.extend(m.to_be_bytes()); }
        b
    }
    fn impl_unpack(pairs: &[(u16, u16)]) -> Result<Vec<u16>, String> {
        let b = nack_bytes(pairs);
        let v = catch(move || parse_rtcp_packets(&b, None))?.map_err(|e| format!("{:?}", e))?;
        match v.as_slice() { [RtcpPacket::GenericNack(n)] => Ok(n.lost_packets.clone()), other => Err(format!("parsed to {:?}", other)) }
    }
    fn ref_unpack(pairs: &[(u16, u16)]) -> Result<BTreeSet<u16>, String> {
        let mut b = Bytes::from(nack_bytes(pairs));
        let n = rtcp::transport_feedbacks::transport_layer_nack::TransportLayerNack::unmarshal(&mut b).map_err(|e| e.to_string())?;
        Ok(n.nacks.iter().flat_map(|p| p.packet_list()).collect())
    }

    fn nack_case(cx: &mut Ctx, kind: &str, lost: &[u16]) {
        let want: BTreeSet<u16> = lost.iter().copied().collect();
        let packed = impl_pack(lost);
        let mut fail = None;
        match &packed {
            Err(e) => if !lost.is_empty() { fail = Some(format!("packing failed: {}", e)); }, // an empty request is refused by design
            Ok(pairs) => {
                match impl_unpack(pairs) {
                    Ok(back) => {
                        let got: BTreeSet<u16> = back.iter().copied().collect();
                        if got != want { fail = Some(format!("set changed by pack/unpack: missing {:?}, extra {:?}", want.difference(&got).take(5).collect::<Vec<_>>(), got.difference(&want).take(5).collect::<Vec<_>>())); }
                        else if back.len() != want.len() { fail = Some("a sequence number is requested twice".into()); }
                        cx.push(kind, format!("KNackUnpack {} {}", pairs_term(pairs), seqs_term(&back)), json!({"op": "parse NACK", "pairs": pairs, "lost": back}), None, None, true, format!("NU{:?}", pairs));
                    }
                    Err(e) => fail = Some(format!("rustrtc cannot parse its own NACK: {}", e)),
                }
                if fail.is_none() {
                    match ref_unpack(pairs) {
                        Ok(r) => if r != want { fail = Some("webrtc-rs reads a different set from rustrtc's NACK".into()); },
                        Err(e) => fail = Some(format!("webrtc-rs rejects rustrtc's NACK: {}", e)),
                    }
                }
                if pairs.len() > want.len() { fail = Some("more pairs than sequence numbers".into()); }
            }
        }
        let wraps = want.iter().any(|x| *x >= 0xFFF0) && want.iter().any(|x| *x < 0x10);
        cx.bump(if wraps { "nack.wraps" } else { "nack.plain" });
        cx.bump(&format!("nack.len.{}", match lost.len() { 0 => "0".into(), 1 => "1".into(), n if n <= 17 => "2-17".to_string(), _ => ">17".to_string() }));
        let term = match &packed { Ok(p) => format!("KNackPack {} {}", seqs_term(lost), pairs_term(p)), Err(_) => "-".into() };
        cx.push(kind, term, json!({"op": "pack NACK", "lost": lost, "pairs": packed.as_ref().ok()}), fail, None, !lost.is_empty(), format!("NP{:?}", lost));
    }

    fn rtx_case(cx: &mut Ctx, kind: &str, p: &RtpPacket, cfg: RtxSenderConfig, rtx_seq: u16, prim_ssrc: u32, prim_pt: u8) {
        let w = wrap_rtx_packet(p, &cfg, rtx_seq);
        let u = unwrap_rtx_packet(&w, prim_ssrc, prim_pt);
        let mut fail = None;
        match &u {
            None => fail = Some("unwrap(wrap(p)) is None".into()),
            Some(q) => {
                if q.header.sequence_number != p.header.sequence_number { fail = Some("sequence number not restored".into()); }
                else if q.header.timestamp != p.header.timestamp { fail = Some("timestamp not restored".into()); }
                else if q.header.marker != p.header.marker { fail = Some("marker not restored".into()); }
                else if q.payload != p.payload { fail = Some("payload not restored".into()); }
                else if q.header.ssrc != prim_ssrc || q.header.payload_type != prim_pt { fail = Some("primary ssrc / pt not applied".into()); }
            }
        }
        if w.header.ssrc != cfg.rtx_ssrc || w.header.payload_type != cfg.rtx_payload_type || w.header.sequence_number != rtx_seq || w.header.timestamp != p.header.timestamp {
            fail = Some("RTX packet header not as RFC 4588 requires".into());
        }
        if w.payload.len() != p.payload.len() + 2 || w.payload[..2] != p.header.sequence_number.to_be_bytes() { fail = Some("OSN not in front of the payload".into()); }
        // across the wire
        if fail.is_none() && cfg.rtx_payload_type < 128 {
            match impl_marshal(&w) {
                Ok(Ok(b)) => match impl_parse(&b) {
                    Ok(Ok(w2)) => if unwrap_rtx_packet(&w2, prim_ssrc, prim_pt) != u { fail = Some("unwrap after marshal/parse differs".into()); },
                    other => fail = Some(format!("RTX packet does not parse: {}", res_class(&other))),
                },
                other => fail = Some(format!("RTX packet does not marshal: {}", res_class(&other))),
            }
        }
        cx.bump("rtx.wrap");
        cx.push(kind, format!("KRtxWrap {} {} {} {} {}", pkt_term(p), cfg.rtx_ssrc, cfg.rtx_payload_type, rtx_seq, pkt_term(&w)),
            json!({"op": "wrap_rtx_packet", "packet": pkt_json(p), "rtx": pkt_json(&w)}), fail, None, true, format!("RW{:?}{:?}{}", p, cfg, rtx_seq));
        cx.push(kind, format!("KRtxUnwrap {} {} {} {}", pkt_term(&w), prim_ssrc, prim_pt, opt_term(u.as_ref().map(pkt_term))),
            json!({"op": "unwrap_rtx_packet", "rtx": pkt_json(&w)}), None, None, true, format!("RU{:?}{}{}", w, prim_ssrc, prim_pt));
    }
    fn unwrap_case(cx: &mut Ctx, kind: &str, p: &RtpPacket, ssrc: u32, pt: u8) {
        let u = unwrap_rtx_packet(p, ssrc, pt);
        let fail = if (p.payload.len() < 2) != u.is_none() { Some("unwrap accepts/rejects against the 2-byte OSN rule".to_string()) } else { None };
        cx.bump(if u.is_some() { "rtx.unwrap.some" } else { "rtx.unwrap.none" });
        cx.push(kind, format!("KRtxUnwrap {} {} {} {}", pkt_term(p), ssrc, pt, opt_term(u.as_ref().map(pkt_term))),
            json!({"op": "unwrap_rtx_packet", "rtx": pkt_json(p)}), fail, None, u.is_some(), format!("RU{:?}{}{}", p, ssrc, pt));
    }

    /// drive the real receiver handler; oracle: every emitted list is exactly the hole before `seq`
    /// (its most recent 128 numbers), mod 2^16, written from the handler's documentation
    fn gap_case(cx: &mut Ctx, kind: &str, pkts: &[(u16, u32)]) {
        let h = DefaultRtpReceiverNackHandler::new();
        let addr: std::net::SocketAddr = "127.0.0.1:5004".parse().unwrap();
        let mut outs: Vec<Option<Vec<u16>>> = vec![];
        let mut fail = None;
        // oracle state, kept from the documented behaviour only
        let mut last: Option<(u16, u32)> = None;
        let mut asked: BTreeSet<u16> = BTreeSet::new();
        for (seq, ssrc) in pkts {
            let pkt = RtpPacket::new(RtpHeader::new(96, *seq, 0, *ssrc), vec![0]);
            let r = futures::executor::block_on(h.on_packet_received(&pkt, addr, addr));
            let lost = match r { None => None, Some(RtcpPacket::GenericNack(n)) => { if n.media_ssrc != *ssrc && fail.is_none() { fail = Some("NACK for another SSRC".into()); } Some(n.lost_packets) }, Some(o) => { fail = Some(format!("unexpected feedback {:?}", o)); None } };
            // expected
            let mut expect: Option<Vec<u16>> = None;
            match last {
                Some((_, ls)) if ls != 0 && ls != *ssrc => { last = Some((*seq, *ssrc)); asked.clear(); }
                None => { last = Some((*seq, *ssrc)); }
                Some((l, ls)) => {
                    if asked.remove(seq) { /* recovered */ }
                    else {
                        let diff = seq.wrapping_sub(l);
                        if diff > 1 && diff < 32768 {
                            let gap = diff as usize - 1;
                            let n = gap.min(128);
                            let v: Vec<u16> = (0..n).map(|i| seq.wrapping_sub((n - i) as u16)).collect();
                            for x in &v { asked.insert(*x); }
                            expect = Some(v);
                            last = Some((*seq, ls));
                        } else if diff < 32768 { last = Some((*seq, ls)); }
                    }
                }
            }
            if asked.len() > 256 { outs.push(lost); break; } // eviction order of the pending set is unspecified
            if fail.is_none() && lost != expect { fail = Some(format!("at seq {} (previous {:?}): reported {:?}, the hole is {:?}", seq, last, lost.as_ref().map(|v| (v.first().copied(), v.last().copied(), v.len())), expect.as_ref().map(|v| (v.first().copied(), v.last().copied(), v.len())))); }
            outs.push(lost);
        }
        let n_nacks = outs.iter().filter(|o| o.is_some()).count();
        cx.bump(&format!("gap.nacks.{}", n_nacks.min(3)));
        let used = &pkts[..outs.len()];
        let term = format!("KGap {} {}", list_term(&used.iter().map(|(a, b)| format!("({}, {})", a, b)).collect::<Vec<_>>()),
            list_term(&outs.iter().map(|o| opt_term(o.as_ref().map(|l| seqs_term(l)))).collect::<Vec<_>>()));
        cx.push(kind, term, json!({"op": "DefaultRtpReceiverNackHandler", "packets": used, "nacks": outs}), fail, None, n_nacks > 0, format!("GP{:?}", pkts));
    }

    pub fn run(cx: &mut Ctx, r: &mut Rng, thorough: bool) {
        // ---- NACK packing: corpus (boundaries of the 16-bit window and of the 17-number pair span, wrap-around)
        let corpus: Vec<Vec<u16>> = vec![
            vec![10, 11, 12, 30], vec![100, 102], vec![0], vec![65535], vec![65535, 0], vec![65534, 65535, 0, 1, 16, 0],
            vec![0, 16], vec![0, 17], vec![0, 16, 17, 33, 34], (0..17).collect(), (0..18).collect(), (65520..=65535).chain(0..20).collect(),
            vec![5, 5, 5], vec![7, 3, 7, 3, 19, 20], (0..200).map(|i| (i * 17) as u16).collect(), (0..100).map(|i| (i * 16) as u16).collect(),
            vec![32767, 32768, 32769], vec![1, 65535], vec![],
        ];
        for l in &corpus { nack_case(cx, "corpus", l); }
        // exhaustive: every subset of a 5-element window straddling the wrap, in two orders
        let win = [65534u16, 65535, 0, 1, 17];
        for mask in 1u32..32 {
            let l: Vec<u16> = (0..5).filter(|i| mask & (1 << i) != 0).map(|i| win[i]).collect();
            nack_case(cx, "exhaustive", &l);
            let mut rev = l.clone(); rev.reverse(); if rev != l { nack_case(cx, "exhaustive", &rev); }
        }
        let n = if thorough { 5000 } else { 320 };
        for _ in 0..n {
            let base = match r.below(4) { 0 => 65500 + r.below(36) as u16, 1 => r.below(40) as u16, _ => r.next() as u16 };
            let cnt = match r.below(5) { 0 => 1, 1 => r.range(2, 6), 2 => r.range(6, 40), 3 => r.range(15, 19), _ => r.range(1, 120) } as usize;
            let spread = *r.pick(&[2u64, 17, 18, 40, 400, 65536]);
            let mut l: Vec<u16> = (0..cnt).map(|_| base.wrapping_add(r.below(spread) as u16)).collect();
            if r.chance(1, 4) { let d = l[0]; l.push(d); }
            nack_case(cx, "random", &l);
        }
        // webrtc-rs packs, rustrtc unpacks
        let n = if thorough { 2000 } else { 150 };
        for _ in 0..n {
            let base = if r.chance(1, 2) { 65500 + r.below(36) as u16 } else { r.next() as u16 };
            let mut l: Vec<u16> = (0..r.range(1, 30)).map(|_| base.wrapping_add(r.below(60) as u16)).collect();
            l.sort(); l.dedup();
            // the reference packs in the order given (ascending here)
            let ps = rtcp::transport_feedbacks::transport_layer_nack::nack_pairs_from_sequence_numbers(&l);
            let pairs: Vec<(u16, u16)> = ps.iter().map(|p| (p.packet_id, p.lost_packets)).collect();
            let want: BTreeSet<u16> = ps.iter().flat_map(|p| p.packet_list()).collect();
            let got = impl_unpack(&pairs);
            let fail = match &got { Ok(g) => if g.iter().copied().collect::<BTreeSet<u16>>() != want { Some("rustrtc reads a different set from a webrtc-rs NACK".to_string()) } else { None }, Err(e) => Some(format!("rustrtc rejects a webrtc-rs NACK: {}", e)) };
            let term = match &got { Ok(g) => format!("KNackUnpack {} {}", pairs_term(&pairs), seqs_term(g)), Err(_) => "-".into() };
            cx.push("ref-encoded", term, json!({"op": "parse webrtc-rs NACK", "pairs": pairs}), fail, None, true, format!("NR{:?}", pairs));
        }
        // arbitrary (pid, blp) pairs
        for _ in 0..(if thorough { 2000 } else { 150 }) {
            let pairs: Vec<(u16, u16)> = (0..r.range(1, 4)).map(|_| (pick_u16(r), match r.below(4) { 0 => 0, 1 => 0xFFFF, 2 => 0x8001, _ => r.next() as u16 })).collect();
            let got = impl_unpack(&pairs);
            let mut fail = None;
            if let (Ok(g), Ok(w)) = (&got, ref_unpack(&pairs)) { if g.iter().copied().collect::<BTreeSet<u16>>() != w { fail = Some("set differs from webrtc-rs".to_string()); } } else { fail = Some("NACK pairs rejected".into()); }
            let term = match &got { Ok(g) => format!("KNackUnpack {} {}", pairs_term(&pairs), seqs_term(g)), Err(_) => "-".into() };
            cx.push("random", term, json!({"op": "parse NACK", "pairs": pairs}), fail, None, true, format!("NU{:?}", pairs));
        }
        // ---- RTX
        let n = if thorough { 3000 } else { 200 };
        for i in 0..n {
            let mut p = gen_packet(r);
            if i % 3 == 0 { p.header.csrcs.clear(); p.header.extension = None; p.padding_len = 0; }
            let cfg = RtxSenderConfig { rtx_ssrc: pick_u32(r), rtx_payload_type: *r.pick(&[0u8, 97, 127, 128, 255]) };
            let (ps, pp) = if i % 3 == 0 { (p.header.ssrc, p.header.payload_type) } else { (pick_u32(r), *r.pick(&[0u8, 96, 127])) };
            rtx_case(cx, "random", &p, cfg, pick_u16(r), ps, pp);
        }
        for l in 0..4usize {
            let p = RtpPacket { header: RtpHeader::new(97, 1, 2, 3), payload: Bytes::from(vec![0xAB; l]), padding_len: 0 };
            unwrap_case(cx, "corpus", &p, 9, 96);
        }
        for _ in 0..(if thorough { 500 } else { 60 }) { let p = gen_packet(r); unwrap_case(cx, "random", &p, pick_u32(r), 96); }
        // ---- gap detection
        let s1 = 0x1111u32;
        let gc: Vec<Vec<(u16, u32)>> = vec![
            vec![(10, s1), (11, s1), (13, s1), (12, s1), (20, s1)],
            vec![(65534, s1), (2, s1), (65535, s1), (0, s1), (1, s1), (3, s1)],
            vec![(0, s1), (129, s1)], vec![(0, s1), (130, s1)], vec![(0, s1), (131, s1)], vec![(0, s1), (32767, s1)], vec![(0, s1), (32768, s1)], vec![(0, s1), (32769, s1), (1, s1)],
            vec![(65000, s1), (600, s1)], vec![(5, s1), (9, 0x2222), (12, 0x2222), (20, s1)], vec![(5, 0), (9, 7), (12, 7)], vec![(5, s1), (5, s1), (4, s1), (7, s1)],
            vec![(0, s1), (2, s1), (1, s1), (1, s1), (4, s1)],
        ];
        for g in &gc { gap_case(cx, "corpus", g); }
        let n = if thorough { 4000 } else { 260 };
        for _ in 0..n {
            let mut seq = pick_u16(r);
            let mut ssrc = *r.pick(&[0u32, s1, s1, s1, 0x2222]);
            let mut v = vec![];
            for _ in 0..r.range(2, 14) {
                v.push((seq, ssrc));
                seq = match r.below(12) {
                    0 | 1 | 2 | 3 => seq.wrapping_add(1),
                    4 | 5 => seq.wrapping_add(r.range(2, 6) as u16),
                    6 => seq.wrapping_add(*r.pick(&[127u16, 128, 129, 130, 131, 300])),
                    7 => seq.wrapping_sub(r.range(1, 5) as u16),
                    8 => seq.wrapping_add(*r.pick(&[32766u16, 32767, 32768, 32769])),
                    9 => seq,
                    _ => seq.wrapping_add(r.range(1, 40) as u16),
                };
                if r.chance(1, 25) { ssrc = *r.pick(&[0u32, s1, 0x2222]); }
            }
            gap_case(cx, "random", &v);
        }
    }
}

// ------------------------------------------------------------------------------------------ sender-side NACK buffer and resend cooldown
mod senderx {
    use super::*;
    use rustrtc::peer_connection::DefaultRtpSenderNackHandler;
    use rustrtc::rtx::RtxSenderConfig;
    use rustrtc::RtpSenderInterceptor;
    use std::collections::{BTreeMap, BTreeSet};
    use std::sync::atomic::Ordering;
    use std::time::{Duration, Instant};

    #[derive(Clone, Debug)]
    pub enum SOp { Sent(RtpPacket), SetRtx(u32), Nack(Vec<u16>, u64) }

    fn op_term(o: &SOp) -> String {
        match o {
            SOp::Sent(p) => format!("(SSent {})", pkt_term(p)),
            SOp::SetRtx(s) => format!("(SSetRtx {})", s),
            SOp::Nack(l, t) => format!("(SNack {} {})", zlist(l.iter().map(|x| *x as i128)), t),
        }
    }
    fn op_json(o: &SOp) -> serde_json::Value {
        match o {
            SOp::Sent(p) => json!({"sent": {"seq": p.header.sequence_number, "ssrc": p.header.ssrc, "payload": hex(&p.payload)}}),
            SOp::SetRtx(s) => json!({"set_rtx": s}),
            SOp::Nack(l, t) => json!({"nack": l, "at_us": t}),
        }
    }

    fn sender_case(cx: &mut Ctx, kind: &str, max: usize, ops: &[SOp]) {
        let h = DefaultRtpSenderNackHandler::new(max);
        let addr: std::net::SocketAddr = "127.0.0.1:5004".parse().unwrap();
        let t0 = Instant::now();
        let eff_max = max.max(1);
        let mut obs: Vec<(usize, Vec<RtpPacket>, u64)> = vec![];
        let mut fail: Option<String> = None;
        // oracle bookkeeping, from the documented behaviour only
        let mut sent: Vec<RtpPacket> = vec![];            // packets that went into the buffer, in order
        let mut rtx: u32 = 0;
        let mut last_resend: BTreeMap<u16, u64> = BTreeMap::new();
        let mut prev_supp = 0u64;
        let cooldown_us = 25_000u64;
        // Instant is monotonic in production; with a clock that went backwards the pruning of the cooldown map may
        // legitimately forget an entry, so the cooldown / completeness expectations are only evaluated on monotonic histories
        let mut mono = true;
        let mut last_t = 0u64;
        for o in ops {
            let mut out: Vec<RtpPacket> = vec![];
            match o {
                SOp::Sent(p) => {
                    futures::executor::block_on(h.on_packet_sent(p, addr, addr));
                    if !(rtx != 0 && p.header.ssrc == rtx) { sent.push(p.clone()); }
                }
                SOp::SetRtx(s) => { rtx = *s; h.set_rtx(if *s == 0 { None } else { Some(RtxSenderConfig { rtx_ssrc: *s, rtx_payload_type: 97 }) }); }
                SOp::Nack(l, t) => {
                    out = h.packets_for_nack(l, t0 + Duration::from_micros(*t));
                    if *t < last_t { mono = false; }
                    last_t = *t;
                    let all_distinct = sent.iter().map(|p| p.header.sequence_number).collect::<BTreeSet<_>>().len() == sent.len();
                    let mut seen = BTreeSet::new();
                    for p in &out {
                        let sq = p.header.sequence_number;
                        if !l.contains(&sq) && fail.is_none() { fail = Some(format!("handed out seq {} that was not requested", sq)); }
                        if !seen.insert(sq) && fail.is_none() { fail = Some(format!("seq {} handed out twice in one call", sq)); }
                        match sent.iter().rev().find(|q| q.header.sequence_number == sq) {
                            Some(q) => if q != p && fail.is_none() { fail = Some(format!("seq {}: not the most recently sent packet with that number", sq)); },
                            None => if fail.is_none() { fail = Some(format!("seq {} was never sent", sq)); },
                        }
                        if let Some(prev) = last_resend.get(&sq) { if mono && t.saturating_sub(*prev) < cooldown_us && fail.is_none() { fail = Some(format!("seq {} resent {} us after the previous resend (cooldown 25 ms)", sq, t.saturating_sub(*prev))); } }
                    }
                    // completeness, when the history has no repeated sequence number: the last `max` sent packets are retrievable
                    if all_distinct && mono && fail.is_none() {
                        let window: Vec<&RtpPacket> = sent.iter().rev().take(eff_max).collect();
                        for sq in l.iter().collect::<BTreeSet<_>>() {
                            let cooling = last_resend.get(sq).map_or(false, |prev| t.saturating_sub(*prev) < cooldown_us);
                            let buffered = window.iter().any(|p| p.header.sequence_number == *sq);
                            let got = out.iter().any(|p| p.header.sequence_number == *sq);
                            if buffered && !cooling && !got { fail = Some(format!("seq {} is among the last {} sent packets and not cooling, but was not handed out", sq, eff_max)); break; }
                            if !buffered && got { fail = Some(format!("seq {} is older than the last {} sent packets but was handed out", sq, eff_max)); break; }
                        }
                    }
                    for p in &out { last_resend.insert(p.header.sequence_number, *t); }
                }
            }
            let cnt = h.buffered_packet_count();
            let supp = h.retransmit_suppressed_count.load(Ordering::Relaxed);
            if cnt > eff_max && fail.is_none() { fail = Some(format!("buffer holds {} packets, bound is {}", cnt, eff_max)); }
            if supp < prev_supp && fail.is_none() { fail = Some("suppressed counter decreased".into()); }
            prev_supp = supp;
            obs.push((cnt, out, supp));
        }
        let resends: usize = obs.iter().map(|o| o.1.len()).sum();
        cx.bump(&format!("sender.max.{}", max.min(9)));
        cx.bump(if resends > 0 { "sender.resends.some" } else { "sender.resends.none" });
        let term = format!("KSender {} {} {}", max, list_term(&ops.iter().map(op_term).collect::<Vec<_>>()),
            list_term(&obs.iter().map(|(c, o, s)| format!("({}, {}, {})", c, list_term(&o.iter().map(pkt_term).collect::<Vec<_>>()), s)).collect::<Vec<_>>()));
        cx.push(kind, term, json!({"op": "DefaultRtpSenderNackHandler", "max_size": max, "ops": ops.iter().map(op_json).collect::<Vec<_>>(),
            "obs": obs.iter().map(|(c, o, s)| json!([c, o.iter().map(|p| p.header.sequence_number).collect::<Vec<_>>(), s])).collect::<Vec<_>>()}), fail, None, resends > 0, format!("SN{}{:?}", max, ops));
    }

    fn pk(seq: u16, ssrc: u32, b: u8) -> RtpPacket { RtpPacket::new(RtpHeader::new(96, seq, 0, ssrc), vec![b]) }

    pub fn run(cx: &mut Ctx, r: &mut Rng, thorough: bool) {
        // the two unit tests of the repository
        let mut ops: Vec<SOp> = (1u16..=10).map(|s| SOp::Sent(pk(s, 42, s as u8))).collect();
        ops.push(SOp::Nack(vec![7, 8, 9, 10], 0)); ops.push(SOp::Nack(vec![1, 2, 3, 4, 5, 6], 0));
        sender_case(cx, "corpus", 4, &ops);
        sender_case(cx, "corpus", 8, &[SOp::Sent(pk(50, 7, 1)), SOp::Nack(vec![50, 50], 0), SOp::Nack(vec![50], 5_000), SOp::Nack(vec![50], 26_000)]);
        // boundaries of the cooldown, clock going backwards, re-sent sequence number, RTX guard, size 0, pruning of the cooldown map
        sender_case(cx, "corpus", 2, &[SOp::Sent(pk(1, 7, 1)), SOp::Nack(vec![1], 100_000), SOp::Nack(vec![1], 124_999), SOp::Nack(vec![1], 125_000), SOp::Nack(vec![1], 90_000), SOp::Nack(vec![1], 150_000)]);
        sender_case(cx, "corpus", 2, &[SOp::Sent(pk(1, 7, 1)), SOp::Sent(pk(2, 7, 2)), SOp::Sent(pk(1, 7, 9)), SOp::Nack(vec![1, 2], 0), SOp::Sent(pk(3, 7, 3)), SOp::Nack(vec![1, 2, 3], 30_000)]);
        sender_case(cx, "corpus", 3, &[SOp::SetRtx(99), SOp::Sent(pk(1, 99, 1)), SOp::Sent(pk(2, 7, 2)), SOp::Nack(vec![1, 2], 0), SOp::SetRtx(0), SOp::Sent(pk(3, 99, 3)), SOp::Nack(vec![3], 1)]);
        sender_case(cx, "corpus", 0, &[SOp::Sent(pk(5, 7, 1)), SOp::Sent(pk(6, 7, 2)), SOp::Nack(vec![5, 6], 0)]);
        let mut ops: Vec<SOp> = (0u16..6).map(|s| SOp::Sent(pk(65533u16.wrapping_add(s), 7, s as u8))).collect();
        for (i, s) in [65533u16, 65534, 65535, 0, 1, 2].iter().enumerate() { ops.push(SOp::Nack(vec![*s], 1000 * i as u64)); }
        ops.push(SOp::Nack(vec![0, 1, 2], 60_000));
        sender_case(cx, "corpus", 1, &ops);
        sender_case(cx, "corpus", 6, &ops);
        // generated histories
        let n = if thorough { 4000 } else { 320 };
        for _ in 0..n {
            let max = *r.pick(&[0usize, 1, 1, 2, 3, 4, 8]);
            let ssrc = 7u32;
            let mut seq = if r.chance(1, 4) { 65530 + r.below(6) as u16 } else { pick_u16(r) };
            let mut now = r.below(1000);
            let mut rtx = 0u32;
            let mut recent_sent: Vec<u16> = vec![];
            let mut ops = vec![];
            let mut b = 0u8;
            for _ in 0..r.range(4, 28) {
                match r.below(10) {
                    0..=4 => {
                        if r.chance(1, 12) && !recent_sent.is_empty() { seq = *r.pick(&recent_sent); } else { seq = seq.wrapping_add(1); }
                        b = b.wrapping_add(1);
                        let s = if rtx != 0 && r.chance(1, 5) { rtx } else { ssrc };
                        ops.push(SOp::Sent(pk(seq, s, b)));
                        recent_sent.push(seq);
                    }
                    5 if r.chance(1, 3) => { rtx = if rtx == 0 { 99 } else { 0 }; ops.push(SOp::SetRtx(rtx)); }
                    _ => {
                        now = match r.below(8) { 0 => now, 1 => now + 5_000, 2 => now + 24_999, 3 => now + 25_000, 4 => now + 25_001, 5 => now.saturating_sub(r.below(30_000)), _ => now + r.below(60_000) };
                        let k = r.range(1, 5);
                        let l: Vec<u16> = (0..k).map(|_| if !recent_sent.is_empty() && r.chance(5, 6) { let i = recent_sent.len() - 1 - r.below(recent_sent.len().min(10) as u64) as usize; recent_sent[i] } else { pick_u16(r) }).collect();
                        ops.push(SOp::Nack(l, now));
                    }
                }
            }
            sender_case(cx, "random", max, &ops);
        }
    }
}

fn main() {
    let args = parse_args();
    if std::env::var("C15_DEBUG").is_err() { silence_panics(); }
    let mut cx = Ctx { out: Out::new(&args.out), stats: BTreeMap::new() };
    let mut r = Rng::new(args.seed);
    let thorough = args.tier == "thorough";
    run_rtp(&mut cx, &mut r, thorough);
    run_ext(&mut cx, &mut r, thorough);
    nackx::run(&mut cx, &mut r, thorough);
    senderx::run(&mut cx, &mut r, thorough);
    rtcpx::run(&mut cx, &mut r, thorough);
    let stats = cx.stats.clone();
    cx.out.finish(json!({"generator": stats}));
}
