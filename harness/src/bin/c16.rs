//! C16 — STUN/TURN messages and ICE priorities.
//! Drives the real `StunMessage::{encode,decode}`, `IceCandidate::{host,host_tcp,to_sdp,from_sdp}`,
//! `IceCandidatePair::priority` and the TURN framing helpers, evaluates the property oracle on
//! the implementation's own outputs (RFC 5389/5766/8445 read independently, webrtc-rs `stun` as
//! second implementation, RustCrypto hmac/sha1/md5/crc32fast as primitives) and emits every case
//! as a Gallina term for `Run/C16Run.v`.
use rustrtc::transports::ice::stun::{StunAttribute, StunClass, StunDecoded, StunMessage, StunMethod};
use rustrtc::transports::ice::{IceCandidate, IceCandidatePair, IceCandidateType, IceRole, TcpType};
use serde_json::json;
use std::collections::BTreeMap;
use std::net::{IpAddr, Ipv4Addr, Ipv6Addr, SocketAddr};
use vh::*;

mod cand {
    //! candidate lines: IceCandidate::to_sdp / from_sdp
    use super::*;

    /// piece -> token. A piece is an IP literal exactly when the expression from_sdp itself
    /// evaluates ("{piece}:{port}" / "[{piece}]:{port}" parsed as SocketAddr) succeeds.
    pub fn lex_piece(p: &str) -> String {
        if p.contains(':') {
            if let Ok(SocketAddr::V6(a)) = format!("[{}]:0", p).parse::<SocketAddr>() {
                let sc = if p.contains('%') { Some(a.scope_id().to_string()) } else { None };
                return format!("(TIp6 {} {})", bytes_term(&a.ip().octets()), opt_term(sc));
            }
        } else if let Ok(SocketAddr::V4(a)) = format!("{}:0", p).parse::<SocketAddr>() {
            return format!("(TIp4 {})", bytes_term(&a.ip().octets()));
        }
        format!("(TWord {})", bytes_term(p.as_bytes()))
    }
    pub fn lex_line(s: &str) -> String {
        list_term(&s.split_whitespace().map(lex_piece).collect::<Vec<_>>())
    }
    fn saddr_term(a: &SocketAddr) -> String {
        match a {
            SocketAddr::V4(v) => format!("(mkSa (IP4 {}) {} 0)", bytes_term(&v.ip().octets()), v.port()),
            SocketAddr::V6(v) => format!("(mkSa (IP6 {}) {} {})", bytes_term(&v.ip().octets()), v.port(), v.scope_id()),
        }
    }
    fn typ_term(t: IceCandidateType) -> &'static str {
        match t { IceCandidateType::Host => "IceCandidateType_Host", IceCandidateType::ServerReflexive => "IceCandidateType_ServerReflexive",
            IceCandidateType::PeerReflexive => "IceCandidateType_PeerReflexive", IceCandidateType::Relay => "IceCandidateType_Relay" }
    }
    fn tcp_term(t: TcpType) -> &'static str {
        match t { TcpType::Active => "TcpType_Active", TcpType::Passive => "TcpType_Passive", TcpType::So => "TcpType_So" }
    }
    pub fn cand_term(c: &IceCandidate) -> String {
        format!("(mkCand {} {} {} {} {} {} {} {})", lex_piece(&c.foundation), c.priority, saddr_term(&c.address), typ_term(c.typ),
            lex_piece(&c.transport), opt_term(c.tcp_type.map(|t| tcp_term(t).to_string())), opt_term(c.related_address.as_ref().map(saddr_term)), c.component)
    }
    /// does lexing the string the way the model keeps it (one piece) lose nothing?
    fn piece_ok(s: &str) -> bool { !s.is_empty() && !s.chars().any(|c| c.is_whitespace()) }

    fn gen_sock(r: &mut Rng) -> SocketAddr {
        let port = *r.pick(&[0u16, 1, 9, 1024, 54321, 65535]);
        match r.below(6) {
            0 => SocketAddr::new(IpAddr::V4(Ipv4Addr::new(192, 168, 1, r.next() as u8)), port),
            1 => SocketAddr::new(IpAddr::V4(Ipv4Addr::from((r.next() as u32).to_be_bytes())), port),
            2 => SocketAddr::new(IpAddr::V4(Ipv4Addr::new(0, 0, 0, 0)), port),
            3 => SocketAddr::new(IpAddr::V6(Ipv6Addr::new(0x2001, 0xdb8, 0, 0, 0, 0, 0, r.next() as u16)), port),
            4 => { let mut o = [0u8; 16]; for b in o.iter_mut() { *b = r.next() as u8; } SocketAddr::new(IpAddr::V6(Ipv6Addr::from(o)), port) }
            _ => SocketAddr::new(IpAddr::V6(*r.pick(&[Ipv6Addr::LOCALHOST, Ipv6Addr::UNSPECIFIED, Ipv6Addr::new(0, 0, 0, 0, 0, 0xffff, 0xc000, 0x0201), Ipv6Addr::new(0xfe80, 0, 0, 0, 1, 0, 0, 1)])), port),
        }
    }

    const TYPES: [IceCandidateType; 4] = [IceCandidateType::Host, IceCandidateType::ServerReflexive, IceCandidateType::PeerReflexive, IceCandidateType::Relay];

    fn to_sdp_case(out: &mut Out, c: &IceCandidate, wf: bool, kind: &str, stats: &mut BTreeMap<String, u64>) -> Option<String> {
        let c1 = c.clone();
        let line = match catch(move || c1.to_sdp()) { Ok(l) => l, Err(p) => {
            out.push(Case { term: "-".into(), desc: json!({"what": "IceCandidate::to_sdp", "candidate": format!("{:?}", c)}), oracle_fail: Some(format!("to_sdp panicked: {p}")),
                known: None, nontrivial: false, key: format!("{:?}", c), kind: kind.into() }); return None; } };
        let mut fail = None;
        if wf {
            // the property: the line survives a round trip (transport is case-normalised; a host candidate's related address is not printed)
            let l2 = line.clone();
            match catch(move || IceCandidate::from_sdp(&l2).map_err(|e| e.to_string())) {
                Err(p) => fail = Some(format!("from_sdp panicked on to_sdp output: {p}")),
                Ok(Err(e)) => fail = Some(format!("from_sdp rejects to_sdp output '{line}': {e}")),
                Ok(Ok(c2)) => {
                    let mut want = c.clone();
                    want.transport = want.transport.to_ascii_lowercase();
                    if want.typ == IceCandidateType::Host { want.related_address = None; }
                    if c2 != want { fail = Some(format!("from_sdp(to_sdp(c)) = {:?} differs from c = {:?}", c2, want)); }
                    else if c2.to_sdp() != line { fail = Some(format!("to_sdp(from_sdp(to_sdp c)) = '{}' differs from '{}'", c2.to_sdp(), line)); }
                }
            }
            let n = 8 + if c.tcp_type.is_some() { 2 } else { 0 } + if c.related_address.is_some() && c.typ != IceCandidateType::Host { 4 } else { 0 };
            let pieces: Vec<&str> = line.split(' ').collect();
            if pieces.len() != n || pieces.iter().any(|p| p.is_empty()) || pieces[6] != "typ" { fail.get_or_insert(format!("line '{line}' is not <foundation> <component> <transport> <priority> <address> <port> typ <type> [tcptype ..] [raddr .. rport ..]")); }
        }
        *stats.entry(format!("{}/{}/{}/{}", typ_term(c.typ).replace("IceCandidateType_", ""), c.transport, c.tcp_type.map(|t| tcp_term(t)).unwrap_or("-"),
            match (c.address.is_ipv4(), c.related_address.map(|a| a.is_ipv4())) { (true, None) => "v4", (false, None) => "v6", (true, Some(_)) => "v4+rel", (false, Some(_)) => "v6+rel" })).or_default() += 1;
        let ok = piece_ok(&c.foundation) && piece_ok(&c.transport);
        out.push(Case { term: if ok { format!("KCandTo {} {}", cand_term(c), lex_line(&line)) } else { "-".into() },
            desc: json!({"what": "IceCandidate::to_sdp", "candidate": format!("{:?}", c), "line": line}), oracle_fail: fail, known: None,
            nontrivial: true, key: format!("to{}", line), kind: kind.into() });
        Some(line)
    }

    fn from_sdp_case(out: &mut Out, line: &str, kind: &str, expect: Option<&dyn Fn(&IceCandidate) -> Option<String>>) {
        let l2 = line.to_string();
        let res = catch(move || IceCandidate::from_sdp(&l2).map_err(|e| e.to_string()));
        let (fail, term, nt) = match &res {
            Err(p) => (Some(format!("from_sdp panicked: {p}")), "-".to_string(), false),
            Ok(r) => {
                let f = match (r, expect) { (Ok(c), Some(f)) => f(c), (Err(e), Some(_)) => Some(format!("a well-formed candidate line is rejected: {e}")), _ => None };
                // skip the one lexical corner the token model does not cover: "candidate:<ip literal>" as foundation
                let first = line.split_whitespace().next().unwrap_or("");
                let trimmed = first.trim_start_matches("candidate:");
                let corner = trimmed != first && lex_piece(trimmed).starts_with("(TIp");
                let t = if corner { "-".to_string() } else { format!("KCandFrom {} {}", lex_line(line), opt_term(r.as_ref().ok().map(cand_term))) };
                (f, t, r.is_ok())
            }
        };
        out.push(Case { term, desc: json!({"what": "IceCandidate::from_sdp", "line": line, "impl": format!("{:?}", res).chars().take(300).collect::<String>()}),
            oracle_fail: fail, known: None, nontrivial: nt, key: format!("from{}", line), kind: kind.into() });
    }

    fn mutate_line(r: &mut Rng, line: &str) -> (String, &'static str) {
        let mut p: Vec<String> = line.split_whitespace().map(|s| s.to_string()).collect();
        let junk = ["", "65535", "65536", "4294967295", "4294967296", "+1", "007", "-1", "1e3", "0x10", "x", "TYP", "typ", "HOST", "host", "srflx", "relay", "prflx", "bogus",
            "tcptype", "raddr", "rport", "active", "passive", "so", "SO", "1.2.3.4", "1.2.3", "256.1.1.1", "01.2.3.4", "::1", "fe80::1%3", "::ffff:1.2.3.4", "[::1]", "2001:DB8::A",
            "candidate:1", "candidate:candidate:7", "candidate:", "tcp", "TCP", "udp", "99999999999999999999999", "generation", "0", "ufrag", "network-id"];
        let how = match r.below(9) {
            0 => { if !p.is_empty() { let i = r.below(p.len() as u64) as usize; p.remove(i); } "drop-piece" }
            1 => { if !p.is_empty() { let i = r.below(p.len() as u64) as usize; p[i] = r.pick(&junk).to_string(); } "replace-piece" }
            2 => { let i = r.below(p.len() as u64 + 1) as usize; p.insert(i, r.pick(&junk).to_string()); "insert-piece" }
            3 => { let n = r.below(p.len() as u64 + 1) as usize; p.truncate(n); "truncate" }
            4 => { p.push(r.pick(&junk).to_string()); p.push(r.pick(&junk).to_string()); "append-pair" }
            5 => { if p.len() > 9 { let i = 8 + r.below((p.len() - 8) as u64) as usize; p[i] = r.pick(&junk).to_string(); } "replace-extension" }
            6 => { if !p.is_empty() { let i = r.below(p.len() as u64) as usize; p[i] = p[i].to_ascii_uppercase(); } "uppercase-piece" }
            7 => { p.extend(["raddr", *r.pick(&["9.9.9.9", "bad", "::2", "fe80::1%3"]), "rport", *r.pick(&["7", "65536", "x", "+9"])].iter().map(|s| s.to_string())); "append-raddr" }
            _ => { p.extend(["tcptype", *r.pick(&["active", "passive", "so", "x"])].iter().map(|s| s.to_string())); "append-tcptype" }
        };
        let sep = *r.pick(&[" ", " ", "  ", "\t"]);
        (p.join(sep), how)
    }

    pub fn cases(out: &mut Out, r: &mut Rng, thorough: bool, summary: &mut serde_json::Map<String, serde_json::Value>) {
        let mut stats: BTreeMap<String, u64> = BTreeMap::new();
        let mut lines: Vec<String> = vec![];
        // ---- corpus: the F14 witness (must pass now) and the public constructors
        let f14 = IceCandidate { foundation: "f".into(), priority: 5, address: "9.9.9.9:1000".parse().unwrap(), typ: IceCandidateType::ServerReflexive,
            transport: "udp".into(), tcp_type: None, related_address: Some("10.0.0.1:2000".parse().unwrap()), component: 1 };
        if let Some(l) = to_sdp_case(out, &f14, true, "cand-corpus", &mut stats) { lines.push(l); }
        from_sdp_case(out, "f 1 udp 5 9.9.9.9 1000 typ srflx raddr 10.0.0.1 rport 2000", "cand-corpus",
            Some(&|c: &IceCandidate| if c.related_address == Some("10.0.0.1:2000".parse().unwrap()) { None } else { Some(format!("related address {:?}, expected 10.0.0.1:2000 (F14)", c.related_address)) }));
        for a in ["192.0.2.7:5000", "[2001:db8::7]:5000"] {
            let a: SocketAddr = a.parse().unwrap();
            for comp in [1u16, 2] {
                if let Some(l) = to_sdp_case(out, &IceCandidate::host(a, comp), true, "cand-corpus", &mut stats) { lines.push(l); }
                for t in [TcpType::Active, TcpType::Passive, TcpType::So] {
                    if let Some(l) = to_sdp_case(out, &IceCandidate::host_tcp(a, comp, t), true, "cand-corpus", &mut stats) { lines.push(l); }
                }
                if let Some(l) = to_sdp_case(out, &IceCandidate::tcp(a, comp, "active"), true, "cand-corpus", &mut stats) { lines.push(l); }
            }
        }
        // lines as browsers write them (extensions after the standard fields)
        let chrome = "candidate:842163049 1 udp 1677729535 203.0.113.5 46154 typ srflx raddr 10.0.0.17 rport 46154 generation 0 ufrag EsAw network-id 1 network-cost 10";
        from_sdp_case(out, chrome, "cand-corpus", Some(&|c: &IceCandidate| {
            if c.foundation != "842163049" || c.component != 1 || c.transport != "udp" || c.priority != 1677729535 || c.address != "203.0.113.5:46154".parse().unwrap()
                || c.typ != IceCandidateType::ServerReflexive || c.related_address != Some("10.0.0.17:46154".parse().unwrap()) || c.tcp_type.is_some() { Some(format!("parsed as {:?}", c)) } else { None } }));
        let ff = "candidate:1 1 TCP 2105524479 2001:db8::1 9 typ host tcptype active";
        from_sdp_case(out, ff, "cand-corpus", Some(&|c: &IceCandidate| {
            if c.foundation != "1" || c.transport != "tcp" || c.tcp_type != Some(TcpType::Active) || c.address != "[2001:db8::1]:9".parse().unwrap() || c.typ != IceCandidateType::Host { Some(format!("parsed as {:?}", c)) } else { None } }));
        lines.push(chrome.into());
        lines.push(ff.into());
        // ---- every type x transport x tcptype x family x related, a few components each
        let transports = ["udp", "tcp", "UDP", "TCP", "Tcp", "tls", "ssltcp"];
        let n_rounds = if thorough { 12 } else { 2 };
        for _ in 0..n_rounds { for &typ in &TYPES { for tr in transports { for tcp in [None, Some(TcpType::Active), Some(TcpType::Passive), Some(TcpType::So)] { for rel in [false, true] {
            let is_tcp = tr.eq_ignore_ascii_case("tcp");
            let wf = tcp.is_none() || is_tcp;
            if !wf && !r.chance(1, 4) { continue; }
            let foundation = match r.below(5) { 0 => format!("{:x}", r.next()), 1 => r.below(100000).to_string(), 2 => "a/b+c".to_string(), 3 => "F".repeat(32), _ => format!("{}", r.below(10)) };
            let c = IceCandidate { foundation, priority: match r.below(4) { 0 => 0, 1 => u32::MAX, _ => r.next() as u32 }, address: gen_sock(r), typ, transport: tr.into(), tcp_type: tcp,
                related_address: if rel { Some(gen_sock(r)) } else { None }, component: *r.pick(&[0u16, 1, 2, 255, 256, 257, 65535]) };
            if let Some(l) = to_sdp_case(out, &c, wf, if wf { "cand-to_sdp" } else { "cand-to_sdp-inconsistent-tcptype" }, &mut stats) { if r.chance(1, 3) { lines.push(l); } }
        } } } } }
        // ---- from_sdp on valid and damaged lines
        let mut muts: BTreeMap<String, u64> = BTreeMap::new();
        for l in lines.clone() { from_sdp_case(out, &l, "cand-from_sdp-valid", None); }
        let n = if thorough { 6000 } else { 1000 };
        for _ in 0..n {
            let base = r.pick(&lines).clone();
            let (l, how) = mutate_line(r, &base);
            *muts.entry(how.into()).or_default() += 1;
            from_sdp_case(out, &l, "cand-from_sdp-mutated", None);
        }
        summary.insert("candidates".into(), json!({"type/transport/tcptype/family": stats, "line mutations": muts}));
    }
}


// ------------------------------------------------------------------------------------------------
// TURN: a real TurnClient / STUN probe (reached through IceTransport gathering and connectivity
// checks over a relay candidate) talks to a scripted server owned by the harness; everything it
// sends is the observed output
// ------------------------------------------------------------------------------------------------
mod turncap {
    use super::*;
    use rustrtc::transports::ice::{IceParameters, IceTransport};
    use rustrtc::{IceServer, IceTransportPolicy, RtcConfiguration};
    use std::sync::{Arc, Mutex};
    use stun::attributes::*;
    use stun::message::{Message, Setter, CLASS_ERROR_RESPONSE, CLASS_INDICATION, CLASS_REQUEST, CLASS_SUCCESS_RESPONSE, METHOD_ALLOCATE, METHOD_BINDING,
        METHOD_CHANNEL_BIND, METHOD_CREATE_PERMISSION, METHOD_REFRESH, METHOD_SEND, MessageType};

    /// one unit the client sent (a UDP datagram, or one frame cut out of the TCP stream as the
    /// client itself frames it), with the challenge that was current when it arrived
    pub struct Captured { pub bytes: Vec<u8>, pub realm: String, pub nonce: String, pub alloc_index: Option<usize> }

    pub struct Scenario {
        pub name: &'static str, pub user: &'static str, pub pass: &'static str,
        /// error responses to the first Allocate requests: (code, realm, nonce); then success
        pub challenges: Vec<(u16, &'static str, &'static str)>,
        pub relayed: &'static str, pub mapped: &'static str,
        pub peers: Vec<&'static str>, pub bind_ok: bool, pub relay_only: bool, pub tcp: bool,
    }

    struct Srv { sc_user: String, sc_pass: String, challenges: Vec<(u16, String, String)>, relayed: SocketAddr, mapped: SocketAddr, bind_ok: bool,
        allocs: usize, realm: String, nonce: String, log: Vec<Captured>, raw_stream: Vec<u8> }

    impl Srv {
        /// returns the response to send (if any)
        fn handle(&mut self, bytes: &[u8], from: SocketAddr) -> Option<Vec<u8>> {
            let mut cap = Captured { bytes: bytes.to_vec(), realm: self.realm.clone(), nonce: self.nonce.clone(), alloc_index: None };
            let mut m = Message::new();
            m.raw = bytes.to_vec();
            let is_stun = bytes.first().map(|b| *b < 0x40).unwrap_or(false) && m.decode().is_ok();
            if !is_stun || m.typ.class != CLASS_REQUEST { self.log.push(cap); return None; }
            let mut resp = Message::new();
            resp.transaction_id = m.transaction_id;
            let key = |realm: &str, s: &Srv| stun::integrity::MessageIntegrity::new_long_term_integrity(s.sc_user.clone(), realm.to_string(), s.sc_pass.clone());
            if m.typ.method == METHOD_BINDING {
                resp.typ = MessageType::new(METHOD_BINDING, CLASS_SUCCESS_RESPONSE);
                resp.write_header();
                stun::xoraddr::XorMappedAddress { ip: self.mapped.ip(), port: self.mapped.port() }.add_to(&mut resp).unwrap();
                stun::fingerprint::FINGERPRINT.add_to(&mut resp).unwrap();
            } else if m.typ.method == METHOD_ALLOCATE {
                let i = self.allocs;
                self.allocs += 1;
                cap.alloc_index = Some(i);
                if i < self.challenges.len() {
                    let (code, realm, nonce) = self.challenges[i].clone();
                    resp.typ = MessageType::new(METHOD_ALLOCATE, CLASS_ERROR_RESPONSE);
                    resp.write_header();
                    stun::error_code::ErrorCodeAttribute { code: stun::error_code::ErrorCode(code), reason: b"challenge".to_vec() }.add_to(&mut resp).unwrap();
                    stun::textattrs::TextAttribute::new(ATTR_REALM, realm.clone()).add_to(&mut resp).unwrap();
                    stun::textattrs::TextAttribute::new(ATTR_NONCE, nonce.clone()).add_to(&mut resp).unwrap();
                    self.realm = realm;
                    self.nonce = nonce;
                } else {
                    resp.typ = MessageType::new(METHOD_ALLOCATE, CLASS_SUCCESS_RESPONSE);
                    resp.write_header();
                    stun::xoraddr::XorMappedAddress { ip: self.relayed.ip(), port: self.relayed.port() }.add_to_as(&mut resp, ATTR_XOR_RELAYED_ADDRESS).unwrap();
                    stun::xoraddr::XorMappedAddress { ip: from.ip(), port: from.port() }.add_to(&mut resp).unwrap();
                    resp.add(ATTR_LIFETIME, &600u32.to_be_bytes());
                    key(&self.realm, self).add_to(&mut resp).unwrap();
                    stun::fingerprint::FINGERPRINT.add_to(&mut resp).unwrap();
                }
            } else if m.typ.method == METHOD_CHANNEL_BIND && !self.bind_ok {
                resp.typ = MessageType::new(METHOD_CHANNEL_BIND, CLASS_ERROR_RESPONSE);
                resp.write_header();
                stun::error_code::ErrorCodeAttribute { code: stun::error_code::ErrorCode(400), reason: b"no channels here".to_vec() }.add_to(&mut resp).unwrap();
            } else {
                resp.typ = MessageType::new(m.typ.method, CLASS_SUCCESS_RESPONSE);
                resp.write_header();
                if m.typ.method == METHOD_REFRESH { resp.add(ATTR_LIFETIME, &m.get(ATTR_LIFETIME).unwrap_or(vec![0, 0, 2, 88])); }
                key(&self.realm, self).add_to(&mut resp).unwrap();
                stun::fingerprint::FINGERPRINT.add_to(&mut resp).unwrap();
            }
            self.log.push(cap);
            Some(resp.raw)
        }
    }

    async fn serve_udp(sock: Arc<tokio::net::UdpSocket>, srv: Arc<Mutex<Srv>>) {
        let mut buf = [0u8; 2048];
        loop {
            let Ok((n, from)) = sock.recv_from(&mut buf).await else { return };
            let resp = srv.lock().unwrap().handle(&buf[..n], from);
            if let Some(r) = resp { let _ = sock.send_to(&r, from).await; }
        }
    }

    /// TCP: the stream is recorded raw; to keep the client going the server cuts it the way the
    /// client frames it (16-bit length prefix) and answers in the same framing
    async fn serve_tcp(l: tokio::net::TcpListener, srv: Arc<Mutex<Srv>>) {
        use tokio::io::{AsyncReadExt, AsyncWriteExt};
        let Ok((mut st, from)) = l.accept().await else { return };
        loop {
            let mut h = [0u8; 2];
            if st.read_exact(&mut h).await.is_err() { return; }
            let n = u16::from_be_bytes(h) as usize;
            let mut body = vec![0u8; n];
            if st.read_exact(&mut body).await.is_err() { return; }
            let resp = { let mut s = srv.lock().unwrap(); s.raw_stream.extend_from_slice(&h); s.raw_stream.extend_from_slice(&body); s.handle(&body, from) };
            if let Some(r) = resp {
                let mut f = (r.len() as u16).to_be_bytes().to_vec();
                f.extend_from_slice(&r);
                if st.write_all(&f).await.is_err() { return; }
            }
        }
    }

    pub struct Outcome { pub caps: Vec<Captured>, pub cands: Vec<IceCandidate>, pub raw_stream: Vec<u8> }

    async fn run_one(sc: &Scenario) -> Outcome {
        let srv = Arc::new(Mutex::new(Srv { sc_user: sc.user.into(), sc_pass: sc.pass.into(),
            challenges: sc.challenges.iter().map(|(c, r, n)| (*c, r.to_string(), n.to_string())).collect(), relayed: sc.relayed.parse().unwrap(), mapped: sc.mapped.parse().unwrap(),
            bind_ok: sc.bind_ok, allocs: 0, realm: String::new(), nonce: String::new(), log: vec![], raw_stream: vec![] }));
        let (port, task) = if sc.tcp {
            let l = tokio::net::TcpListener::bind("127.0.0.1:0").await.unwrap();
            (l.local_addr().unwrap().port(), tokio::spawn(serve_tcp(l, srv.clone())))
        } else {
            let sock = Arc::new(tokio::net::UdpSocket::bind("127.0.0.1:0").await.unwrap());
            (sock.local_addr().unwrap().port(), tokio::spawn(serve_udp(sock, srv.clone())))
        };
        let mut cfg = RtcConfiguration::default();
        cfg.ice_servers.push(IceServer::new(vec![format!("turn:127.0.0.1:{port}?transport={}", if sc.tcp { "tcp" } else { "udp" })]).with_credential(sc.user, sc.pass));
        if !sc.tcp { cfg.ice_servers.push(IceServer::new(vec![format!("stun:127.0.0.1:{port}")])); }
        if sc.relay_only { cfg.ice_transport_policy = IceTransportPolicy::Relay; }
        cfg.stun_timeout = std::time::Duration::from_millis(1200);
        let (ice, runner) = IceTransport::new(cfg);
        let run = tokio::spawn(runner);
        ice.set_role(IceRole::Controlling);
        let _ = ice.start_gathering();
        let t0 = std::time::Instant::now();
        while ice.gather_state() != rustrtc::IceGathererState::Complete && t0.elapsed() < std::time::Duration::from_secs(8) {
            tokio::time::sleep(std::time::Duration::from_millis(10)).await;
        }
        let cands = ice.local_candidates();
        if !sc.peers.is_empty() {
            for p in &sc.peers { ice.add_remote_candidate(IceCandidate::host(p.parse().unwrap(), 1)); }
            let _ = ice.start(IceParameters::new("RMTU", "remote-ice-password-0123"));
            // CreatePermission -> ChannelBind -> first check per remote candidate
            let want = sc.peers.len() * 3;
            let t1 = std::time::Instant::now();
            while t1.elapsed() < std::time::Duration::from_millis(2500) {
                let n = srv.lock().unwrap().log.iter().filter(|c| c.alloc_index.is_none()).count();
                if n >= want + 1 { break; }
                tokio::time::sleep(std::time::Duration::from_millis(20)).await;
            }
        }
        ice.stop();
        tokio::time::sleep(std::time::Duration::from_millis(120)).await;
        drop(ice);
        run.abort();
        task.abort();
        let mut s = srv.lock().unwrap();
        Outcome { caps: std::mem::take(&mut s.log), cands, raw_stream: std::mem::take(&mut s.raw_stream) }
    }

    fn ref_peer(m: &Message) -> Option<SocketAddr> {
        let mut x = stun::xoraddr::XorMappedAddress::default();
        x.get_from_as(m, ATTR_XOR_PEER_ADDRESS).ok()?;
        Some(SocketAddr::new(x.ip, x.port))
    }
    fn b(s: &str) -> String { bytes_term(s.as_bytes()) }
    fn peer_term(a: &SocketAddr) -> String { addr_term(a) }

    pub fn cases(out: &mut Out, summary: &mut serde_json::Map<String, serde_json::Value>) {
        let scenarios = vec![
            Scenario { name: "single challenge, srflx + relay", user: "alice", pass: "secret", challenges: vec![(401, "example.org", "f//499k954d6OL34oL9FSTvy64sA")],
                relayed: "198.51.100.7:49152", mapped: "203.0.113.9:40000", peers: vec![], bind_ok: true, relay_only: false, tcp: false },
            Scenario { name: "non-ASCII credentials, v6 relay", user: "üser-ж", pass: "", challenges: vec![(401, "exämple.org", "0123456789abcdef0123456789abcdef0123456789abcdef")],
                relayed: "[2001:db8::77]:50000", mapped: "[2001:db8::9]:40001", peers: vec![], bind_ok: true, relay_only: false, tcp: false },
            Scenario { name: "stale nonce: 401 then 438 with the same realm", user: "user:with:colons", pass: "p@ss:w0rd", challenges: vec![(401, "r e a l m", "n1"), (438, "r e a l m", "n2-rotated")],
                relayed: "192.0.2.200:65535", mapped: "192.0.2.201:1", peers: vec!["192.0.2.55:7000"], bind_ok: true, relay_only: true, tcp: false },
            Scenario { name: "realm changes between challenges: 401 realm A then 438 realm B", user: "bob", pass: "hunter2", challenges: vec![(401, "realm-A.example", "nonceA"), (438, "realm-B.example", "nonceB")],
                relayed: "10.1.2.3:1024", mapped: "10.9.9.9:9", peers: vec!["192.0.2.55:7000", "192.0.2.56:7002", "198.51.100.1:65535"], bind_ok: true, relay_only: true, tcp: false },
            Scenario { name: "IPv6 relay and peers", user: "dave", pass: "v6pw", challenges: vec![(401, "v6.example", "v6nonce")],
                relayed: "[2001:db8::aa]:50001", mapped: "[2001:db8::ab]:50002", peers: vec!["[2001:db8::55]:7001", "[2001:db8:ffff:ffff:ffff:ffff:ffff:ffff]:1"], bind_ok: true, relay_only: true, tcp: false },
            Scenario { name: "ChannelBind refused: data goes in Send indications", user: "u", pass: "a-very-long-password-a-very-long-password-a-very-long-password-a-very-long-password", challenges: vec![(401, "x", "abc")],
                relayed: "10.1.2.4:1025", mapped: "10.9.9.8:8", peers: vec!["198.51.100.99:9", "203.0.113.77:65535"], bind_ok: false, relay_only: true, tcp: false },
            Scenario { name: "TURN over TCP", user: "carol", pass: "pw", challenges: vec![(401, "tcp.example", "tcpnonce")],
                relayed: "10.1.2.5:1026", mapped: "10.9.9.7:7", peers: vec![], bind_ok: true, relay_only: true, tcp: true },
        ];
        let rt = tokio::runtime::Builder::new_multi_thread().worker_threads(2).enable_all().build().unwrap();
        let mut seen: BTreeMap<String, u64> = BTreeMap::new();
        for sc in &scenarios {
            let o = rt.block_on(run_one(sc));
            let scj = json!({"scenario": sc.name, "user": sc.user, "challenges": sc.challenges, "relayed": sc.relayed, "peers": sc.peers, "tcp": sc.tcp, "channel_bind_accepted": sc.bind_ok});
            let mut bound: BTreeMap<u16, SocketAddr> = BTreeMap::new();
            let mut n_auth_alloc = 0;
            let (mut n_perm, mut n_bind, mut n_chan, mut n_ind) = (0, 0, 0, 0);
            let mut bind_channels: Vec<u16> = vec![];
            for c in &o.caps {
                let mut fail: Option<String> = None;
                let known: Option<String> = None;
                let mut term = "-".to_string();
                let what;
                let first = c.bytes.first().copied().unwrap_or(0xff);
                if (0x40..0x80).contains(&first) {
                    // ---- ChannelData (RFC 5766 11.4 / 11.5)
                    what = "ChannelData".to_string();
                    n_chan += 1;
                    if c.bytes.len() < 4 { fail = Some("ChannelData shorter than its header".into()); }
                    else {
                        let ch = u16::from_be_bytes([c.bytes[0], c.bytes[1]]);
                        let l = u16::from_be_bytes([c.bytes[2], c.bytes[3]]) as usize;
                        if !(0x4000..=0x7FFF).contains(&ch) { fail = Some(format!("channel number {ch:#06x} outside 0x4000..0x7FFF")); }
                        if !bound.contains_key(&ch) { fail.get_or_insert(format!("ChannelData on channel {ch:#06x} that no successful ChannelBind bound")); }
                        if 4 + l > c.bytes.len() { fail.get_or_insert(format!("ChannelData length field {l} exceeds the {} bytes sent", c.bytes.len() - 4)); }
                        else {
                            let pad = c.bytes.len() - 4 - l;
                            if sc.tcp { if (4 + l + pad) % 4 != 0 || pad > 3 { fail.get_or_insert(format!("ChannelData over TCP must be padded to a multiple of 4 (length {l}, {pad} trailing bytes)")); } }
                            else if pad > 3 { fail.get_or_insert(format!("{pad} trailing bytes after the ChannelData payload")); }
                            let payload = &c.bytes[4..4 + l];
                            // the payload of a connectivity check is a STUN Binding request
                            let mut im = Message::new();
                            im.raw = payload.to_vec();
                            if im.decode().is_err() || im.typ.method != METHOD_BINDING { fail.get_or_insert("ChannelData payload is not the Binding request of the connectivity check".into()); }
                            // second implementation
                            let mut cd = turn::proto::chandata::ChannelData { raw: c.bytes.clone(), ..Default::default() };
                            match cd.decode() { Ok(()) => if cd.number.0 != ch || cd.data != payload { fail.get_or_insert("webrtc-rs turn reads another channel/payload".into()); },
                                Err(e) => { fail.get_or_insert(format!("webrtc-rs turn rejects the ChannelData message: {e}")); } }
                            let mut enc = turn::proto::chandata::ChannelData { data: payload.to_vec(), number: turn::proto::channum::ChannelNumber(ch), raw: vec![] };
                            enc.encode();
                            if enc.raw[..4 + l] != c.bytes[..4 + l] { fail.get_or_insert("webrtc-rs turn encodes this channel/payload differently".into()); }
                            term = format!("KChanData {} {} {}", ch, bytes_term(payload), bytes_term(&c.bytes));
                        }
                    }
                } else {
                    let mut m = Message::new();
                    m.raw = c.bytes.clone();
                    match m.decode() {
                        Err(e) => { what = "undecodable".into(); fail = Some(format!("webrtc-rs stun rejects a packet the TURN/STUN client sent: {e}")); }
                        Ok(()) => {
                            what = format!("{}", m.typ);
                            if let Err(e) = rfc_read(&c.bytes) { fail = Some(format!("not well-formed: {e}")); }
                            if m.contains(ATTR_FINGERPRINT) { if let Err(e) = stun::fingerprint::FINGERPRINT.check(&m) { fail = Some(format!("FINGERPRINT check fails: {e}")); } }
                            let realm_attr = m.get(ATTR_REALM).ok().and_then(|v| String::from_utf8(v).ok());
                            if m.contains(ATTR_MESSAGE_INTEGRITY) {
                                // RFC 5389 10.2.2 / 15.4: key = MD5(username ":" realm ":" password) with the REALM the request carries,
                                // which must be the realm of the latest challenge
                                if m.get(ATTR_USERNAME).ok().as_deref() != Some(sc.user.as_bytes()) || realm_attr.as_deref() != Some(c.realm.as_str()) || m.get(ATTR_NONCE).ok().as_deref() != Some(c.nonce.as_bytes()) {
                                    fail = Some(format!("authenticated request does not carry USERNAME / REALM / NONCE of the latest challenge (realm '{}', nonce '{}')", c.realm, c.nonce));
                                }
                                let li = stun::integrity::MessageIntegrity::new_long_term_integrity(sc.user.into(), c.realm.clone(), sc.pass.into());
                                if li.0 != md5(format!("{}:{}:{}", sc.user, c.realm, sc.pass).as_bytes()) { fail = Some("harness md5 and webrtc-rs long-term key differ".into()); }
                                if let Err(e) = li.check(&mut m) { fail.get_or_insert(format!("MESSAGE-INTEGRITY does not verify under MD5(user:'{}':pass), the long-term key for the realm of the latest challenge: {e}", c.realm)); }
                            }
                            let (u, r, n, pw) = (b(sc.user), b(&c.realm), b(&c.nonce), b(sc.pass));
                            let tx = bytes_term(&m.transaction_id.0);
                            let by = bytes_term(&c.bytes);
                            if m.typ.class == CLASS_REQUEST && m.typ.method == METHOD_BINDING { term = format!("KProbe {tx} {by}"); }
                            else if m.typ.class == CLASS_REQUEST && m.typ.method == METHOD_REFRESH && m.get(ATTR_LIFETIME).ok() == Some(vec![0, 0, 0, 0]) {
                                if !m.contains(ATTR_MESSAGE_INTEGRITY) { fail = Some("Refresh(0) without MESSAGE-INTEGRITY".into()); }
                                term = format!("KTurnDestroy {tx} {u} {r} {n} {pw} {by}");
                            } else if m.typ.class == CLASS_REQUEST && m.typ.method == METHOD_ALLOCATE {
                                if m.get(ATTR_REQUESTED_TRANSPORT).ok() != Some(vec![17, 0, 0, 0]) { fail = Some("Allocate without REQUESTED-TRANSPORT = UDP(17)".into()); }
                                if !m.contains(ATTR_FINGERPRINT) { fail = Some("Allocate without FINGERPRINT".into()); }
                                let i = c.alloc_index.unwrap_or(0);
                                if i == 0 { if m.contains(ATTR_MESSAGE_INTEGRITY) { fail = Some("first Allocate already authenticated".into()); } term = format!("KTurnPlain {tx} {by}"); }
                                else {
                                    n_auth_alloc += 1;
                                    if !m.contains(ATTR_MESSAGE_INTEGRITY) { fail = Some(format!("Allocate #{i} after a {} challenge carries no MESSAGE-INTEGRITY", sc.challenges[i - 1].0)); }
                                    // the whole challenge history goes to the model: request i is keyed by the realm of challenge i-1
                                    let hist = list_term(&sc.challenges.iter().take(i).map(|(_, r, n)| format!("({}, {})", b(r), b(n))).collect::<Vec<_>>());
                                    term = format!("KTurnAllocN {tx} {u} {pw} {hist} {by}");
                                }
                            } else if m.typ.class == CLASS_REQUEST && m.typ.method == METHOD_CREATE_PERMISSION {
                                n_perm += 1;
                                match ref_peer(&m) { Some(p) if sc.peers.iter().any(|q| sockaddr_eq(&q.parse().unwrap(), &p)) => term = format!("KTurnPerm {tx} {u} {r} {n} {pw} {} {by}", peer_term(&p)),
                                    other => fail = Some(format!("CreatePermission for {:?}, which is not a remote candidate", other)) }
                                if !m.contains(ATTR_MESSAGE_INTEGRITY) { fail = Some("CreatePermission without MESSAGE-INTEGRITY".into()); }
                            } else if m.typ.class == CLASS_REQUEST && m.typ.method == METHOD_CHANNEL_BIND {
                                n_bind += 1;
                                let cn = m.get(ATTR_CHANNEL_NUMBER).ok();
                                match (cn, ref_peer(&m)) {
                                    (Some(v), Some(p)) if v.len() == 4 => {
                                        let ch = u16::from_be_bytes([v[0], v[1]]);
                                        if !(0x4000..=0x7FFF).contains(&ch) { fail = Some(format!("ChannelBind with channel number {ch:#06x} outside 0x4000..0x7FFF")); }
                                        if v[2] != 0 || v[3] != 0 { fail = Some("CHANNEL-NUMBER RFFU bytes are not zero".into()); }
                                        if let Some(q) = bound.get(&ch) { if !sockaddr_eq(q, &p) { fail = Some(format!("channel {ch:#06x} is bound to {q} and requested again for {p}")); } }
                                        if bound.iter().any(|(k, q)| *k != ch && sockaddr_eq(q, &p)) { fail = Some(format!("{p} already has a channel and is bound to a second one")); }
                                        let mut rc = turn::proto::channum::ChannelNumber::default();
                                        use stun::message::Getter;
                                        if rc.get_from(&m).is_err() || rc.0 != ch { fail.get_or_insert("webrtc-rs turn reads another CHANNEL-NUMBER".into()); }
                                        if sc.bind_ok { bound.insert(ch, p); }
                                        if !bind_channels.contains(&ch) { bind_channels.push(ch); }
                                        // the n-th ChannelBind of a client uses channel 0x4000 + n (the model's next_channel sequence)
                                        term = format!("KTurnBind {tx} {} {} {u} {r} {n} {pw} {} {by}", n_bind - 1, ch, peer_term(&p));
                                    }
                                    _ => fail = Some("ChannelBind without CHANNEL-NUMBER / XOR-PEER-ADDRESS".into()),
                                }
                                if !m.contains(ATTR_MESSAGE_INTEGRITY) { fail = Some("ChannelBind without MESSAGE-INTEGRITY".into()); }
                            } else if m.typ.class == CLASS_INDICATION && m.typ.method == METHOD_SEND {
                                n_ind += 1;
                                let data = m.get(ATTR_DATA).ok();
                                match (ref_peer(&m), data) {
                                    (Some(p), Some(d)) => {
                                        if !sc.peers.iter().any(|q| sockaddr_eq(&q.parse().unwrap(), &p)) { fail = Some(format!("Send indication to {p}, not a remote candidate")); }
                                        let mut im = Message::new();
                                        im.raw = d.clone();
                                        if im.decode().is_err() || im.typ.method != METHOD_BINDING { fail = Some("Send indication DATA is not the Binding request of the connectivity check".into()); }
                                        let mut rd = turn::proto::data::Data::default();
                                        use stun::message::Getter;
                                        if rd.get_from(&m).is_err() || rd.0 != d { fail.get_or_insert("webrtc-rs turn reads another DATA".into()); }
                                        term = format!("KTurnSend {tx} {u} {r} {n} {pw} {} {} {by}", peer_term(&p), bytes_term(&d));
                                    }
                                    _ => fail = Some("Send indication without XOR-PEER-ADDRESS / DATA".into()),
                                }
                            }
                        }
                    }
                }
                *seen.entry(what.clone()).or_default() += 1;
                out.push(Case { term, desc: json!({"what": "packet captured from rustrtc's TURN/STUN client", "type": what, "bytes": hex(&c.bytes), "scenario": scj,
                        "latest challenge": {"realm": c.realm, "nonce": c.nonce}}),
                    oracle_fail: fail, known, nontrivial: true, key: format!("cap{}", hex(&c.bytes)), kind: "turn-capture".into() });
            }
            // ---- the TCP byte stream as a standard TURN server would read it (RFC 5389 7.2.2 / RFC 5766 2.1:
            // STUN messages are self-framed by their length field, ChannelData is padded to 4; nothing else is on the stream)
            if sc.tcp {
                let st = &o.raw_stream;
                let mut fail = None;
                let mut known = None;
                if st.len() < 20 { fail = Some("nothing was sent over the TCP connection".to_string()); }
                else {
                    let mlen = 20 + u16::from_be_bytes([st[2], st[3]]) as usize;
                    let rfc_first = st.get(..mlen).map(|m| rfc_read(m).is_ok()).unwrap_or(false);
                    if !rfc_first {
                        // listed finding class: every unit is prefixed with its 16-bit length (RFC 4571 style) and is otherwise a valid message
                        let flen = u16::from_be_bytes([st[0], st[1]]) as usize;
                        if st.len() >= 2 + flen && rfc_read(&st[2..2 + flen]).is_ok() { known = Some("turn_tcp_length_prefix".to_string()); }
                        else { fail = Some(format!("TCP stream starts with {}, neither a STUN message nor a length-prefixed one", hex(&st[..st.len().min(24)]))); }
                    }
                }
                let first_frame = if st.len() >= 2 { let n = u16::from_be_bytes([st[0], st[1]]) as usize; st.get(..2 + n).map(|f| (st[2..2 + n].to_vec(), f.to_vec())) } else { None };
                out.push(Case { term: first_frame.map(|(d, f)| format!("KTcpFrame {} {}", bytes_term(&d), bytes_term(&f))).unwrap_or("-".into()),
                    desc: json!({"what": "byte stream a real TurnClient wrote to a TURN/TCP server", "first bytes": hex(&st[..st.len().min(48)]), "scenario": scj}),
                    oracle_fail: fail, known, nontrivial: true, key: format!("tcp{}", sc.name), kind: "turn-capture-tcp".into() });
            }
            if !bind_channels.is_empty() {
                bind_channels.sort();
                // RFC 5766 11: channel numbers 0x4000..0x7FFF, one per peer
                let fail = if bind_channels.iter().any(|c| !(0x4000..=0x7FFF).contains(c)) { Some("channel number outside 0x4000..0x7FFF".to_string()) }
                    else if bind_channels.len() != sc.peers.len() { Some(format!("{} distinct channel numbers for {} peers", bind_channels.len(), sc.peers.len())) } else { None };
                out.push(Case { term: format!("KChanSeq {}", zlist(bind_channels.iter().map(|c| *c as i128))), desc: json!({"what": "channel numbers a TurnClient allocated", "channels": bind_channels, "scenario": scj}),
                    oracle_fail: fail, known: None, nontrivial: true, key: format!("chans{}", sc.name), kind: "turn-capture".into() });
            }
            // ---- public effects and completeness of the session
            let relayed: SocketAddr = sc.relayed.parse().unwrap();
            let relay = o.cands.iter().find(|c| c.typ == IceCandidateType::Relay);
            let mut fail = None;
            if n_auth_alloc != sc.challenges.len() { fail = Some(format!("{} authenticated Allocate requests for {} challenges", n_auth_alloc, sc.challenges.len())); }
            match relay { Some(c) => { if !sockaddr_eq(&c.address, &relayed) { fail = Some(format!("relay candidate {} but the server granted {}", c.address, relayed)); }
                    if c.priority as u64 != (0u64 << 24) + (65535 << 8) + 255 { fail = Some(format!("relay candidate priority {}", c.priority)); } }
                None => fail = Some("no relay candidate after a successful allocation".into()) }
            if !sc.peers.is_empty() {
                if n_perm < sc.peers.len() { fail.get_or_insert(format!("{} CreatePermission requests for {} remote candidates", n_perm, sc.peers.len())); }
                if n_bind < sc.peers.len() { fail.get_or_insert(format!("{} ChannelBind requests for {} remote candidates", n_bind, sc.peers.len())); }
                if sc.bind_ok && n_chan == 0 { fail.get_or_insert("no ChannelData although channels were bound".into()); }
                if !sc.bind_ok && n_ind == 0 { fail.get_or_insert("no Send indication although ChannelBind was refused".into()); }
            }
            out.push(Case { term: relay.map(|c| format!("KPrioT IceCandidateType_Relay {} {}", c.component, c.priority)).unwrap_or("-".into()),
                desc: json!({"what": "relay candidate / session through the scripted TURN server", "scenario": scj, "candidates": o.cands.iter().map(|c| c.to_sdp()).collect::<Vec<_>>(),
                    "captured": {"CreatePermission": n_perm, "ChannelBind": n_bind, "ChannelData": n_chan, "Send indication": n_ind}}),
                oracle_fail: fail, known: None, nontrivial: true, key: format!("relay{}", sc.name), kind: "turn-capture".into() });
            if !sc.relay_only && !sc.tcp {
                let mapped: SocketAddr = sc.mapped.parse().unwrap();
                let srflx = o.cands.iter().find(|c| c.typ == IceCandidateType::ServerReflexive);
                let mut fail = None;
                match srflx { Some(c) => { if !sockaddr_eq(&c.address, &mapped) { fail = Some(format!("srflx candidate {} but the server reported {}", c.address, mapped)); }
                        if c.priority as u64 != (100u64 << 24) + (65535 << 8) + 255 { fail = Some(format!("srflx candidate priority {}, RFC 8445 recommends type preference 100", c.priority)); } }
                    None => fail = Some("no server-reflexive candidate after a Binding success".into()) }
                out.push(Case { term: srflx.map(|c| format!("KPrioT IceCandidateType_ServerReflexive {} {}", c.component, c.priority)).unwrap_or("-".into()),
                    desc: json!({"what": "srflx candidate gathered through the scripted STUN server", "scenario": scj}),
                    oracle_fail: fail, known: None, nontrivial: true, key: format!("srflx{}", sc.name), kind: "turn-capture".into() });
            }
        }
        summary.insert("turn capture".into(), json!({"scenarios": scenarios.iter().map(|s| s.name).collect::<Vec<_>>(), "captured packet types": seen}));
    }
}

const COOKIE: u32 = 0x2112_A442;

fn hex(b: &[u8]) -> String {
    b.iter().map(|x| format!("{:02x}", x)).collect()
}

// ------------------------------------------------------------------------------------------------
// pair priority
// ------------------------------------------------------------------------------------------------
fn mk_cand(prio: u32) -> IceCandidate {
    let mut c = IceCandidate::host("192.0.2.1:1000".parse().unwrap(), 1);
    c.priority = prio;
    c
}

/// RFC 8445 6.1.2.3 evaluated in 128-bit arithmetic (G = controlling agent's candidate).
fn rfc_pair(g: u32, d: u32) -> u128 {
    let (g, d) = (g as u128, d as u128);
    (1u128 << 32) * g.min(d) + 2 * g.max(d) + if g > d { 1 } else { 0 }
}

fn real_pair(l: u32, r: u32, role: IceRole) -> Result<u64, String> {
    let p = IceCandidatePair::new(mk_cand(l), mk_cand(r));
    catch(move || p.priority(role))
}

fn pair_cases(out: &mut Out, r: &mut Rng, thorough: bool, dist: &mut BTreeMap<String, u64>) {
    let host1 = IceCandidate::host("192.0.2.1:1000".parse().unwrap(), 1).priority;
    let bounds: Vec<u32> = vec![0, 1, 2, 255, 256, 65535, 65536, (1 << 24) - 1, 1 << 24, host1 - 1, host1, host1 + 1,
        (1 << 31) - 2, (1 << 31) - 1, 1 << 31, (1 << 31) + 1, u32::MAX - 2, u32::MAX - 1, u32::MAX];
    let mut pairs: Vec<(u32, u32, &'static str)> = vec![];
    // corpus first: the former overflow witness (F25) and its neighbours
    pairs.push((u32::MAX, u32::MAX, "corpus"));
    pairs.push((u32::MAX, u32::MAX - 1, "corpus"));
    pairs.push((u32::MAX - 1, u32::MAX, "corpus"));
    for &a in &bounds { for &b in &bounds { pairs.push((a, b, "boundary")); } }
    let n = if thorough { 20000 } else { 4000 };
    for i in 0..n {
        let a = r.next() as u32;
        let b = match i % 4 { 0 => a, 1 => a.wrapping_add(1), 2 => a.wrapping_sub(1), _ => r.next() as u32 };
        let (a, b) = if i % 8 >= 4 { (a >> (r.below(32) as u32), b >> (r.below(32) as u32)) } else { (a, b) };
        pairs.push((a, b, "random"));
    }
    for chunk in pairs.chunks(40) {
        let mut items = vec![];
        let mut fail: Option<String> = None;
        let mut prev: Option<(u32, u32, u64, u64)> = None;
        for &(l, rr, _) in chunk {
            let c1 = real_pair(l, rr, IceRole::Controlling);
            let c2 = real_pair(l, rr, IceRole::Controlled);
            let m1 = real_pair(rr, l, IceRole::Controlled);
            let m2 = real_pair(rr, l, IceRole::Controlling);
            match (&c1, &c2, &m1, &m2) {
                (Ok(c1), Ok(c2), Ok(m1), Ok(m2)) => {
                    if c1 != m1 || c2 != m2 {
                        fail.get_or_insert(format!("pair ({l},{rr}): controlling view {c1} != peer's controlled view of the swapped pair {m1} (or {c2} != {m2})"));
                    }
                    // RFC value whenever it is representable
                    let v1 = rfc_pair(l, rr);
                    let v2 = rfc_pair(rr, l);
                    if v1 <= u64::MAX as u128 && *c1 as u128 != v1 { fail.get_or_insert(format!("pair ({l},{rr}) Controlling = {c1}, RFC 8445 value {v1}")); }
                    if v2 <= u64::MAX as u128 && *c2 as u128 != v2 { fail.get_or_insert(format!("pair ({l},{rr}) Controlled = {c2}, RFC 8445 value {v2}")); }
                    // both agents order this pair and the previous one identically, and never against the RFC order
                    if let Some((pl, pr, pc1, _pc2)) = prev {
                        let mine = pc1.cmp(c1);
                        let peer = real_pair(pr, pl, IceRole::Controlled).unwrap_or(0).cmp(m1);
                        if mine != peer { fail.get_or_insert(format!("pairs ({pl},{pr}) and ({l},{rr}) are ordered {mine:?} by the controlling and {peer:?} by the controlled agent")); }
                        let rfc = rfc_pair(pl, pr).cmp(&v1);
                        if (rfc == std::cmp::Ordering::Less && mine == std::cmp::Ordering::Greater) || (rfc == std::cmp::Ordering::Greater && mine == std::cmp::Ordering::Less) {
                            fail.get_or_insert(format!("pairs ({pl},{pr}) and ({l},{rr}) are ordered against the RFC 8445 order"));
                        }
                    }
                    prev = Some((l, rr, *c1, *c2));
                    items.push(format!("({}, {}, {}, {})", l, rr, c1, c2));
                }
                _ => {
                    fail.get_or_insert(format!("IceCandidatePair::priority panicked for local={l} remote={rr}: {:?} {:?}", c1.as_ref().err(), c2.as_ref().err()));
                    items.push(format!("({}, {}, (-1), (-1))", l, rr));
                }
            }
        }
        let kind = chunk[0].2;
        *dist.entry(format!("pair/{kind}")).or_default() += chunk.len() as u64;
        out.push(Case {
            term: format!("KPair {}", list_term(&items)),
            desc: json!({"what": "IceCandidatePair::priority", "pairs(local,remote)": chunk.iter().map(|x| json!([x.0, x.1])).collect::<Vec<_>>()}),
            oracle_fail: fail,
            known: None,
            nontrivial: true,
            key: format!("pair{:?}", chunk.iter().map(|x| (x.0, x.1)).collect::<Vec<_>>()),
            kind: format!("pair-{kind}"),
        });
    }
}

// ------------------------------------------------------------------------------------------------
// candidate priority (public constructors reach priority_for / priority_for_tcp for Host)
// ------------------------------------------------------------------------------------------------
fn prio_cases(out: &mut Out, r: &mut Rng, dist: &mut BTreeMap<String, u64>) {
    let addr: SocketAddr = "192.0.2.1:1000".parse().unwrap();
    let mut comps: Vec<u16> = (0..=300).collect();
    comps.extend_from_slice(&[511, 512, 1000, 32767, 32768, 65534, 65535]);
    for _ in 0..60 { comps.push(r.next() as u16); }
    for kind in 0..4u8 {
        for chunk in comps.chunks(64) {
            let mut items = vec![];
            let mut fail = None;
            for &c in chunk {
                let (p, lp) = match kind {
                    0 => (IceCandidate::host(addr, c).priority, 65535u64),
                    1 => (IceCandidate::host_tcp(addr, c, TcpType::Active).priority, 65534),
                    2 => (IceCandidate::host_tcp(addr, c, TcpType::Passive).priority, 65535),
                    _ => (IceCandidate::host_tcp(addr, c, TcpType::So).priority, 65533),
                };
                // RFC 8445 5.1.2.1 with the recommended host type preference 126; component ids are 1..=256
                if c >= 1 {
                    let want = (126u64 << 24) + (lp << 8) + (256 - (c.min(256) as u64));
                    if p as u64 != want { fail.get_or_insert(format!("host candidate kind {kind} component {c}: priority {p}, RFC 8445 formula gives {want}")); }
                    if p == 0 || p > 0x7fff_ffff { fail.get_or_insert(format!("priority {p} outside 1..2^31-1")); }
                }
                items.push(format!("({}, {})", c, p));
            }
            *dist.entry("prio".into()).or_default() += chunk.len() as u64;
            out.push(Case {
                term: format!("KPrio {} {}", kind, list_term(&items)),
                desc: json!({"what": "IceCandidate::host/host_tcp priority", "kind": kind, "components": chunk}),
                oracle_fail: fail, known: None, nontrivial: true,
                key: format!("prio{kind}{:?}", chunk), kind: "candidate-priority".into(),
            });
        }
    }
}

// ------------------------------------------------------------------------------------------------
// STUN
// ------------------------------------------------------------------------------------------------
const CLASSES: [StunClass; 4] = [StunClass::Request, StunClass::Indication, StunClass::SuccessResponse, StunClass::ErrorResponse];
const METHODS: [StunMethod; 7] = [StunMethod::Binding, StunMethod::Allocate, StunMethod::Refresh, StunMethod::CreatePermission,
    StunMethod::ChannelBind, StunMethod::Send, StunMethod::Data];

fn class_term(c: StunClass) -> &'static str {
    match c { StunClass::Request => "StunClass_Request", StunClass::Indication => "StunClass_Indication",
        StunClass::SuccessResponse => "StunClass_SuccessResponse", StunClass::ErrorResponse => "StunClass_ErrorResponse" }
}
fn method_term(m: StunMethod) -> &'static str {
    match m { StunMethod::Binding => "StunMethod_Binding", StunMethod::Allocate => "StunMethod_Allocate", StunMethod::Refresh => "StunMethod_Refresh",
        StunMethod::CreatePermission => "StunMethod_CreatePermission", StunMethod::ChannelBind => "StunMethod_ChannelBind",
        StunMethod::Send => "StunMethod_Send", StunMethod::Data => "StunMethod_Data" }
}
/// RFC 5389 fig. 3 / RFC 5766 method numbers, written from the RFCs (not from the code under test)
fn rfc_method(m: StunMethod) -> u16 {
    match m { StunMethod::Binding => 1, StunMethod::Allocate => 3, StunMethod::Refresh => 4, StunMethod::Send => 6, StunMethod::Data => 7,
        StunMethod::CreatePermission => 8, StunMethod::ChannelBind => 9 }
}
fn rfc_class(c: StunClass) -> u8 {
    match c { StunClass::Request => 0, StunClass::Indication => 1, StunClass::SuccessResponse => 2, StunClass::ErrorResponse => 3 }
}
fn ref_type(m: StunMethod, c: StunClass) -> stun::message::MessageType {
    use stun::message::*;
    let me = match m { StunMethod::Binding => METHOD_BINDING, StunMethod::Allocate => METHOD_ALLOCATE, StunMethod::Refresh => METHOD_REFRESH,
        StunMethod::Send => METHOD_SEND, StunMethod::Data => METHOD_DATA, StunMethod::CreatePermission => METHOD_CREATE_PERMISSION,
        StunMethod::ChannelBind => METHOD_CHANNEL_BIND };
    let cl = match c { StunClass::Request => CLASS_REQUEST, StunClass::Indication => CLASS_INDICATION,
        StunClass::SuccessResponse => CLASS_SUCCESS_RESPONSE, StunClass::ErrorResponse => CLASS_ERROR_RESPONSE };
    MessageType::new(me, cl)
}

fn addr_term(a: &SocketAddr) -> String {
    match a {
        SocketAddr::V4(v) => format!("(V4 {} {})", bytes_term(&v.ip().octets()), v.port()),
        SocketAddr::V6(v) => format!("(V6 {} {})", bytes_term(&v.ip().octets()), v.port()),
    }
}
fn attr_term(a: &StunAttribute) -> String {
    match a {
        StunAttribute::Username(s) => format!("AUsername {}", bytes_term(s.as_bytes())),
        StunAttribute::Realm(s) => format!("ARealm {}", bytes_term(s.as_bytes())),
        StunAttribute::Nonce(s) => format!("ANonce {}", bytes_term(s.as_bytes())),
        StunAttribute::Software(s) => format!("ASoftware {}", bytes_term(s.as_bytes())),
        StunAttribute::RequestedTransport(v) => format!("ARequestedTransport {}", v),
        StunAttribute::Lifetime(v) => format!("ALifetime {}", v),
        StunAttribute::Priority(v) => format!("APriority {}", v),
        StunAttribute::IceControlling(v) => format!("AIceControlling {}", v),
        StunAttribute::IceControlled(v) => format!("AIceControlled {}", v),
        StunAttribute::UseCandidate => "AUseCandidate".into(),
        StunAttribute::XorPeerAddress(a) => format!("AXorPeer {}", addr_term(a)),
        StunAttribute::XorMappedAddress(a) => format!("AXorMapped {}", addr_term(a)),
        StunAttribute::ChannelNumber(v) => format!("AChannelNumber {}", v),
        StunAttribute::Data(d) => format!("AData {}", bytes_term(d)),
    }
}
fn msg_term(m: &StunMessage) -> String {
    format!("(mkMsg {} {} {} {})", class_term(m.class), method_term(m.method), bytes_term(&m.transaction_id),
        list_term(&m.attributes.iter().map(attr_term).collect::<Vec<_>>()))
}
fn decoded_term(d: &Result<StunDecoded, String>) -> String {
    match d {
        Ok(d) => format!("(DOk (mkDec {} {} {} {} {} {} {} {} {} {} {} {}))", class_term(d.class), method_term(d.method), bytes_term(&d.transaction_id),
            opt_term(d.xor_mapped_address.as_ref().map(addr_term)), opt_term(d.xor_relayed_address.as_ref().map(addr_term)),
            opt_term(d.xor_peer_address.as_ref().map(addr_term)), opt_term(d.error_code.map(|c| c.to_string())),
            opt_term(d.realm.as_ref().map(|s| bytes_term(s.as_bytes()))), opt_term(d.nonce.as_ref().map(|s| bytes_term(s.as_bytes()))),
            opt_term(d.data.as_ref().map(|s| bytes_term(s))), bool_term(d.use_candidate), opt_term(d.lifetime.map(|c| c.to_string()))),
        Err(e) => format!("(DErr {})", if e.contains("too short") { "ETooShort" } else if e.contains("length mismatch") { "ELengthMismatch" }
            else if e.contains("method") { "EMethod" } else if e.contains("class") { "EClass" } else { "EOther" }),
    }
}

/// attribute type and value as RFC 5389 / 5766 / 8445 define them (independent of the code under test)
fn rfc_attr(a: &StunAttribute, txid: &[u8; 12]) -> (u16, Vec<u8>) {
    fn xor(a: &SocketAddr, txid: &[u8; 12]) -> Vec<u8> {
        let mut pad = COOKIE.to_be_bytes().to_vec();
        pad.extend_from_slice(txid);
        let mut v = vec![0u8];
        let (fam, ip): (u8, Vec<u8>) = match a.ip() { IpAddr::V4(i) => (1, i.octets().to_vec()), IpAddr::V6(i) => (2, i.octets().to_vec()) };
        v.push(fam);
        v.extend_from_slice(&(a.port() ^ 0x2112).to_be_bytes());
        for (i, b) in ip.iter().enumerate() { v.push(b ^ pad[i]); }
        v
    }
    match a {
        StunAttribute::Username(s) => (0x0006, s.as_bytes().to_vec()),
        StunAttribute::Realm(s) => (0x0014, s.as_bytes().to_vec()),
        StunAttribute::Nonce(s) => (0x0015, s.as_bytes().to_vec()),
        StunAttribute::Software(s) => (0x8022, s.as_bytes().to_vec()),
        StunAttribute::RequestedTransport(v) => (0x0019, vec![*v, 0, 0, 0]),
        StunAttribute::Lifetime(v) => (0x000D, v.to_be_bytes().to_vec()),
        StunAttribute::Priority(v) => (0x0024, v.to_be_bytes().to_vec()),
        StunAttribute::IceControlling(v) => (0x802A, v.to_be_bytes().to_vec()),
        StunAttribute::IceControlled(v) => (0x8029, v.to_be_bytes().to_vec()),
        StunAttribute::UseCandidate => (0x0025, vec![]),
        StunAttribute::XorPeerAddress(a) => (0x0012, xor(a, txid)),
        StunAttribute::XorMappedAddress(a) => (0x0020, xor(a, txid)),
        StunAttribute::ChannelNumber(v) => (0x000C, vec![(v >> 8) as u8, *v as u8, 0, 0]),
        StunAttribute::Data(d) => (0x0013, d.clone()),
    }
}

fn hmac_sha1(key: &[u8], data: &[u8]) -> Vec<u8> {
    use hmac::{Hmac, KeyInit, Mac};
    let mut m = <Hmac<sha1::Sha1> as KeyInit>::new_from_slice(key).unwrap();
    m.update(data);
    m.finalize().into_bytes().to_vec()
}
fn md5(data: &[u8]) -> Vec<u8> {
    use md5::Digest;
    let mut h = md5::Md5::new();
    h.update(data);
    h.finalize().to_vec()
}

/// independent RFC 5389 reader: header + TLVs with padding, returns (type, txid, attrs) or a complaint
fn rfc_read(b: &[u8]) -> Result<(u16, [u8; 12], Vec<(u16, Vec<u8>, usize)>), String> {
    if b.len() < 20 { return Err("shorter than a header".into()); }
    if b[0] & 0xC0 != 0 { return Err("two most significant bits are not zero".into()); }
    let len = u16::from_be_bytes([b[2], b[3]]) as usize;
    if len % 4 != 0 { return Err(format!("message length {len} is not a multiple of 4")); }
    if len + 20 != b.len() { return Err(format!("header length {len} != total {} - 20", b.len())); }
    if b[4..8] != COOKIE.to_be_bytes() { return Err("magic cookie".into()); }
    let mut txid = [0u8; 12];
    txid.copy_from_slice(&b[8..20]);
    let mut off = 20;
    let mut attrs = vec![];
    while off < b.len() {
        if off + 4 > b.len() { return Err("truncated attribute header".into()); }
        let t = u16::from_be_bytes([b[off], b[off + 1]]);
        let l = u16::from_be_bytes([b[off + 2], b[off + 3]]) as usize;
        let padded = (l + 3) / 4 * 4;
        if off + 4 + padded > b.len() { return Err(format!("attribute {t:#06x} of length {l} runs past the end")); }
        attrs.push((t, b[off + 4..off + 4 + l].to_vec(), off));
        off += 4 + padded;
    }
    Ok((u16::from_be_bytes([b[0], b[1]]), txid, attrs))
}

fn rfc_msg_type(m: StunMethod, c: StunClass) -> u16 {
    let me = rfc_method(m);
    let cl = rfc_class(c) as u16;
    (me & 0x000f) | ((me & 0x0070) << 1) | ((me & 0x0f80) << 2) | ((cl & 1) << 4) | ((cl & 2) << 7)
}

fn sockaddr_eq(a: &SocketAddr, b: &SocketAddr) -> bool { a.ip() == b.ip() && a.port() == b.port() }

/// the property predicate for one encoded message
fn encode_oracle(m: &StunMessage, key: Option<&[u8]>, fp: bool, bytes: &[u8]) -> Option<String> {
    // (a) RFC framing, attributes in order with their RFC values
    let (ty, txid, attrs) = match rfc_read(bytes) { Ok(x) => x, Err(e) => return Some(format!("not a well-formed STUN message: {e}")) };
    if ty != rfc_msg_type(m.method, m.class) { return Some(format!("message type {ty:#06x}, RFC value {:#06x}", rfc_msg_type(m.method, m.class))); }
    if txid != m.transaction_id { return Some("transaction id differs".into()); }
    let mut want: Vec<(u16, Vec<u8>)> = m.attributes.iter().map(|a| rfc_attr(a, &m.transaction_id)).collect();
    let n_body = want.len();
    if key.is_some() { want.push((0x0008, vec![])); }
    if fp { want.push((0x8028, vec![])); }
    if attrs.len() != want.len() { return Some(format!("{} attributes on the wire, {} expected", attrs.len(), want.len())); }
    for (i, ((t, v, _), (wt, wv))) in attrs.iter().zip(want.iter()).enumerate() {
        if t != wt { return Some(format!("attribute {i} has type {t:#06x}, expected {wt:#06x}")); }
        if i < n_body && v != wv { return Some(format!("attribute {i} ({t:#06x}) value {} expected {}", hex(v), hex(wv))); }
    }
    // (b) MESSAGE-INTEGRITY per RFC 5389 15.4, FINGERPRINT per 15.5
    if let Some(k) = key {
        let (_, v, off) = &attrs[n_body];
        let mut pre = bytes[..*off].to_vec();
        let l = (*off - 20 + 24) as u16;
        pre[2..4].copy_from_slice(&l.to_be_bytes());
        if *v != hmac_sha1(k, &pre) { return Some("MESSAGE-INTEGRITY is not HMAC-SHA1(key, message up to MI with length covering MI)".into()); }
    }
    if fp {
        let (_, v, off) = attrs.last().unwrap();
        let mut h = crc32fast::Hasher::new();
        h.update(&bytes[..*off]);
        let want = h.finalize() ^ 0x5354_554e;
        if *v != want.to_be_bytes() { return Some("FINGERPRINT is not CRC-32(message up to FINGERPRINT) xor 0x5354554e".into()); }
    }
    // (c) the second implementation accepts it with the same content
    let mut rm = stun::message::Message::new();
    rm.raw = bytes.to_vec();
    if let Err(e) = rm.decode() { return Some(format!("webrtc-rs stun rejects the message: {e}")); }
    if rm.typ != ref_type(m.method, m.class) { return Some(format!("webrtc-rs stun reads type {}", rm.typ)); }
    if rm.transaction_id.0 != m.transaction_id { return Some("webrtc-rs stun reads another transaction id".into()); }
    if rm.attributes.0.len() != want.len() { return Some("webrtc-rs stun reads another number of attributes".into()); }
    for (i, (ra, (wt, wv))) in rm.attributes.0.iter().zip(want.iter()).enumerate() {
        if ra.typ.value() != *wt || (i < n_body && ra.value != *wv) { return Some(format!("webrtc-rs stun reads attribute {i} as {:#06x} {}", ra.typ.value(), hex(&ra.value))); }
    }
    if let Some(k) = key {
        if let Err(e) = stun::integrity::MessageIntegrity(k.to_vec()).check(&mut rm) { return Some(format!("webrtc-rs stun: MESSAGE-INTEGRITY check fails: {e}")); }
    }
    if fp {
        if let Err(e) = stun::fingerprint::FINGERPRINT.check(&rm) { return Some(format!("webrtc-rs stun: FINGERPRINT check fails: {e}")); }
    }
    for a in &m.attributes {
        let (t, addr) = match a { StunAttribute::XorMappedAddress(x) => (stun::attributes::ATTR_XORMAPPED_ADDRESS, x),
            StunAttribute::XorPeerAddress(x) => (stun::attributes::ATTR_XOR_PEER_ADDRESS, x), _ => continue };
        // the reference getter returns the first attribute of the type
        let first = m.attributes.iter().find_map(|b| match (a, b) {
            (StunAttribute::XorMappedAddress(_), StunAttribute::XorMappedAddress(y)) => Some(y),
            (StunAttribute::XorPeerAddress(_), StunAttribute::XorPeerAddress(y)) => Some(y), _ => None }).unwrap();
        let mut x = stun::xoraddr::XorMappedAddress::default();
        if let Err(e) = x.get_from_as(&rm, t) { return Some(format!("webrtc-rs stun cannot read the XOR address: {e}")); }
        if x.ip != first.ip() || x.port != first.port() { return Some(format!("webrtc-rs stun reads XOR address {}:{} for {}", x.ip, x.port, first)); }
        let _ = addr;
    }
    // (d) rustrtc's own decoder returns what was put in
    match catch(|| StunMessage::decode(bytes)) {
        Err(p) => return Some(format!("decode panicked: {p}")),
        Ok(Err(e)) => return Some(format!("rustrtc does not decode its own message: {e}")),
        Ok(Ok(d)) => {
            if d.class != m.class || d.method != m.method || d.transaction_id != m.transaction_id { return Some("decode(encode m) has another class/method/transaction id".into()); }
            let any = |f: &dyn Fn(&StunAttribute) -> bool| m.attributes.iter().any(|a| f(a));
            match &d.xor_mapped_address { Some(x) => if !any(&|a| matches!(a, StunAttribute::XorMappedAddress(y) if sockaddr_eq(x, y))) { return Some(format!("decoded XOR-MAPPED-ADDRESS {x} was never encoded")); },
                None => if any(&|a| matches!(a, StunAttribute::XorMappedAddress(_))) { return Some("XOR-MAPPED-ADDRESS lost".into()); } }
            match &d.xor_peer_address { Some(x) => if !any(&|a| matches!(a, StunAttribute::XorPeerAddress(y) if sockaddr_eq(x, y))) { return Some(format!("decoded XOR-PEER-ADDRESS {x} was never encoded")); },
                None => if any(&|a| matches!(a, StunAttribute::XorPeerAddress(_))) { return Some("XOR-PEER-ADDRESS lost".into()); } }
            if d.xor_relayed_address.is_some() || d.error_code.is_some() { return Some("decoded an attribute that was never encoded".into()); }
            match &d.realm { Some(x) => if !any(&|a| matches!(a, StunAttribute::Realm(y) if x == y)) { return Some("decoded REALM differs".into()); },
                None => if any(&|a| matches!(a, StunAttribute::Realm(_))) { return Some("REALM lost".into()); } }
            match &d.nonce { Some(x) => if !any(&|a| matches!(a, StunAttribute::Nonce(y) if x == y)) { return Some("decoded NONCE differs".into()); },
                None => if any(&|a| matches!(a, StunAttribute::Nonce(_))) { return Some("NONCE lost".into()); } }
            match &d.data { Some(x) => if !any(&|a| matches!(a, StunAttribute::Data(y) if x == y)) { return Some("decoded DATA differs".into()); },
                None => if any(&|a| matches!(a, StunAttribute::Data(_))) { return Some("DATA lost".into()); } }
            match &d.lifetime { Some(x) => if !any(&|a| matches!(a, StunAttribute::Lifetime(y) if x == y)) { return Some("decoded LIFETIME differs".into()); },
                None => if any(&|a| matches!(a, StunAttribute::Lifetime(_))) { return Some("LIFETIME lost".into()); } }
            if d.use_candidate != any(&|a| matches!(a, StunAttribute::UseCandidate)) { return Some("USE-CANDIDATE flag differs".into()); }
        }
    }
    None
}

struct StunGen { lens: BTreeMap<String, u64>, attrs: BTreeMap<String, u64>, keys: BTreeMap<String, u64>, fam: BTreeMap<String, u64> }

fn gen_text(r: &mut Rng, g: &mut StunGen) -> String {
    let n = match r.below(10) {
        0 => *r.pick(&[0usize, 1, 2, 3, 4, 5, 7, 8, 9]),
        1 => *r.pick(&[127usize, 128, 129, 255, 256, 257, 511, 513, 760, 761, 762, 763]),
        2..=6 => r.range(0, 40) as usize,
        _ => r.range(0, 763) as usize,
    };
    *g.lens.entry(format!("mod4={}", n % 4)).or_default() += 1;
    let mut s = String::new();
    let alphabet: Vec<char> = "abcXYZ019:-_/+ é€𐍈".chars().collect();
    while s.len() < n {
        let c = *r.pick(&alphabet);
        if s.len() + c.len_utf8() <= n { s.push(c); } else { s.push('x'); }
    }
    s
}
fn gen_addr(r: &mut Rng, g: &mut StunGen) -> SocketAddr {
    let port = match r.below(6) { 0 => 0, 1 => 65535, 2 => 0x2112, _ => r.next() as u16 };
    if r.chance(1, 2) {
        *g.fam.entry("v4".into()).or_default() += 1;
        let ip = match r.below(6) { 0 => [0, 0, 0, 0], 1 => [255; 4], 2 => [0x21, 0x12, 0xA4, 0x42], _ => (r.next() as u32).to_be_bytes() };
        SocketAddr::new(IpAddr::V4(Ipv4Addr::from(ip)), port)
    } else {
        *g.fam.entry("v6".into()).or_default() += 1;
        let mut ip = [0u8; 16];
        match r.below(6) { 0 => {}, 1 => ip = [255; 16], 2 => { ip[10] = 0xff; ip[11] = 0xff; ip[12] = 192; ip[15] = 1; }, _ => { for b in ip.iter_mut() { *b = r.next() as u8; } } }
        SocketAddr::new(IpAddr::V6(Ipv6Addr::from(ip)), port)
    }
}
fn gen_attr(r: &mut Rng, g: &mut StunGen) -> StunAttribute {
    let k = r.below(14);
    let a = match k {
        0 => StunAttribute::Username(gen_text(r, g)),
        1 => StunAttribute::Realm(gen_text(r, g)),
        2 => StunAttribute::Nonce(gen_text(r, g)),
        3 => StunAttribute::Software(gen_text(r, g)),
        4 => StunAttribute::RequestedTransport(*r.pick(&[17u8, 6, 0, 255])),
        5 => StunAttribute::Lifetime(*r.pick(&[0u32, 600, 3600, u32::MAX, 0x01020304])),
        6 => StunAttribute::Priority(r.next() as u32),
        7 => StunAttribute::IceControlling(r.next()),
        8 => StunAttribute::IceControlled(if r.chance(1, 4) { u64::MAX } else { r.next() }),
        9 => StunAttribute::UseCandidate,
        10 => StunAttribute::XorPeerAddress(gen_addr(r, g)),
        11 => StunAttribute::XorMappedAddress(gen_addr(r, g)),
        12 => StunAttribute::ChannelNumber(*r.pick(&[0x4000u16, 0x7FFF, 0, 0xFFFF, 0x4001])),
        _ => { let n = match r.below(4) { 0 => r.range(0, 9) as usize, 1 => r.range(0, 763) as usize, _ => r.range(0, 64) as usize };
               *g.lens.entry(format!("mod4={}", n % 4)).or_default() += 1; StunAttribute::Data(r.bytes(n)) }
    };
    *g.attrs.entry(format!("{:?}", std::mem::discriminant(&a)).replace("Discriminant", "") + &format!("#{k}")).or_default() += 1;
    a
}
fn gen_key(r: &mut Rng, g: &mut StunGen) -> Option<Vec<u8>> {
    let (name, k) = match r.below(6) {
        0 => ("none", None),
        1 | 2 => ("short-term", Some({ let n = r.range(1, 40) as usize; r.bytes(n) })),
        3 => ("short-term>64", Some({ let n = r.range(65, 130) as usize; r.bytes(n) })),
        _ => ("long-term(md5 user:realm:pass)", Some({
            let u = format!("user{}", r.below(1000)); let realm = format!("realm{}.example", r.below(100)); let p = format!("pw{}", r.next());
            md5(format!("{u}:{realm}:{p}").as_bytes()) })),
    };
    *g.keys.entry(name.into()).or_default() += 1;
    k
}

fn stun_encode_case(out: &mut Out, m: &StunMessage, key: Option<Vec<u8>>, fp: bool, kind: &str) -> Option<Vec<u8>> {
    let mm = m.clone();
    let kk = key.clone();
    let res = catch(move || mm.encode(kk.as_deref(), fp));
    let desc = json!({"what": "StunMessage::encode", "class": format!("{:?}", m.class), "method": format!("{:?}", m.method), "txid": hex(&m.transaction_id),
        "attributes": m.attributes.iter().map(|a| format!("{:?}", a)).collect::<Vec<_>>(), "key": key.as_ref().map(|k| hex(k)), "fingerprint": fp});
    let keyt = opt_term(key.as_ref().map(|k| bytes_term(k)));
    match res {
        Ok(Ok(bytes)) => {
            let fail = encode_oracle(m, key.as_deref(), fp, &bytes);
            out.push(Case { term: format!("KEnc {} {} {} {}", msg_term(m), keyt, bool_term(fp), bytes_term(&bytes)),
                desc, oracle_fail: fail, known: None, nontrivial: !m.attributes.is_empty() || key.is_some() || fp,
                key: format!("enc{}", hex(&bytes)), kind: kind.into() });
            Some(bytes)
        }
        Ok(Err(e)) => { out.push(Case { term: "-".into(), desc, oracle_fail: Some(format!("encode returned an error: {e}")), known: None, nontrivial: false, key: "enc-err".into(), kind: kind.into() }); None }
        Err(p) => { out.push(Case { term: "-".into(), desc, oracle_fail: Some(format!("encode panicked: {p}")), known: None, nontrivial: false, key: "enc-panic".into(), kind: kind.into() }); None }
    }
}

fn stun_decode_case(out: &mut Out, bytes: &[u8], kind: &str, expect: Option<&dyn Fn(&StunDecoded) -> Option<String>>) {
    let b2 = bytes.to_vec();
    let res = catch(move || StunMessage::decode(&b2).map_err(|e| e.to_string()));
    let (fail, term) = match &res {
        Err(p) => (Some(format!("decode panicked: {p}")), "-".to_string()),
        Ok(r) => {
            let f = match (r, expect) { (Ok(d), Some(f)) => f(d), (Err(e), Some(_)) => Some(format!("a message built by webrtc-rs stun is rejected: {e}")), _ => None };
            (f, format!("KDec {} {}", bytes_term(bytes), decoded_term(r)))
        }
    };
    out.push(Case { term, desc: json!({"what": "StunMessage::decode", "bytes": hex(bytes), "impl": format!("{:?}", res).chars().take(400).collect::<String>()}),
        oracle_fail: fail, known: None, nontrivial: matches!(res, Ok(Ok(_))), key: format!("dec{}", hex(bytes)), kind: kind.into() });
}

/// a message built by the second implementation; returns its bytes and the values put in
struct RefBuilt { bytes: Vec<u8>, method: StunMethod, class: StunClass, txid: [u8; 12], mapped: Option<SocketAddr>, relayed: Option<SocketAddr>,
    peer: Option<SocketAddr>, error: Option<u16>, realm: Option<String>, nonce: Option<String>, data: Option<Vec<u8>>, use_candidate: bool, lifetime: Option<u32> }

fn ref_build(r: &mut Rng, g: &mut StunGen) -> RefBuilt {
    use stun::attributes::*;
    use stun::message::{Message, Setter};
    let method = *r.pick(&METHODS);
    let class = *r.pick(&CLASSES);
    let mut txid = [0u8; 12];
    for b in txid.iter_mut() { *b = r.next() as u8; }
    let mut m = Message::new();
    m.typ = ref_type(method, class);
    m.transaction_id = stun::agent::TransactionId(txid);
    m.write_header();
    let mut rb = RefBuilt { bytes: vec![], method, class, txid, mapped: None, relayed: None, peer: None, error: None, realm: None, nonce: None, data: None, use_candidate: false, lifetime: None };
    let mut kinds: Vec<u64> = (0..12).collect();
    // each exposed attribute at most once, random subset and order
    for i in (1..kinds.len()).rev() { let j = r.below(i as u64 + 1) as usize; kinds.swap(i, j); }
    let n = r.range(0, 7) as usize;
    for &k in kinds.iter().take(n) {
        match k {
            0 => { let a = gen_addr(r, g); stun::xoraddr::XorMappedAddress { ip: a.ip(), port: a.port() }.add_to_as(&mut m, ATTR_XORMAPPED_ADDRESS).unwrap(); rb.mapped = Some(a); }
            1 => { let a = gen_addr(r, g); stun::xoraddr::XorMappedAddress { ip: a.ip(), port: a.port() }.add_to_as(&mut m, ATTR_XOR_RELAYED_ADDRESS).unwrap(); rb.relayed = Some(a); }
            2 => { let a = gen_addr(r, g); stun::xoraddr::XorMappedAddress { ip: a.ip(), port: a.port() }.add_to_as(&mut m, ATTR_XOR_PEER_ADDRESS).unwrap(); rb.peer = Some(a); }
            3 => { let code = *r.pick(&[300u16, 400, 401, 403, 420, 437, 438, 441, 486, 487, 500, 508, 699]); let reason = gen_text(r, g);
                   stun::error_code::ErrorCodeAttribute { code: stun::error_code::ErrorCode(code), reason: reason.into_bytes() }.add_to(&mut m).unwrap(); rb.error = Some(code); }
            4 => { let s = gen_text(r, g); stun::textattrs::TextAttribute::new(ATTR_REALM, s.clone()).add_to(&mut m).unwrap(); rb.realm = Some(s); }
            5 => { let s = gen_text(r, g); stun::textattrs::TextAttribute::new(ATTR_NONCE, s.clone()).add_to(&mut m).unwrap(); rb.nonce = Some(s); }
            6 => { let n = r.range(0, 200) as usize; let d = r.bytes(n); m.add(ATTR_DATA, &d); rb.data = Some(d); }
            7 => { m.add(ATTR_USE_CANDIDATE, &[]); rb.use_candidate = true; }
            8 => { let v = *r.pick(&[0u32, 1, 600, 3600, u32::MAX]); m.add(ATTR_LIFETIME, &v.to_be_bytes()); rb.lifetime = Some(v); }
            9 => { let s = gen_text(r, g); stun::textattrs::TextAttribute::new(ATTR_SOFTWARE, s).add_to(&mut m).unwrap(); }
            10 => { m.add(ATTR_PRIORITY, &(r.next() as u32).to_be_bytes()); }
            _ => { let n = r.range(0, 9) as usize; m.add(AttrType(0x8000 | (r.next() as u16 & 0x0fff) | 0x0100), &r.bytes(n)); }
        }
    }
    if r.chance(2, 3) {
        let key = gen_key(r, g).unwrap_or_else(|| b"pw".to_vec());
        stun::integrity::MessageIntegrity(key).add_to(&mut m).unwrap();
    }
    if r.chance(2, 3) { stun::fingerprint::FINGERPRINT.add_to(&mut m).unwrap(); }
    rb.bytes = m.raw.clone();
    rb
}

fn mutate(r: &mut Rng, b: &[u8]) -> (Vec<u8>, &'static str) {
    let mut v = b.to_vec();
    match r.below(9) {
        0 => { let n = r.below(v.len() as u64 + 1) as usize; v.truncate(n); (v, "truncate") }
        1 => { let n = r.range(1, 8) as usize; v.extend(r.bytes(n)); (v, "extend") }
        2 => { if !v.is_empty() { let i = r.below(v.len().min(4) as u64) as usize; v[i] ^= 1 << r.below(8); } (v, "flip-header") }
        3 => { if v.len() > 24 { let i = 20 + r.below(4) as usize; v[i] ^= 1 << r.below(8); } (v, "flip-first-attr-header") }
        4 => { if v.len() > 20 { let i = r.below(v.len() as u64) as usize; v[i] = r.next() as u8; } (v, "random-byte") }
        5 => { // truncate and fix the header length: attribute runs past the end
               if v.len() > 24 { let n = 20 + r.below((v.len() - 20) as u64) as usize; v.truncate(n); let l = (n - 20) as u16; v[2..4].copy_from_slice(&l.to_be_bytes()); } (v, "truncate-fixlen") }
        6 => { if v.len() > 24 { v[22] = 0xff; v[23] = 0xff; } (v, "huge-attr-len") }
        7 => { if v.len() >= 2 { v[0] = r.next() as u8 & 0x3f; v[1] = r.next() as u8; } (v, "random-type") }
        _ => { let n = r.range(0, 64) as usize; (r.bytes(n), "random-bytes") }
    }
}

fn stun_cases(out: &mut Out, r: &mut Rng, thorough: bool, summary: &mut serde_json::Map<String, serde_json::Value>) {
    let mut g = StunGen { lens: BTreeMap::new(), attrs: BTreeMap::new(), keys: BTreeMap::new(), fam: BTreeMap::new() };
    let mut pool: Vec<Vec<u8>> = vec![];
    // ---- corpus: the messages of the repo's own tests, RFC 5769-style shapes, every method x class, every single attribute
    let tx = [1u8; 12];
    let mut m = StunMessage::binding_request(tx, Some("rustrtc"));
    m.attributes.push(StunAttribute::Username("remote:local".into()));
    m.attributes.push(StunAttribute::Priority(12345));
    m.attributes.push(StunAttribute::IceControlling(999));
    if let Some(b) = stun_encode_case(out, &m, Some(b"password".to_vec()), true, "stun-corpus") { pool.push(b); }
    for &me in &METHODS { for &cl in &CLASSES {
        let m = StunMessage { class: cl, method: me, transaction_id: [0xab; 12], attributes: vec![] };
        for (k, fp) in [(None, false), (Some(b"k".to_vec()), true)] { if let Some(b) = stun_encode_case(out, &m, k, fp, "stun-corpus") { pool.push(b); } }
    } }
    let v4: SocketAddr = "192.0.2.1:32853".parse().unwrap();
    let v6: SocketAddr = "[2001:db8:1234:5678:11:2233:4455:6677]:32853".parse().unwrap();
    let singles = vec![StunAttribute::Username("evtj:h6vY".into()), StunAttribute::Realm("example.org".into()), StunAttribute::Nonce("f//499k954d6OL34oL9FSTvy64sA".into()),
        StunAttribute::Software("STUN test client".into()), StunAttribute::RequestedTransport(17), StunAttribute::Lifetime(600), StunAttribute::Priority(0x6e0001ff),
        StunAttribute::IceControlling(0x932ff9b151263b36), StunAttribute::IceControlled(1), StunAttribute::UseCandidate, StunAttribute::XorPeerAddress(v4), StunAttribute::XorPeerAddress(v6),
        StunAttribute::XorMappedAddress(v4), StunAttribute::XorMappedAddress(v6), StunAttribute::ChannelNumber(0x4000), StunAttribute::Data(vec![1, 2, 3, 4, 5]),
        StunAttribute::Username(String::new()), StunAttribute::Data(vec![])];
    for a in singles {
        let m = StunMessage { class: StunClass::Request, method: StunMethod::Allocate, transaction_id: [0xb7, 0xe7, 0xa7, 0x01, 0xbc, 0x34, 0xd6, 0x86, 0xfa, 0x87, 0xdf, 0xae], attributes: vec![a] };
        for (k, fp) in [(None, false), (Some(b"VOkJxbRl1RmTxUk/WvJxBt".to_vec()), true), (Some(md5(b"user:realm:pass")), false)] {
            if let Some(b) = stun_encode_case(out, &m, k, fp, "stun-corpus") { pool.push(b); }
        }
    }
    // every text length 0..=16 and the documented maximum 763, to hit every padding residue
    for n in (0..=16usize).chain([760, 761, 762, 763]) {
        let m = StunMessage { class: StunClass::Request, method: StunMethod::Binding, transaction_id: [7; 12], attributes: vec![StunAttribute::Software("s".repeat(n)), StunAttribute::Data(vec![0xEE; n])] };
        if let Some(b) = stun_encode_case(out, &m, Some(b"pw".to_vec()), true, "stun-corpus") { pool.push(b); }
    }
    // ---- generated messages
    let n = if thorough { 6000 } else { 900 };
    for i in 0..n {
        let na = match r.below(8) { 0 => 0, 1 => 1, 7 => r.range(6, 12), _ => r.range(2, 5) } as usize;
        let mut txid = [0u8; 12];
        for b in txid.iter_mut() { *b = r.next() as u8; }
        let m = StunMessage { class: CLASSES[i % 4], method: METHODS[(i / 4) % 7], transaction_id: txid, attributes: (0..na).map(|_| gen_attr(r, &mut g)).collect() };
        let key = gen_key(r, &mut g);
        let fp = r.chance(2, 3);
        if let Some(b) = stun_encode_case(out, &m, key, fp, "stun-encode") { if i % 3 == 0 { pool.push(b); } }
    }
    // ---- messages built by webrtc-rs stun, decoded by rustrtc
    let n = if thorough { 4000 } else { 700 };
    for _ in 0..n {
        let rb = ref_build(r, &mut g);
        let check = |d: &StunDecoded| -> Option<String> {
            if d.method != rb.method || d.class != rb.class || d.transaction_id != rb.txid { return Some("method/class/transaction id differ from what webrtc-rs stun encoded".into()); }
            let ae = |a: &Option<SocketAddr>, b: &Option<SocketAddr>| match (a, b) { (Some(x), Some(y)) => sockaddr_eq(x, y), (None, None) => true, _ => false };
            if !ae(&d.xor_mapped_address, &rb.mapped) { return Some(format!("XOR-MAPPED-ADDRESS {:?} expected {:?}", d.xor_mapped_address, rb.mapped)); }
            if !ae(&d.xor_relayed_address, &rb.relayed) { return Some(format!("XOR-RELAYED-ADDRESS {:?} expected {:?}", d.xor_relayed_address, rb.relayed)); }
            if !ae(&d.xor_peer_address, &rb.peer) { return Some(format!("XOR-PEER-ADDRESS {:?} expected {:?}", d.xor_peer_address, rb.peer)); }
            if d.error_code != rb.error { return Some(format!("ERROR-CODE {:?} expected {:?}", d.error_code, rb.error)); }
            if d.realm != rb.realm { return Some("REALM differs".into()); }
            if d.nonce != rb.nonce { return Some("NONCE differs".into()); }
            if d.data != rb.data { return Some("DATA differs".into()); }
            if d.use_candidate != rb.use_candidate { return Some("USE-CANDIDATE differs".into()); }
            if d.lifetime != rb.lifetime { return Some("LIFETIME differs".into()); }
            None
        };
        stun_decode_case(out, &rb.bytes, "stun-decode-reference", Some(&check));
        pool.push(rb.bytes.clone());
    }
    // ---- malformed stream (model correspondence + no panic)
    let n = if thorough { 6000 } else { 1000 };
    let mut muts: BTreeMap<String, u64> = BTreeMap::new();
    for _ in 0..n {
        let base = r.pick(&pool).clone();
        let (b, how) = mutate(r, &base);
        *muts.entry(how.into()).or_default() += 1;
        stun_decode_case(out, &b, "stun-decode-malformed", None);
    }
    summary.insert("stun".into(), json!({"text/data length residues": g.lens, "attribute kinds": g.attrs, "keys": g.keys, "address families": g.fam, "mutations": muts,
        "method x class": "all 28 combinations cycled", "text lengths": "0..763 bytes, boundary set {0..9,127..129,255..257,511,513,760..763} + uniform"}));
}

fn main() {
    let args = parse_args();
    silence_panics();
    let mut out = Out::new(&args.out);
    let mut r = Rng::new(args.seed);
    let thorough = args.tier == "thorough";
    let mut dist: BTreeMap<String, u64> = BTreeMap::new();
    let mut summary = serde_json::Map::new();
    pair_cases(&mut out, &mut r, thorough, &mut dist);
    prio_cases(&mut out, &mut r, &mut dist);
    stun_cases(&mut out, &mut r, thorough, &mut summary);
    cand::cases(&mut out, &mut r, thorough, &mut summary);
    turncap::cases(&mut out, &mut summary);
    summary.insert("priorities".into(), json!(dist));
    let _ = (IceCandidateType::Host, hmac_sha1(b"", b""));
    out.finish(json!({"generator": summary}));
}
