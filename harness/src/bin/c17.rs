//! C17 probe (development version): drives real PeerConnection pairs to a phase boundary, applies a
//! terminating event, prints what the connection reports.
use rustrtc::transports::sctp::{DataChannel, DataChannelConfig, DataChannelEvent};
use rustrtc::{
    DisconnectReason, IceConnectionState, MediaKind, PeerConnection, PeerConnectionState, RtcConfiguration,
    SdpType, SessionDescription, SignalingState, TransceiverDirection, TransportMode,
};
use std::net::SocketAddr;
use std::sync::atomic::{AtomicU8, AtomicUsize, Ordering};
use std::sync::Arc;
use std::time::{Duration, Instant};
use tokio::net::UdpSocket;

fn cfg(mode: TransportMode) -> RtcConfiguration {
    let mut c = RtcConfiguration::default();
    c.bind_ip = Some("127.0.0.1".into());
    c.transport_mode = mode;
    c
}

// ------------------------------------------------------------------------------------ relay
/// two-socket datagram relay with a switchable filter
struct Relay {
    a_face: SocketAddr, // A sends here
    b_face: SocketAddr, // B sends here
    mode: Arc<AtomicU8>, // 0 forward, 1 drop DTLS records, 2 drop everything, 3 drop A->B only
    tasks: Vec<tokio::task::JoinHandle<()>>,
}
impl Relay {
    async fn new(a_real: SocketAddr, b_real: SocketAddr) -> Relay {
        let sa = Arc::new(UdpSocket::bind("127.0.0.1:0").await.unwrap());
        let sb = Arc::new(UdpSocket::bind("127.0.0.1:0").await.unwrap());
        let mode = Arc::new(AtomicU8::new(0));
        let mut tasks = vec![];
        for dir in 0..2 {
            let (rx, tx, dst) = if dir == 0 { (sa.clone(), sb.clone(), b_real) } else { (sb.clone(), sa.clone(), a_real) };
            let mode = mode.clone();
            tasks.push(tokio::spawn(async move {
                let mut buf = vec![0u8; 4096];
                loop {
                    let Ok((n, _)) = rx.recv_from(&mut buf).await else { break };
                    let m = mode.load(Ordering::SeqCst);
                    let is_dtls = n > 0 && (20..64).contains(&buf[0]);
                    let drop = match m { 1 => is_dtls, 2 => true, 3 => dir == 0, _ => false };
                    if !drop { let _ = tx.send_to(&buf[..n], dst).await; }
                }
            }));
        }
        Relay { a_face: sa.local_addr().unwrap(), b_face: sb.local_addr().unwrap(), mode, tasks }
    }
}
impl Drop for Relay {
    fn drop(&mut self) { for t in &self.tasks { t.abort(); } }
}

fn cand_port(pc: &PeerConnection) -> Option<SocketAddr> {
    pc.ice_transport().local_candidates().first().map(|c| c.address)
}
fn rewrite_port(desc: &SessionDescription, ty: SdpType, to: SocketAddr) -> SessionDescription {
    let text = desc.to_sdp_string();
    let mut out = String::new();
    for line in text.lines() {
        if line.starts_with("a=candidate:") {
            let mut f: Vec<String> = line.split(' ').map(|s| s.to_string()).collect();
            if f.len() > 5 { f[4] = to.ip().to_string(); f[5] = to.port().to_string(); }
            out.push_str(&f.join(" "));
        } else { out.push_str(line); }
        out.push_str("\r\n");
    }
    SessionDescription::parse(ty, &out).expect("rewritten SDP parses")
}

// ------------------------------------------------------------------------------------ observation
#[derive(Debug, Clone, PartialEq)]
struct Obs { peer: PeerConnectionState, ice: IceConnectionState, sig: SignalingState, reason: Option<DisconnectReason> }
fn obs(pc: &PeerConnection) -> Obs {
    Obs { peer: *pc.subscribe_peer_state().borrow(), ice: *pc.subscribe_ice_connection_state().borrow(), sig: pc.signaling_state(), reason: pc.disconnect_reason() }
}

#[derive(Default)]
struct ChanCount { open: AtomicUsize, msg: AtomicUsize, close: AtomicUsize, ended: AtomicUsize }
fn collect(dc: Arc<DataChannel>) -> (Arc<ChanCount>, tokio::task::JoinHandle<()>) {
    let c = Arc::new(ChanCount::default());
    let c2 = c.clone();
    let h = tokio::spawn(async move {
        loop {
            match dc.recv().await {
                Some(DataChannelEvent::Open) => { c2.open.fetch_add(1, Ordering::SeqCst); }
                Some(DataChannelEvent::Message(_)) => { c2.msg.fetch_add(1, Ordering::SeqCst); }
                Some(DataChannelEvent::Close) => { c2.close.fetch_add(1, Ordering::SeqCst); }
                None => { c2.ended.store(1, Ordering::SeqCst); break; }
            }
        }
    });
    (c, h)
}

async fn wait_until<F: FnMut() -> bool>(mut f: F, max: Duration) -> Option<Duration> {
    let t0 = Instant::now();
    loop {
        if f() { return Some(t0.elapsed()); }
        if t0.elapsed() > max { return None; }
        tokio::time::sleep(Duration::from_millis(5)).await;
    }
}

async fn timed<T, F: std::future::Future<Output = T>>(f: F, max: Duration) -> (Option<T>, Duration) {
    let t0 = Instant::now();
    let r = tokio::time::timeout(max, f).await.ok();
    (r, t0.elapsed())
}

fn udp_ports_bound() -> std::collections::HashSet<u16> {
    let mut s = std::collections::HashSet::new();
    for f in ["/proc/net/udp", "/proc/net/udp6"] {
        if let Ok(t) = std::fs::read_to_string(f) {
            for l in t.lines().skip(1) {
                let mut it = l.split_whitespace();
                it.next();
                if let Some(local) = it.next() {
                    if let Some(p) = local.rsplit(':').next() {
                        if let Ok(p) = u16::from_str_radix(p, 16) { s.insert(p); }
                    }
                }
            }
        }
    }
    s
}

async fn local_offer(pc: &PeerConnection) -> SessionDescription {
    let _ = pc.create_offer().await.unwrap();
    pc.wait_for_gathering_complete().await;
    let o = pc.create_offer().await.unwrap();
    pc.set_local_description(o.clone()).unwrap();
    o
}
async fn local_answer(pc: &PeerConnection) -> SessionDescription {
    let _ = pc.create_answer().await.unwrap();
    pc.wait_for_gathering_complete().await;
    let a = pc.create_answer().await.unwrap();
    pc.set_local_description(a.clone()).unwrap();
    a
}

fn dc_cfg() -> DataChannelConfig {
    DataChannelConfig { label: "neg".into(), negotiated: Some(0), ordered: true, ..Default::default() }
}


struct Pair {
    a: PeerConnection, b: PeerConnection,
    dca: Option<Arc<DataChannel>>, dcb: Option<Arc<DataChannel>>,
    ca: Option<Arc<ChanCount>>, cb: Option<Arc<ChanCount>>,
    hs: Vec<tokio::task::JoinHandle<()>>,
    relay: Option<Relay>,
}
struct PairOpts { mode: TransportMode, dc: bool, media: bool, relay: bool, relay_mode: u8, cfg_a: Option<RtcConfiguration> }
impl Default for PairOpts { fn default() -> Self { PairOpts { mode: TransportMode::WebRtc, dc: true, media: false, relay: false, relay_mode: 0, cfg_a: None } } }

async fn make_pair(o: PairOpts) -> Pair {
    let a = PeerConnection::new(o.cfg_a.clone().unwrap_or_else(|| cfg(o.mode.clone())));
    let b = PeerConnection::new(cfg(o.mode.clone()));
    let mut p = Pair { a, b, dca: None, dcb: None, ca: None, cb: None, hs: vec![], relay: None };
    if o.dc {
        let dca = p.a.create_data_channel("neg", Some(dc_cfg())).unwrap();
        let dcb = p.b.create_data_channel("neg", Some(dc_cfg())).unwrap();
        let (ca, ha) = collect(dca.clone());
        let (cb, hb) = collect(dcb.clone());
        p.dca = Some(dca); p.dcb = Some(dcb); p.ca = Some(ca); p.cb = Some(cb); p.hs.push(ha); p.hs.push(hb);
    }
    if o.media || !o.dc {
        p.a.add_transceiver(MediaKind::Audio, TransceiverDirection::SendRecv);
        p.b.add_transceiver(MediaKind::Audio, TransceiverDirection::SendRecv);
    }
    let offer = local_offer(&p.a).await;
    if o.relay {
        // B must gather before the relay exists: kick gathering with a throw-away offer
        let _ = p.b.create_offer().await.unwrap();
        p.b.wait_for_gathering_complete().await;
        let ra = cand_port(&p.a).unwrap();
        let rb = cand_port(&p.b).unwrap();
        let r = Relay::new(ra, rb).await;
        r.mode.store(o.relay_mode, Ordering::SeqCst);
        let offer_b = rewrite_port(&offer, SdpType::Offer, r.b_face);
        p.b.set_remote_description(offer_b).await.unwrap();
        let answer = local_answer(&p.b).await;
        let answer_a = rewrite_port(&answer, SdpType::Answer, r.a_face);
        p.a.set_remote_description(answer_a).await.unwrap();
        p.relay = Some(r);
    } else {
        p.b.set_remote_description(offer).await.unwrap();
        let answer = local_answer(&p.b).await;
        p.a.set_remote_description(answer).await.unwrap();
    }
    p
}
async fn connected_pair(mk: impl Fn() -> PairOpts) -> Pair {
    for _ in 0..8 {
        let p = make_pair(mk()).await;
        if wait_connected(&p).await { return p; }
        p.a.close(); p.b.close();
        for h in &p.hs { h.abort(); }
    }
    panic!("could not build a connected pair");
}
async fn wait_connected(p: &Pair) -> bool {
    let (r, _) = timed(async { tokio::try_join!(p.a.wait_for_connected(), p.b.wait_for_connected()) }, Duration::from_secs(10)).await;
    let ok = matches!(r, Some(Ok(_)));
    if ok && p.ca.is_some() && p.a.sctp_diagnostic_info().is_none() { return false; } // set_remote_description race: DTLS started before the remote description was stored
    if ok && p.ca.is_some() {
        let (ca, cb) = (p.ca.clone().unwrap(), p.cb.clone().unwrap());
        wait_until(|| ca.open.load(Ordering::SeqCst) > 0 && cb.open.load(Ordering::SeqCst) > 0, Duration::from_secs(5)).await.is_some()
    } else { ok }
}
fn cc(c: &Option<Arc<ChanCount>>) -> String {
    match c { Some(c) => format!("open={} close={} ended={}", c.open.load(Ordering::SeqCst), c.close.load(Ordering::SeqCst), c.ended.load(Ordering::SeqCst)), None => "-".into() }
}
fn tasks() -> usize { tokio::runtime::Handle::current().metrics().num_alive_tasks() }

use vh::net::sctp_wire::{build_packet, Chunk};
async fn inject_sctp(from: &PeerConnection, ty: u8) -> bool {
    let Some(d) = from.verif_dtls_transport() else { return false };
    let pkt = build_packet(5000, 5000, 0, &[Chunk { ty, flags: 0, value: vec![] }]);
    d.send(bytes::Bytes::from(pkt)).await.is_ok()
}

async fn x_peer_events() {
    for ev in ["close_notify", "abort", "shutdown", "shutdown_ack", "peer_close", "peer_drop"] {
        let p = connected_pair(PairOpts::default).await;
        let ok = true;
        let t0 = tasks();
        match ev {
            "close_notify" => { p.b.verif_dtls_transport().unwrap().close(); }
            "abort" => { inject_sctp(&p.b, 6).await; }
            "shutdown" => { inject_sctp(&p.b, 7).await; }
            "shutdown_ack" => { inject_sctp(&p.b, 8).await; }
            "peer_close" => { p.b.close(); }
            _ => {}
        }
        let Pair { a, b, ca, cb, hs, dca, dcb, .. } = p;
        if ev == "peer_drop" { drop(b); drop(dcb); } else { std::mem::forget(dcb); std::mem::forget(b); }
        tokio::time::sleep(Duration::from_millis(700)).await;
        println!("[{}] connected={} A {:?} chanA {} tasks {}->{}", ev, ok, obs(&a), cc(&ca), t0, tasks());
        let (r, d) = timed(a.send_data(0, b"x"), Duration::from_secs(2)).await;
        println!("     send_data -> {:?} {:?}", r.map(|x| x.map_err(|e| e.to_string())), d);
        a.close();
        tokio::time::sleep(Duration::from_millis(300)).await;
        println!("     after close A {:?} chanA {} tasks {}", obs(&a), cc(&ca), tasks());
        let _ = (cb, dca);
        for h in hs { h.abort(); }
    }
}

async fn x_handshaking_close() {
    for ev in ["close", "drop", "close_drop"] {
        let t00 = tasks();
        let p = make_pair(PairOpts { relay: true, relay_mode: 1, ..Default::default() }).await;
        let a = p.a.clone();
        let d = wait_until(|| matches!(obs(&a).ice, IceConnectionState::Connected | IceConnectionState::Completed), Duration::from_secs(5)).await;
        tokio::time::sleep(Duration::from_millis(200)).await;
        println!("[hs {}] ice connected after {:?}: A {:?} dtls={:?} tasks={}", ev, d, obs(&a), a.verif_dtls_transport().map(|d| format!("{}", d.get_state())), tasks());
        drop(a);
        let Pair { a, b, hs, dca, dcb, relay, ca, .. } = p;
        let pa = a.clone();
        let pend = tokio::spawn(async move { pa.wait_for_connected().await.is_ok() });
        tokio::time::sleep(Duration::from_millis(20)).await;
        b.close(); drop(b); drop(dcb); drop(relay);
        if ev != "drop" { a.close(); }
        println!("     A after event {:?}", if ev != "drop" { Some(obs(&a)) } else { None });
        tokio::time::sleep(Duration::from_millis(300)).await;
        println!("     +300ms {:?} pending wait_for_connected finished={}", obs(&a), pend.is_finished());
        pend.abort();
        for h in hs { h.abort(); }
        drop(a); drop(dca); drop(ca);
        let d = wait_until(|| tasks() <= t00, Duration::from_secs(3)).await;
        println!("     after drop: tasks {} (baseline {}) settled={:?}", tasks(), t00, d);
    }
}

async fn x_checking_close() {
    let t00 = tasks();
    let hole = UdpSocket::bind("127.0.0.1:0").await.unwrap();
    let a = PeerConnection::new(cfg(TransportMode::WebRtc));
    let b = PeerConnection::new(cfg(TransportMode::WebRtc));
    let dca = a.create_data_channel("neg", Some(dc_cfg())).unwrap();
    let _dcb = b.create_data_channel("neg", Some(dc_cfg())).unwrap();
    let offer = local_offer(&a).await;
    b.set_remote_description(offer).await.unwrap();
    let answer = local_answer(&b).await;
    println!("  tasks with A+B = {}", tasks());
    b.close();
    drop(b); drop(_dcb);
    tokio::time::sleep(Duration::from_millis(300)).await;
    println!("  tasks after B closed+dropped = {}", tasks());
    let answer = rewrite_port(&answer, SdpType::Answer, hole.local_addr().unwrap());
    a.set_remote_description(answer).await.unwrap();
    tokio::time::sleep(Duration::from_millis(300)).await;
    println!("[checking] A {:?} tasks={}", obs(&a), tasks());
    a.close();
    println!("     after close {:?}", obs(&a));
    let (r, d) = timed(dca.recv(), Duration::from_secs(1)).await;
    println!("     dc.recv after close at checking: {:?} {:?}", r.map(|e| format!("{:?}", e)), d);
    tokio::time::sleep(Duration::from_millis(300)).await;
    println!("     tasks={}", tasks());
    let ice = a.ice_transport();
    drop(a); drop(dca);
    let d = wait_until(|| tasks() <= t00, Duration::from_secs(8)).await;
    println!("     after drop tasks {} settled={:?} ice transport state now {:?}", tasks(), d, ice.state());
}

async fn x_blocked() {
    use vh::sctp_peer::{Uut, UutOpts};
    for ev in ["abort", "shutdown_ack", "close", "dtls_close_notify"] {
        let mut c = RtcConfiguration::default();
        c.sctp_max_buffered_amount = 4096;
        let dcc = DataChannelConfig { label: "x".into(), negotiated: Some(0), ordered: true, ..Default::default() };
        let u = Uut::start(UutOpts { config: c, channels: vec![(0, dcc)], peer_rwnd: 1500, ..Default::default() }).await;
        let sctp = u.sctp.clone();
        let sender = tokio::spawn(async move {
            let t0 = Instant::now();
            let mut n = 0;
            loop {
                match sctp.send_data(0, &[7u8; 1000]).await { Ok(()) => n += 1, Err(e) => return (n, e.to_string(), t0.elapsed()) }
                if n > 10000 { return (n, "never blocked".into(), t0.elapsed()); }
            }
        });
        tokio::time::sleep(Duration::from_millis(300)).await;
        println!("[blocked {}] sender finished before event: {} buffered={}", ev, sender.is_finished(), u.sctp.buffered_amount());
        let t0 = Instant::now();
        match ev {
            "abort" => u.inject_chunks(&[Chunk { ty: 6, flags: 0, value: vec![] }]),
            "shutdown_ack" => u.inject_chunks(&[Chunk { ty: 8, flags: 0, value: vec![] }]),
            "close" => u.sctp.close(),
            _ => u.pair.server.dtls.close(),
        }
        let r = tokio::time::timeout(Duration::from_secs(2), sender).await;
        println!("     sender -> {:?} after {:?}; close_reason={:?}", r.map(|x| x.ok()), t0.elapsed(), u.sctp.close_reason());
        let evs = Uut::channel_events(&u.strong[0], Duration::from_millis(100)).await;
        println!("     channel events {:?}", evs.iter().map(|e| match e { DataChannelEvent::Open => "Open", DataChannelEvent::Close => "Close", _ => "Msg" }).collect::<Vec<_>>());
    }
}

async fn x_ice_stop() {
    let p = connected_pair(PairOpts::default).await;
    p.a.ice_transport().stop();
    tokio::time::sleep(Duration::from_millis(500)).await;
    println!("[ice_stop] A {:?} chanA {} tasks {}", obs(&p.a), cc(&p.ca), tasks());
    p.a.close();
    tokio::time::sleep(Duration::from_millis(300)).await;
    println!("     then close: A {:?} chanA {} tasks {}", obs(&p.a), cc(&p.ca), tasks());
    let (r, d) = timed(p.a.send_data(0, b"x"), Duration::from_secs(2)).await;
    println!("     send_data -> {:?} {:?}", r.map(|x| x.map_err(|e| e.to_string())), d);
    p.b.close();
    let Pair { a, b, hs, dca, dcb, ca, cb, .. } = p;
    for h in hs { h.abort(); }
    drop(a); drop(b); drop(dca); drop(dcb); drop(ca); drop(cb);
    let d = wait_until(|| tasks() == 0, Duration::from_secs(3)).await;
    println!("     after drop tasks {} settled={:?}", tasks(), d);
}

async fn x_rtp() {
    for ev in ["close", "drop", "peer_close"] {
        let p = make_pair(PairOpts { mode: TransportMode::Rtp, dc: false, media: true, ..Default::default() }).await;
        let ok = wait_connected(&p).await;
        println!("[rtp {}] connected={} A {:?} tasks {}", ev, ok, obs(&p.a), tasks());
        let Pair { a, b, .. } = p;
        match ev {
            "close" => { a.close(); println!("     A {:?}", obs(&a)); }
            "peer_close" => { b.close(); tokio::time::sleep(Duration::from_millis(500)).await; println!("     A {:?}", obs(&a)); }
            _ => {}
        }
        b.close();
        drop(a); drop(b);
        let d = wait_until(|| tasks() == 0, Duration::from_secs(3)).await;
        println!("     after drop tasks {} settled={:?}", tasks(), d);
    }
}

fn main() {
    let which: Vec<String> = std::env::args().skip(1).collect();
    let rt = tokio::runtime::Builder::new_multi_thread().worker_threads(2).enable_all().build().unwrap();
    rt.block_on(async {
        for w in &which {
            match w.as_str() {
                "peer" => x_peer_events().await,
                "hs" => x_handshaking_close().await,
                "checking" => x_checking_close().await,
                "icestop" => x_ice_stop().await,
                "rtp" => x_rtp().await,
                "blocked" => x_blocked().await,
                "rep" => { for i in 0..6 { let p = make_pair(PairOpts::default()).await; let ok = wait_connected(&p).await; println!("rep {} ok={} A {:?} B {:?} chanA {} chanB {} sd={:?}", i, ok, obs(&p.a), obs(&p.b), cc(&p.ca), cc(&p.cb), p.a.send_data(0,b"x").await.map_err(|e| e.to_string())); p.a.close(); p.b.close(); for h in &p.hs { h.abort(); } } }
                _ => {}
            }
        }
    });
}
