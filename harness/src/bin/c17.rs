//! C17 -- closing or losing a connection at any moment ends it cleanly and visibly.
//!
//! Real `PeerConnection` pairs over loopback (in-process signalling, optionally through a datagram relay that
//! can starve DTLS or one direction) are driven to a phase boundary; a terminating event is applied to the
//! endpoint under test ("A"); then the harness records
//!   * what A reports (peer / ICE / signaling state, disconnect reason), per-channel Open/Close counts and
//!     whether the event stream ended, the fate of a sender parked on a full window   -> compared with the
//!     Coq model (Run/C17Run.v: the model must be able to come to rest in the same observables),
//!   * the direct oracle, written from the property text, independent of the model: a terminal state and a
//!     reason are reported, the reason never changes afterwards, no channel sees two Close events and every
//!     channel of an ended connection sees exactly one, pending and subsequent API calls return within a
//!     generous bound, and after the final close + drop every task of the scenario's own tokio runtime is
//!     gone and every UDP port the two connections had bound is released within a bound.
//! Each scenario runs on its own tokio runtime (so `num_alive_tasks` is per scenario); scenarios run in
//! parallel on a small pool of OS threads.
use rustrtc::media::frame::VideoFrame;
use rustrtc::transports::sctp::{DataChannel, DataChannelConfig, DataChannelEvent};
use rustrtc::SdpCompatibilityMode;
use rustrtc::{
    DisconnectReason, IceConnectionState, MediaKind, PeerConnection, PeerConnectionState, RtcConfiguration,
    RtpCodecParameters, SdpType, SessionDescription, SignalingState, TransceiverDirection, TransportMode,
};
use serde_json::json;
use std::net::SocketAddr;
use std::sync::atomic::{AtomicU8, AtomicUsize, Ordering};
use std::sync::{Arc, Mutex};
use std::time::{Duration, Instant};
use tokio::net::UdpSocket;
use tokio::sync::watch;
use vh::net::sctp_wire::{build_packet, Chunk};

/// generous bound for "returns promptly" (observed latencies are below 1 ms)
const CALL_BOUND: Duration = Duration::from_secs(2);
/// bound for "what the connection reports has settled" after an event
const SETTLE_MAX: Duration = Duration::from_secs(3);
/// ... and how long a visible end that is *expected* is waited for before its absence is recorded
const END_MAX: Duration = Duration::from_secs(12);
/// bound for task / socket release after the final close + drop (connectivity checks in flight end with the
/// STUN timeout, configured to 1 s below)
const RELEASE_BOUND: Duration = Duration::from_secs(5);

fn cfg(mode: TransportMode) -> RtcConfiguration {
    let mut c = RtcConfiguration::default();
    c.bind_ip = Some("127.0.0.1".into());
    c.transport_mode = mode;
    c.stun_timeout = Duration::from_secs(1);
    c
}

/// legacy SIP style: one transport address per m= section (no BUNDLE), so audio + video use a primary and a
/// secondary media transport (each with its own ICE transport and RTP/RTCP sockets)
fn cfg_sip(mode: TransportMode) -> RtcConfiguration {
    let mut c = cfg(mode);
    c.sdp_compatibility = SdpCompatibilityMode::LegacySip;
    c
}
/// every UDP port the local description advertises (m= lines and a=rtcp), i.e. what the peer is told to send to
fn sdp_ports(pc: &PeerConnection) -> Vec<u16> {
    let mut v = vec![];
    if let Some(d) = pc.local_description() {
        for m in &d.media_sections {
            if m.port > 9 { v.push(m.port); }
            for a in &m.attributes {
                if a.key == "rtcp" {
                    if let Some(p) = a.value.as_ref().and_then(|x| x.split_whitespace().next()).and_then(|x| x.parse::<u16>().ok()) { if p > 9 { v.push(p); } }
                }
            }
        }
    }
    v
}

// ------------------------------------------------------------------------------------ relay
/// two-socket datagram relay with a switchable filter (A talks to `a_face`, B talks to `b_face`)
struct Relay {
    a_face: SocketAddr,
    b_face: SocketAddr,
    /// 0 forward, 1 drop DTLS records, 2 drop everything, 3 drop A->B only
    mode: Arc<AtomicU8>,
    tasks: Vec<tokio::task::JoinHandle<()>>,
}
impl Relay {
    async fn new(a_real: SocketAddr, b_real: SocketAddr) -> Relay {
        let sa = Arc::new(UdpSocket::bind("127.0.0.1:0").await.unwrap());
        let sb = Arc::new(UdpSocket::bind("127.0.0.1:0").await.unwrap());
        let mode = Arc::new(AtomicU8::new(0));
        let mut tasks = vec![];
        for dir in 0..2 {
            let (rx, tx, dst) = if dir == 0 { (sa.clone(), sb.clone(), b_real) } else { (sb.clone(), sa.clone(), a_real) };
            let mode = mode.clone();
            tasks.push(tokio::spawn(async move {
                let mut buf = vec![0u8; 4096];
                loop {
                    let Ok((n, _)) = rx.recv_from(&mut buf).await else { break };
                    let m = mode.load(Ordering::SeqCst);
                    let is_dtls = n > 0 && (20..64).contains(&buf[0]);
                    let drop = match m { 1 => is_dtls, 2 => true, 3 => dir == 0, _ => false };
                    if !drop { let _ = tx.send_to(&buf[..n], dst).await; }
                }
            }));
        }
        Relay { a_face: sa.local_addr().unwrap(), b_face: sb.local_addr().unwrap(), mode, tasks }
    }
}
impl Drop for Relay {
    fn drop(&mut self) { for t in &self.tasks { t.abort(); } }
}

fn cand_addr(pc: &PeerConnection) -> Option<SocketAddr> {
    pc.ice_transport().local_candidates().first().map(|c| c.address)
}
fn rewrite_port(desc: &SessionDescription, ty: SdpType, to: SocketAddr) -> SessionDescription {
    let text = desc.to_sdp_string();
    let mut out = String::new();
    for line in text.lines() {
        if line.starts_with("a=candidate:") {
            let mut f: Vec<String> = line.split(' ').map(|s| s.to_string()).collect();
            if f.len() > 5 { f[4] = to.ip().to_string(); f[5] = to.port().to_string(); }
            out.push_str(&f.join(" "));
        } else { out.push_str(line); }
        out.push_str("\r\n");
    }
    SessionDescription::parse(ty, &out).expect("rewritten SDP parses")
}

// ------------------------------------------------------------------------------------ observation
#[derive(Debug, Clone, PartialEq)]
struct Obs { peer: PeerConnectionState, ice: IceConnectionState, sig: SignalingState, reason: Option<DisconnectReason> }
/// watch receivers outlive the connection, so the last reported values stay readable after a drop
struct Watch {
    peer: watch::Receiver<PeerConnectionState>,
    ice: watch::Receiver<IceConnectionState>,
    sig: watch::Receiver<SignalingState>,
    reason: watch::Receiver<Option<DisconnectReason>>,
}
impl Watch {
    fn new(pc: &PeerConnection) -> Watch {
        Watch { peer: pc.subscribe_peer_state(), ice: pc.subscribe_ice_connection_state(), sig: pc.subscribe_signaling_state(), reason: pc.subscribe_disconnect_reason() }
    }
    fn obs(&self) -> Obs {
        Obs { peer: *self.peer.borrow(), ice: *self.ice.borrow(), sig: *self.sig.borrow(), reason: self.reason.borrow().clone() }
    }
}

#[derive(Default)]
struct ChanCount { open: AtomicUsize, msg: AtomicUsize, close: AtomicUsize, ended: AtomicUsize }
fn collect(dc: Arc<DataChannel>) -> (Arc<ChanCount>, tokio::task::JoinHandle<()>) {
    let c = Arc::new(ChanCount::default());
    let c2 = c.clone();
    let h = tokio::spawn(async move {
        loop {
            match dc.recv().await {
                Some(DataChannelEvent::Open) => { c2.open.fetch_add(1, Ordering::SeqCst); }
                Some(DataChannelEvent::Message(_)) => { c2.msg.fetch_add(1, Ordering::SeqCst); }
                Some(DataChannelEvent::Close) => { c2.close.fetch_add(1, Ordering::SeqCst); }
                None => { c2.ended.store(1, Ordering::SeqCst); break; }
            }
        }
    });
    (c, h)
}

async fn wait_until<F: FnMut() -> bool>(mut f: F, max: Duration) -> Option<Duration> {
    let t0 = Instant::now();
    loop {
        if f() { return Some(t0.elapsed()); }
        if t0.elapsed() > max { return None; }
        tokio::time::sleep(Duration::from_millis(5)).await;
    }
}
/// Two-stage observation of "returns promptly": the call is awaited for `max`; if it has not returned by then
/// it is *re-observed* (the same future keeps being awaited, up to LONG_WAIT more) before it may count as a
/// hang. The reported duration tells which stage it was.
async fn timed<T, F: std::future::Future<Output = T>>(f: F, max: Duration) -> (Option<T>, Duration) {
    let t0 = Instant::now();
    tokio::pin!(f);
    if let Ok(r) = tokio::time::timeout(max, &mut f).await { return (Some(r), t0.elapsed()); }
    let r = tokio::time::timeout(long_wait(), &mut f).await.ok();
    (r, t0.elapsed())
}
/// same for a condition that is polled
async fn wait_until2<F: FnMut() -> bool>(mut f: F, max: Duration) -> Option<Duration> {
    let t0 = Instant::now();
    loop {
        if f() { return Some(t0.elapsed()); }
        if t0.elapsed() > max + long_wait() { return None; }
        tokio::time::sleep(Duration::from_millis(5)).await;
    }
}
fn long_wait() -> Duration {
    Duration::from_secs(std::env::var("C17_LONG_WAIT_S").ok().and_then(|x| x.parse().ok()).unwrap_or(20))
}
fn tasks() -> usize { tokio::runtime::Handle::current().metrics().num_alive_tasks() }
/// (local port, socket inode) of every UDP socket in this network namespace
fn udp_sockets() -> Vec<(u16, u64)> {
    let mut v = vec![];
    for f in ["/proc/net/udp", "/proc/net/udp6"] {
        if let Ok(t) = std::fs::read_to_string(f) {
            for l in t.lines().skip(1) {
                let cols: Vec<&str> = l.split_whitespace().collect();
                if cols.len() < 10 { continue; }
                let port = cols[1].rsplit(':').next().and_then(|p| u16::from_str_radix(p, 16).ok());
                let inode = cols[9].parse::<u64>().ok();
                if let (Some(p), Some(i)) = (port, inode) { v.push((p, i)); }
            }
        }
    }
    v
}
/// the sockets (by inode: a port number can be handed out again to somebody else) bound to these ports now
fn inodes_of(ports: &[u16]) -> Vec<(u16, u64)> {
    udp_sockets().into_iter().filter(|(p, _)| ports.contains(p)).collect()
}

async fn local_offer(pc: &PeerConnection) -> Result<SessionDescription, String> {
    let _ = pc.create_offer().await.map_err(|e| e.to_string())?;
    pc.wait_for_gathering_complete().await;
    let o = pc.create_offer().await.map_err(|e| e.to_string())?;
    pc.set_local_description(o.clone()).map_err(|e| e.to_string())?;
    Ok(o)
}
async fn local_answer(pc: &PeerConnection) -> Result<SessionDescription, String> {
    let _ = pc.create_answer().await.map_err(|e| e.to_string())?;
    pc.wait_for_gathering_complete().await;
    let a = pc.create_answer().await.map_err(|e| e.to_string())?;
    pc.set_local_description(a.clone()).map_err(|e| e.to_string())?;
    Ok(a)
}
fn dc_cfg() -> DataChannelConfig {
    DataChannelConfig { label: "neg".into(), negotiated: Some(0), ordered: true, ..Default::default() }
}

// ------------------------------------------------------------------------------------ scenarios
#[derive(Clone, Copy, Debug, PartialEq, Eq, Hash)]
enum Phase { Created, Gathering, OfferSet, Checking, DtlsHandshaking, DtlsConnected, ChannelsOpen, MediaFlowing, RtpCreated, RtpFlowing,
    /// the instant A reports Connected (SCTP still connecting or just up, transport loops just spawned): oracle only
    JustConnected, JustConnectedMedia,
    /// channels open and the PEER has opened one more channel in-band (DCEP): A learned of it through pc.recv()
    PeerChannelOpen,
    /// three negotiated channels open (several senders can park at once: a channel's send lock serialises its own)
    ThreeChannelsOpen,
    /// SDES-SRTP / RTP mode, legacy SIP SDP, audio + video (secondary media transport): offer made / pair flowing
    SipSrtpOffer, SipRtpOffer, SipSrtpConnected, SipRtpConnected }
impl Phase {
    fn model(self) -> &'static str {
        match self {
            Phase::Created | Phase::Gathering | Phase::RtpCreated => "PhCreated",
            Phase::OfferSet => "PhOfferSet",
            Phase::Checking => "PhChecking",
            Phase::DtlsHandshaking => "PhDtlsHandshaking",
            Phase::DtlsConnected => "PhDtlsConnected",
            Phase::ChannelsOpen | Phase::MediaFlowing => "PhChannelsOpen",
            Phase::JustConnected | Phase::JustConnectedMedia | Phase::ThreeChannelsOpen => "-",
            Phase::PeerChannelOpen => "PhTwoChannelsOpen",
            Phase::SipSrtpOffer | Phase::SipRtpOffer => "-",
            Phase::SipSrtpConnected | Phase::SipRtpConnected => "PhDirectConnected",
            Phase::RtpFlowing => "PhDirectConnected",
        }
    }
    fn is_sip(self) -> bool { matches!(self, Phase::SipSrtpOffer | Phase::SipRtpOffer | Phase::SipSrtpConnected | Phase::SipRtpConnected) }
    fn has_channel(self) -> bool { !matches!(self, Phase::DtlsConnected | Phase::RtpFlowing | Phase::JustConnectedMedia) && !self.is_sip() }
    fn mode(self) -> TransportMode {
        if matches!(self, Phase::RtpCreated | Phase::RtpFlowing | Phase::SipRtpOffer | Phase::SipRtpConnected) { TransportMode::Rtp }
        else if matches!(self, Phase::SipSrtpOffer | Phase::SipSrtpConnected) { TransportMode::Srtp } else { TransportMode::WebRtc }
    }
}
#[derive(Clone, Copy, Debug, PartialEq, Eq, Hash)]
enum Ev {
    Close, Drop, CloseTwice, CloseThenDrop, CloseNotify, Abort, ShutdownAck, ShutdownThenComplete, ShutdownAlone,
    IceStop, IceStopThenClose, PeerClose, PeerDrop, RaceCloseNotify, RaceCloseAbort, RaceCloseClose,
    BlockedThenClose, BlockedThenAbort, BlockedThenCloseNotify,
    /// thorough only: drop in mid-handshake while the relay keeps starving DTLS: the teardown waits for the
    /// DTLS handshake timeout (30 s)
    DropStarved,
    /// the association ends on its own (ICE stop / remote ABORT), the application then creates ANOTHER channel on
    /// the still-open connection, then closes / drops it: the late channel must see its one Close too
    LateChanIceStopClose, LateChanIceStopDrop, LateChanAbortClose, LateChanAbortDrop,
    /// three senders parked on three channels (nothing is acknowledged), then the association is ended from below
    Blocked3ThenIceStop, Blocked3ThenCloseNotify, Blocked3ThenAbort,
}
impl Ev {
    /// the stimuli as the model sees them (threads of `option event`; None = the harness waited)
    fn threads(self, phase: Phase, peer_notify_arrived: bool) -> String {
        let t = |xs: &[&str]| format!("[{}]", xs.join("; "));
        match self {
            // a rustrtc peer that closes or vanishes stops ICE before its DTLS task gets to send close_notify;
            // now and then the alert wins that race: the stimulus is what A's DTLS layer actually saw
            Ev::PeerClose | Ev::PeerDrop if peer_notify_arrived => format!("[{}]", t(&["Some PeerCloseNotify"])),
            Ev::Close => format!("[{}]", t(&["Some Close"])),
            // a drop that lands while start_dtls holds its own reference is deferred until the handshake ends
            Ev::Drop if phase == Phase::DtlsHandshaking => format!("[{}]", t(&["Some Drop", "None", "Some DtlsDone"])),
            Ev::Drop => format!("[{}]", t(&["Some Drop"])),
            Ev::DropStarved => format!("[{}]", t(&["Some Drop", "None", "Some DtlsFail"])),
            Ev::CloseTwice => format!("[{}]", t(&["Some Close", "Some Close"])),
            Ev::CloseThenDrop => format!("[{}]", t(&["Some Close", "Some Drop"])),
            Ev::CloseNotify => format!("[{}]", t(&["Some PeerCloseNotify"])),
            Ev::Abort => format!("[{}]", t(&["Some SctpAbort"])),
            Ev::ShutdownAck => format!("[{}]", t(&["Some SctpShutdownAck"])),
            Ev::ShutdownThenComplete => format!("[{}]", t(&["Some SctpShutdown", "None", "Some SctpShutdownComplete"])),
            Ev::ShutdownAlone => format!("[{}]", t(&["Some SctpShutdown"])),
            Ev::IceStop => format!("[{}]", t(&["Some IceStop"])),
            Ev::IceStopThenClose => format!("[{}]", t(&["Some IceStop", "None", "Some Close"])),
            Ev::PeerClose | Ev::PeerDrop => "[]".into(),
            Ev::RaceCloseNotify => format!("[{}; {}]", t(&["Some Close"]), t(&["Some PeerCloseNotify"])),
            Ev::RaceCloseAbort => format!("[{}; {}]", t(&["Some Close"]), t(&["Some SctpAbort"])),
            Ev::RaceCloseClose => format!("[{}; {}]", t(&["Some Close"]), t(&["Some Close"])),
            Ev::BlockedThenClose => format!("[{}]", t(&["Some WindowFull", "Some SenderEnter", "None", "Some Close"])),
            Ev::BlockedThenAbort => format!("[{}]", t(&["Some WindowFull", "Some SenderEnter", "None", "Some SctpAbort"])),
            Ev::BlockedThenCloseNotify => format!("[{}]", t(&["Some WindowFull", "Some SenderEnter", "None", "Some PeerCloseNotify"])),
            Ev::LateChanIceStopClose => format!("[{}]", t(&["Some IceStop", "None", "Some CreateChannel", "Some Close"])),
            Ev::LateChanIceStopDrop => format!("[{}]", t(&["Some IceStop", "None", "Some CreateChannel", "Some Drop"])),
            Ev::LateChanAbortClose => format!("[{}]", t(&["Some SctpAbort", "None", "Some CreateChannel", "Some Close"])),
            Ev::LateChanAbortDrop => format!("[{}]", t(&["Some SctpAbort", "None", "Some CreateChannel", "Some Drop"])),
            Ev::Blocked3ThenIceStop | Ev::Blocked3ThenCloseNotify | Ev::Blocked3ThenAbort => "[]".into(),
        }
    }
    fn blocked(self) -> bool { matches!(self, Ev::BlockedThenClose | Ev::BlockedThenAbort | Ev::BlockedThenCloseNotify) || self.blocked3() }
    fn blocked3(self) -> bool { matches!(self, Ev::Blocked3ThenIceStop | Ev::Blocked3ThenCloseNotify | Ev::Blocked3ThenAbort) }
    fn late_chan(self) -> bool { matches!(self, Ev::LateChanIceStopClose | Ev::LateChanIceStopDrop | Ev::LateChanAbortClose | Ev::LateChanAbortDrop) }
    /// the application itself closed or dropped A as part of the event
    fn app_closed(self) -> bool {
        matches!(self, Ev::Close | Ev::Drop | Ev::DropStarved | Ev::CloseTwice | Ev::CloseThenDrop | Ev::IceStopThenClose | Ev::RaceCloseNotify | Ev::RaceCloseAbort | Ev::RaceCloseClose | Ev::BlockedThenClose) || self.late_chan()
    }
    /// a lower layer ended the connection: a visible end is demanded without any application call
    fn lower_end(self) -> bool {
        matches!(self, Ev::CloseNotify | Ev::Abort | Ev::ShutdownAck | Ev::ShutdownThenComplete | Ev::IceStop | Ev::BlockedThenAbort | Ev::BlockedThenCloseNotify) || self.blocked3()
    }
    /// the connection's channels are ended by the event (each must have seen its one Close)
    fn ends_assoc(self) -> bool { self.app_closed() || self.lower_end() }
    fn drops_a(self) -> bool { matches!(self, Ev::Drop | Ev::CloseThenDrop | Ev::DropStarved | Ev::LateChanIceStopDrop | Ev::LateChanAbortDrop) }
}

#[derive(Clone, Debug)]
struct Scenario { phase: Phase, ev: Ev, jitter_ms: u64, kind: &'static str,
    /// Some(k): single-threaded runtime, the peer's close_notify is sent, the harness yields k times, then A.close():
    /// scans the window between the DTLS task seeing the alert and the state task acting on it
    yields: Option<u32> }

#[derive(Default)]
struct Outcome {
    setup_failed: Option<String>,
    panicked: bool,
    before: Option<Obs>,
    after: Option<Obs>,
    final_obs: Option<Obs>,
    chan: Option<(usize, usize, usize)>, // opens, closes, ended (after the event)
    chan_final: Option<(usize, usize, usize)>,
    /// further channels of A in model order (peer-announced / second and third negotiated / created late)
    extra: Vec<(usize, usize, usize)>,
    extra_final: Vec<(usize, usize, usize)>,
    /// fates of the additional parked senders (channels 1, 2): 1 err 2 ok 3 parked
    senders_extra: Vec<u8>,
    /// ports of A (candidate + every port of its local SDP) still bound after close() while the handle is kept
    a_ports: Vec<u16>,
    a_ports_bound_after_close: Vec<u16>,
    sender: u8, // 0 none 1 err 2 ok 3 parked
    sender_latency_ms: Option<f64>,
    calls: Vec<(String, Option<String>, f64)>, // name, result (None = did not return within the bound), ms
    settle_ms: f64,
    tasks_before_event: usize,
    tasks_after_release: usize,
    release_ms: Option<f64>,
    ports: Vec<u16>,
    ports_still_bound: Vec<u16>,
    notes: Vec<String>,
    /// A's DTLS layer saw a close_notify (independent of what the PeerConnection then reported)
    dtls_saw_close_notify: bool,
    setup_attempts: usize,
    /// a timing / release observation failed its first bound and was observed again with a longer wait
    reobserved: bool,
    /// failed in the parallel pass and was not re-run in isolation (re-run budget used up): reported, not an oracle_fail
    unconfirmed: bool,
}

struct Setup {
    a: Option<PeerConnection>,
    b: Option<PeerConnection>,
    wa: Watch,
    dca: Option<Arc<DataChannel>>,
    dcb: Option<Arc<DataChannel>>,
    ca: Option<Arc<ChanCount>>,
    cb: Option<Arc<ChanCount>>,
    hs: Vec<tokio::task::JoinHandle<()>>,
    relay: Option<Relay>,
    hole: Option<UdpSocket>,
    ports: Vec<u16>,
    media: Option<tokio::task::JoinHandle<()>>,
    extra: Vec<(Arc<DataChannel>, Arc<ChanCount>)>,
    extra_b: Vec<Arc<DataChannel>>,
    /// the UDP ports A itself has bound (selected candidate + every port its local SDP advertises)
    a_ports: Vec<u16>,
}

async fn negotiate(a: &PeerConnection, b: &PeerConnection, relay_mode: Option<u8>) -> Result<Option<Relay>, String> {
    let offer = local_offer(a).await?;
    match relay_mode {
        Some(m) => {
            // B must have gathered before the relay can be built: a throw-away offer starts gathering
            let _ = b.create_offer().await.map_err(|e| e.to_string())?;
            b.wait_for_gathering_complete().await;
            let r = Relay::new(cand_addr(a).ok_or("no candidate")?, cand_addr(b).ok_or("no candidate")?).await;
            r.mode.store(m, Ordering::SeqCst);
            b.set_remote_description(rewrite_port(&offer, SdpType::Offer, r.b_face)).await.map_err(|e| e.to_string())?;
            let answer = local_answer(b).await?;
            a.set_remote_description(rewrite_port(&answer, SdpType::Answer, r.a_face)).await.map_err(|e| e.to_string())?;
            Ok(Some(r))
        }
        None => {
            b.set_remote_description(offer).await.map_err(|e| e.to_string())?;
            let answer = local_answer(b).await?;
            a.set_remote_description(answer).await.map_err(|e| e.to_string())?;
            Ok(None)
        }
    }
}

fn add_media(a: &PeerConnection, b: &PeerConnection) -> tokio::task::JoinHandle<()> {
    let (source, track, _) = rustrtc::media::track::sample_track(rustrtc::media::frame::MediaKind::Video, 100);
    let params = RtpCodecParameters { payload_type: 96, name: "VP8".to_string(), clock_rate: 90000, channels: 0 };
    let _ = a.add_track(track, params).unwrap();
    b.add_transceiver(MediaKind::Video, TransceiverDirection::RecvOnly);
    tokio::spawn(async move {
        let mut seq = 0u32;
        loop {
            let frame = VideoFrame { rtp_timestamp: seq.wrapping_mul(3000), data: bytes::Bytes::from(vec![seq as u8; 100]), is_last_packet: true, ..Default::default() };
            if source.send_video(frame).is_err() { break; }
            seq += 1;
            tokio::time::sleep(Duration::from_millis(10)).await;
        }
    })
}

/// bring a fresh pair to the phase; Err = the phase could not be reached (retried by the caller)
async fn setup(phase: Phase, ev: Ev) -> Result<Setup, String> {
    let mode = phase.mode();
    let mut ca_cfg = if phase.is_sip() { cfg_sip(mode.clone()) } else { cfg(mode.clone()) };
    if ev.blocked() { ca_cfg.sctp_max_buffered_amount = 4096; }
    let a = PeerConnection::new(ca_cfg);
    let wa = Watch::new(&a);
    let mut s = Setup { a: None, b: None, wa, dca: None, dcb: None, ca: None, cb: None, hs: vec![], relay: None, hole: None, ports: vec![], media: None, extra: vec![], extra_b: vec![], a_ports: vec![] };
    let with_dc = phase.has_channel();
    if with_dc {
        let dca = a.create_data_channel("neg", Some(dc_cfg())).map_err(|e| e.to_string())?;
        let (ca, ha) = collect(dca.clone());
        s.dca = Some(dca); s.ca = Some(ca); s.hs.push(ha);
    }
    match phase {
        Phase::Created | Phase::RtpCreated => {}
        Phase::Gathering => { let _ = a.create_offer().await.map_err(|e| e.to_string())?; }
        Phase::SipSrtpOffer | Phase::SipRtpOffer => {
            a.add_transceiver(MediaKind::Audio, TransceiverDirection::SendRecv);
            a.add_transceiver(MediaKind::Video, TransceiverDirection::SendRecv);
            let o = local_offer(&a).await?;
            if o.media_sections.len() != 2 || o.media_sections[0].port == o.media_sections[1].port { return Err("legacy-SIP offer is not two sections on two ports".into()); }
        }
        Phase::SipSrtpConnected | Phase::SipRtpConnected => {
            let b = PeerConnection::new(cfg_sip(mode.clone()));
            for pc in [&a, &b] {
                pc.add_transceiver(MediaKind::Audio, TransceiverDirection::SendRecv);
                pc.add_transceiver(MediaKind::Video, TransceiverDirection::SendRecv);
            }
            if let Err(e) = negotiate(&a, &b, None).await { s.b = Some(b); s.a = Some(a); teardown_quiet(s).await; return Err(e); }
            let (r, _) = timed(async { tokio::try_join!(a.wait_for_connected(), b.wait_for_connected()) }, Duration::from_secs(8)).await;
            if !matches!(r, Some(Ok(_))) { s.b = Some(b); s.a = Some(a); teardown_quiet(s).await; return Err("legacy-SIP pair did not connect".into()); }
            s.ports.extend(sdp_ports(&b));
            s.b = Some(b);
        }
        Phase::OfferSet => { let _ = local_offer(&a).await?; }
        Phase::Checking => {
            let b = PeerConnection::new(cfg(mode.clone()));
            let dcb = b.create_data_channel("neg", Some(dc_cfg())).map_err(|e| e.to_string())?;
            let offer = local_offer(&a).await?;
            b.set_remote_description(offer).await.map_err(|e| e.to_string())?;
            let answer = local_answer(&b).await?;
            if let Some(p) = cand_addr(&b) { s.ports.push(p.port()); }
            b.close();
            drop(dcb);
            drop(b);
            let hole = UdpSocket::bind("127.0.0.1:0").await.unwrap();
            a.set_remote_description(rewrite_port(&answer, SdpType::Answer, hole.local_addr().unwrap())).await.map_err(|e| e.to_string())?;
            s.hole = Some(hole);
            let w = &s.wa;
            if wait_until(|| w.obs().ice == IceConnectionState::Checking, Duration::from_secs(2)).await.is_none() {
                s.a = Some(a);
                teardown_quiet(s).await;
                return Err("never reached ICE checking".into());
            }
        }
        Phase::DtlsHandshaking | Phase::DtlsConnected | Phase::ChannelsOpen | Phase::MediaFlowing | Phase::RtpFlowing | Phase::JustConnected | Phase::JustConnectedMedia | Phase::PeerChannelOpen | Phase::ThreeChannelsOpen => {
            let b = PeerConnection::new(cfg(mode.clone()));
            if with_dc {
                let dcb = b.create_data_channel("neg", Some(dc_cfg())).map_err(|e| e.to_string())?;
                let (cb, hb) = collect(dcb.clone());
                s.dcb = Some(dcb); s.cb = Some(cb); s.hs.push(hb);
            }
            if phase == Phase::ThreeChannelsOpen {
                for id in 1..3u16 {
                    let c = DataChannelConfig { label: format!("neg{}", id), negotiated: Some(id), ordered: true, ..Default::default() };
                    let da = a.create_data_channel(&c.label, Some(c.clone())).map_err(|e| e.to_string())?;
                    let db = b.create_data_channel(&c.label, Some(c.clone())).map_err(|e| e.to_string())?;
                    let (cx, hx) = collect(da.clone());
                    s.hs.push(hx);
                    s.extra.push((da, cx));
                    s.extra_b.push(db);
                }
            }
            if matches!(phase, Phase::DtlsConnected | Phase::JustConnectedMedia) {
                a.add_transceiver(MediaKind::Audio, TransceiverDirection::SendRecv);
                b.add_transceiver(MediaKind::Audio, TransceiverDirection::SendRecv);
            }
            if matches!(phase, Phase::MediaFlowing | Phase::RtpFlowing) { s.media = Some(add_media(&a, &b)); }
            let relay_mode = if phase == Phase::DtlsHandshaking { Some(1) } else if ev.blocked() { Some(0) } else { None };
            match negotiate(&a, &b, relay_mode).await {
                Ok(r) => s.relay = r,
                Err(e) => { s.b = Some(b); s.a = Some(a); teardown_quiet(s).await; return Err(e); }
            }
            if phase == Phase::DtlsHandshaking {
                let w = &s.wa;
                if wait_until(|| matches!(w.obs().ice, IceConnectionState::Connected | IceConnectionState::Completed), Duration::from_secs(5)).await.is_none() {
                    s.b = Some(b); s.a = Some(a);
                    teardown_quiet(s).await;
                    return Err("ICE never connected through the relay".into());
                }
                // let start_dtls begin
                let a2 = a.clone();
                let _ = wait_until(|| a2.verif_dtls_transport().is_some(), Duration::from_secs(2)).await;
                drop(a2);
                tokio::time::sleep(Duration::from_millis(30)).await;
            } else if matches!(phase, Phase::JustConnected | Phase::JustConnectedMedia) {
                // no settling at all: the event lands the moment A itself reports Connected
                let (r, _) = timed(a.wait_for_connected(), Duration::from_secs(8)).await;
                if !matches!(r, Some(Ok(_))) {
                    s.b = Some(b); s.a = Some(a);
                    teardown_quiet(s).await;
                    return Err("A never reported Connected".into());
                }
            } else {
                let (r, _) = timed(async { tokio::try_join!(a.wait_for_connected(), b.wait_for_connected()) }, Duration::from_secs(8)).await;
                let mut ok = matches!(r, Some(Ok(_)));
                if ok && with_dc {
                    // known race outside C17 (set_remote_description stores the description after starting ICE): no SCTP
                    if a.sctp_diagnostic_info().is_none() || b.sctp_diagnostic_info().is_none() { ok = false; }
                    else {
                        let (ca, cb) = (s.ca.clone().unwrap(), s.cb.clone().unwrap());
                        ok = wait_until(|| ca.open.load(Ordering::SeqCst) > 0 && cb.open.load(Ordering::SeqCst) > 0, Duration::from_secs(4)).await.is_some();
                    }
                }
                if !ok {
                    s.b = Some(b); s.a = Some(a);
                    teardown_quiet(s).await;
                    return Err("pair did not reach the phase".into());
                }
                if phase == Phase::ThreeChannelsOpen {
                    let ex: Vec<Arc<ChanCount>> = s.extra.iter().map(|(_, c)| c.clone()).collect();
                    let _ = wait_until(|| ex.iter().all(|c| c.open.load(Ordering::SeqCst) > 0), Duration::from_secs(3)).await;
                }
                if phase == Phase::PeerChannelOpen {
                    // the PEER opens a channel in-band; A's DataChannel listener announces it through pc.recv()
                    let dcb2 = b.create_data_channel("inband", None).map_err(|e| e.to_string())?;
                    let mut got = None;
                    let deadline = Instant::now() + Duration::from_secs(4);
                    while Instant::now() < deadline {
                        match tokio::time::timeout(Duration::from_millis(500), a.recv()).await {
                            Ok(Some(rustrtc::PeerConnectionEvent::DataChannel(dc))) => { got = Some(dc); break; }
                            Ok(Some(_)) => continue,
                            Ok(None) => break,
                            Err(_) => continue,
                        }
                    }
                    let Some(dc) = got else {
                        s.b = Some(b); s.a = Some(a);
                        teardown_quiet(s).await;
                        return Err("the peer's in-band channel was never announced to A".into());
                    };
                    let (cx, hx) = collect(dc.clone());
                    s.hs.push(hx);
                    let cx2 = cx.clone();
                    let _ = wait_until(|| cx2.open.load(Ordering::SeqCst) > 0, Duration::from_secs(1)).await;
                    s.extra.push((dc, cx));
                    s.extra_b.push(dcb2);
                }
                if phase == Phase::MediaFlowing {
                    let _ = a.send_data(0, b"hello").await;
                    let _ = b.send_data(0, b"world").await;
                }
                if matches!(phase, Phase::MediaFlowing | Phase::RtpFlowing) { tokio::time::sleep(Duration::from_millis(60)).await; }
            }
            if let Some(p) = cand_addr(&b) { s.ports.push(p.port()); }
            s.b = Some(b);
        }
    }
    if let Some(p) = cand_addr(&a) { s.ports.push(p.port()); s.a_ports.push(p.port()); }
    for p in sdp_ports(&a) { if !s.a_ports.contains(&p) { s.a_ports.push(p); } if !s.ports.contains(&p) { s.ports.push(p); } }
    s.a = Some(a);
    Ok(s)
}

async fn teardown_quiet(mut s: Setup) {
    if let Some(a) = s.a.take() { a.close(); }
    if let Some(b) = s.b.take() { b.close(); }
    for h in &s.hs { h.abort(); }
    if let Some(m) = s.media.take() { m.abort(); }
    drop(s);
    let _ = wait_until(|| tasks() == 0, Duration::from_secs(3)).await;
}

async fn inject_sctp(from: &PeerConnection, ty: u8) -> bool {
    let Some(d) = from.verif_dtls_transport() else { return false };
    let pkt = build_packet(5000, 5000, 0, &[Chunk { ty, flags: 0, value: vec![] }]);
    d.send(bytes::Bytes::from(pkt)).await.is_ok()
}

fn ms(d: Duration) -> f64 { (d.as_secs_f64() * 1e6).round() / 1e3 }
fn cc(c: &Option<Arc<ChanCount>>) -> Option<(usize, usize, usize)> {
    c.as_ref().map(|c| (c.open.load(Ordering::SeqCst), c.close.load(Ordering::SeqCst), c.ended.load(Ordering::SeqCst)))
}

async fn run_scenario(sc: Scenario) -> Outcome {
    let mut out = Outcome::default();
    let mut s = None;
    let mut last_err = String::new();
    for _ in 0..6 {
        out.setup_attempts += 1;
        match setup(sc.phase, sc.ev).await {
            Ok(x) => { s = Some(x); break; }
            Err(e) => { out.notes.push(format!("setup attempt {} failed: {}; tasks left over from it: {}", out.setup_attempts, e, tasks())); last_err = e; }
        }
    }
    let Some(mut s) = s else { out.setup_failed = Some(last_err); return out; };
    out.ports = s.ports.clone();
    let socks = inodes_of(&s.ports);
    out.a_ports = s.a_ports.clone();
    let a_socks = inodes_of(&s.a_ports);
    let ev = sc.ev;
    let a = s.a.take().unwrap();
    // pending calls started before the event
    let pa = a.clone();
    let pending_recv = tokio::spawn(async move { let _ = pa.recv().await; });
    let pending_wait = if matches!(sc.phase, Phase::Checking | Phase::DtlsHandshaking | Phase::OfferSet) {
        let pa = a.clone();
        Some(tokio::spawn(async move { let _ = pa.wait_for_connected().await; }))
    } else { None };
    // a sender parked on a full window
    let mut sender_task = None;
    let mut extra_senders: Vec<tokio::task::JoinHandle<(usize, String)>> = vec![];
    if ev.blocked() {
        if let Some(r) = &s.relay { r.mode.store(3, Ordering::SeqCst); }
        let pa = a.clone();
        let progress = Arc::new(Mutex::new(Instant::now()));
        let p2 = progress.clone();
        sender_task = Some(tokio::spawn(async move {
            let mut n = 0usize;
            loop {
                *p2.lock().unwrap() = Instant::now();
                match pa.send_data(0, &[7u8; 1000]).await { Ok(()) => n += 1, Err(e) => return (n, e.to_string()) }
                if n > 100_000 { return (n, "never blocked".into()); }
            }
        }));
        // parked = no progress for 150 ms
        let _ = wait_until(|| progress.lock().unwrap().elapsed() > Duration::from_millis(150), Duration::from_secs(3)).await;
        if ev.blocked3() {
            for ch in 1..3u16 {
                let pa = a.clone();
                let progress = Arc::new(Mutex::new(Instant::now()));
                let p2 = progress.clone();
                extra_senders.push(tokio::spawn(async move {
                    let mut n = 0usize;
                    loop {
                        *p2.lock().unwrap() = Instant::now();
                        match pa.send_data(ch, &[7u8; 1000]).await { Ok(()) => n += 1, Err(e) => return (n, e.to_string()) }
                        if n > 100_000 { return (n, "never blocked".into()); }
                    }
                }));
                let _ = wait_until(|| progress.lock().unwrap().elapsed() > Duration::from_millis(150), Duration::from_secs(3)).await;
            }
        }
    }
    tokio::time::sleep(Duration::from_millis(sc.jitter_ms)).await;
    out.before = Some(s.wa.obs());
    out.tasks_before_event = tasks();
    // ------------------------------------------------------------------ the event
    let t_event = Instant::now();
    let mut a_opt = Some(a);
    {
        let a = a_opt.as_ref().unwrap();
        match ev {
            Ev::Close | Ev::BlockedThenClose => a.close(),
            Ev::Drop | Ev::DropStarved => {}
            Ev::CloseTwice => { a.close(); a.close(); }
            Ev::CloseThenDrop => a.close(),
            Ev::CloseNotify | Ev::BlockedThenCloseNotify => {
                if let Some(d) = s.b.as_ref().and_then(|b| b.verif_dtls_transport()) { d.close(); } else { out.notes.push("peer has no DTLS transport".into()); }
            }
            Ev::Abort | Ev::BlockedThenAbort => { if !inject_sctp(s.b.as_ref().unwrap(), 6).await { out.notes.push("inject failed".into()); } }
            Ev::ShutdownAck => { inject_sctp(s.b.as_ref().unwrap(), 8).await; }
            Ev::ShutdownAlone => { inject_sctp(s.b.as_ref().unwrap(), 7).await; }
            Ev::ShutdownThenComplete => {
                inject_sctp(s.b.as_ref().unwrap(), 7).await;
                tokio::time::sleep(Duration::from_millis(150)).await;
                inject_sctp(s.b.as_ref().unwrap(), 14).await;
            }
            Ev::IceStop | Ev::Blocked3ThenIceStop => a.ice_transport().stop(),
            Ev::Blocked3ThenAbort => { if !inject_sctp(s.b.as_ref().unwrap(), 6).await { out.notes.push("inject failed".into()); } }
            Ev::Blocked3ThenCloseNotify => { if let Some(d) = s.b.as_ref().and_then(|b| b.verif_dtls_transport()) { d.close(); } }
            Ev::LateChanIceStopClose | Ev::LateChanIceStopDrop | Ev::LateChanAbortClose | Ev::LateChanAbortDrop => {
                if matches!(ev, Ev::LateChanIceStopClose | Ev::LateChanIceStopDrop) { a.ice_transport().stop(); } else { inject_sctp(s.b.as_ref().unwrap(), 6).await; }
                // the association ends on its own: wait until the connection shows it
                let w = &s.wa;
                let _ = wait_until(|| w.obs().reason.is_some() && w.obs().peer != PeerConnectionState::Connected, Duration::from_secs(5)).await;
                tokio::time::sleep(Duration::from_millis(150)).await;
                out.notes.push(format!("association ended on its own: {:?}; primary channel {:?}", s.wa.obs(), cc(&s.ca)));
                // ... and only now the application creates another channel (negotiated, or in-band on odd delays)
                let late = if sc.jitter_ms % 2 == 1 { a.create_data_channel("late-inband", None) }
                           else { a.create_data_channel("late", Some(DataChannelConfig { label: "late".into(), negotiated: Some(7), ordered: true, ..Default::default() })) };
                match late {
                    Ok(dc) => { let (cx, hx) = collect(dc.clone()); s.hs.push(hx); s.extra.push((dc, cx)); }
                    Err(e) => out.notes.push(format!("create_data_channel after the end failed: {}", e)),
                }
                tokio::time::sleep(Duration::from_millis(50)).await;
                if matches!(ev, Ev::LateChanIceStopClose | Ev::LateChanAbortClose) { a.close(); }
            }
            Ev::IceStopThenClose => {
                a.ice_transport().stop();
                let w = &s.wa;
                let _ = wait_until(|| w.obs().peer != PeerConnectionState::Connected, Duration::from_secs(2)).await;
                tokio::time::sleep(Duration::from_millis(150)).await;
                a.close();
            }
            Ev::PeerClose => { if let Some(b) = &s.b { b.close(); } }
            Ev::PeerDrop => { s.b = None; s.dcb = None; }
            Ev::RaceCloseNotify if sc.yields.is_some() => {
                if let Some(d) = s.b.as_ref().and_then(|b| b.verif_dtls_transport()) { d.close(); }
                for _ in 0..sc.yields.unwrap() { tokio::task::yield_now().await; }
                a.close();
            }
            Ev::RaceCloseNotify | Ev::RaceCloseAbort | Ev::RaceCloseClose => {
                let a2 = a.clone();
                let b2 = s.b.clone();
                let t1 = tokio::spawn(async move { a2.close(); });
                let t2 = tokio::spawn(async move {
                    match ev {
                        Ev::RaceCloseNotify => { if let Some(d) = b2.as_ref().and_then(|b| b.verif_dtls_transport()) { d.close(); } }
                        Ev::RaceCloseAbort => { if let Some(b) = &b2 { inject_sctp(b, 6).await; } }
                        _ => {}
                    }
                });
                if ev == Ev::RaceCloseClose { a.close(); }
                let _ = t1.await;
                let _ = t2.await;
            }
        }
    }
    if ev.drops_a() {
        // the pending calls hold clones of the handle: a real drop needs them gone first
        pending_recv.abort();
        if let Some(p) = &pending_wait { p.abort(); }
        if let Some(t) = &sender_task { t.abort(); }
        for t in &extra_senders { t.abort(); }
        tokio::time::sleep(Duration::from_millis(20)).await;
        a_opt = None;
        if sc.phase == Phase::DtlsHandshaking && ev == Ev::Drop {
            // deferred: start_dtls holds its own reference until the handshake ends; let it end
            tokio::time::sleep(Duration::from_millis(200)).await;
            out.notes.push(format!("200 ms after dropping the last handle in mid-handshake A still reports {:?} (teardown deferred to the end of the handshake, at most the 30 s DTLS timeout)", s.wa.obs().peer));
            if let Some(r) = &s.relay { r.mode.store(0, Ordering::SeqCst); }
        }
    }
    // ------------------------------------------------------------------ settle: reported values stable
    let mut last = s.wa.obs();
    let cx = |s: &Setup| -> Vec<(usize, usize, usize)> { s.extra.iter().map(|(_, c)| (c.open.load(Ordering::SeqCst), c.close.load(Ordering::SeqCst), c.ended.load(Ordering::SeqCst))).collect() };
    let mut last_c = cc(&s.ca);
    let mut last_x = cx(&s);
    let mut stable_since = Instant::now();
    let want_end = ev.app_closed() || ev.lower_end();
    loop {
        tokio::time::sleep(Duration::from_millis(10)).await;
        let now = s.wa.obs();
        let now_c = cc(&s.ca);
        let now_x = cx(&s);
        if now != last || now_c != last_c || now_x != last_x { last = now; last_c = now_c; last_x = now_x; stable_since = Instant::now(); }
        let ended = last.reason.is_some() && matches!(last.peer, PeerConnectionState::Disconnected | PeerConnectionState::Failed | PeerConnectionState::Closed);
        let quiet = stable_since.elapsed() > Duration::from_millis(400);
        if want_end && !ended && ev != Ev::DropStarved {
            if t_event.elapsed() > END_MAX { break; }
            continue;
        }
        if ev == Ev::DropStarved {
            // bounded by the DTLS handshake timeout (30 s) + margin
            if (ended && quiet) || t_event.elapsed() > Duration::from_secs(36) { break; }
            continue;
        }
        if quiet || t_event.elapsed() > SETTLE_MAX { break; }
    }
    out.settle_ms = ms(t_event.elapsed());
    if let Some(a) = a_opt.as_ref() {
        if let Some(d) = a.verif_dtls_transport() {
            out.dtls_saw_close_notify = matches!(d.get_state(), rustrtc::transports::dtls::DtlsState::Closed);
        }
    }
    out.after = Some(last.clone());
    out.chan = cc(&s.ca);
    out.extra = cx(&s);
    // the parked sender
    if let Some(t) = sender_task.take() {
        if ev.drops_a() { out.sender = 0; } else {
            let t0 = Instant::now();
            let ah = t.abort_handle();
            let r = timed(t, CALL_BOUND).await.0;
            ah.abort();
            match r {
                Some(Ok((_n, e))) => { out.sender = if e == "never blocked" { 2 } else { 1 }; out.sender_latency_ms = Some(ms(t0.elapsed())); }
                Some(Err(_)) => { out.sender = 0; }
                None => { out.sender = 3; }
            }
        }
    }
    {
        // all further parked senders are observed at the same time; one that is still parked after the
        // re-observation is aborted so that it does not keep the connection (and the release check) waiting
        let aborts: Vec<tokio::task::AbortHandle> = extra_senders.iter().map(|t| t.abort_handle()).collect();
        let obs = futures::future::join_all(extra_senders.drain(..).map(|t| timed(t, CALL_BOUND))).await;
        for (r, _) in obs {
            out.senders_extra.push(match r {
                Some(Ok((_n, e))) => if e == "never blocked" { 2 } else { 1 },
                Some(Err(_)) => 0,
                None => 3,
            });
        }
        for a in aborts { a.abort(); }
    }
    // close() with the handle still held: everything A had bound must be gone (not only after the later drop)
    if a_opt.is_some() && ev.app_closed() {
        let _ = wait_until2(|| {
            let now: std::collections::HashSet<u64> = udp_sockets().into_iter().map(|(_, i)| i).collect();
            a_socks.iter().all(|(_, i)| !now.contains(i))
        }, CALL_BOUND).await;
        let now: std::collections::HashSet<u64> = udp_sockets().into_iter().map(|(_, i)| i).collect();
        out.a_ports_bound_after_close = a_socks.iter().filter(|(_, i)| now.contains(i)).map(|(p, _)| *p).collect();
    }
    // ------------------------------------------------------------------ calls after the event
    if let Some(a) = a_opt.as_ref() {
        let closed = last.peer == PeerConnectionState::Closed && last.sig == SignalingState::Closed;
        let (r, d) = timed(a.send_data(0, b"x"), CALL_BOUND).await;
        out.calls.push(("send_data".into(), r.map(|x| match x { Ok(()) => "Ok".to_string(), Err(e) => format!("Err({})", e) }), ms(d)));
        let (r, d) = timed(a.create_offer(), CALL_BOUND).await;
        out.calls.push(("create_offer".into(), r.map(|x| if x.is_ok() { "Ok".to_string() } else { "Err".to_string() }), ms(d)));
        let (r, d) = timed(a.get_stats(), CALL_BOUND).await;
        out.calls.push(("get_stats".into(), r.map(|x| if x.is_ok() { "Ok".to_string() } else { "Err".to_string() }), ms(d)));
        if closed {
            let (r, d) = timed(a.wait_for_gathering_complete(), CALL_BOUND).await;
            out.calls.push(("wait_for_gathering_complete".into(), r.map(|_| "returned".to_string()), ms(d)));
        }
        if closed || last.peer == PeerConnectionState::Failed {
            let (r, d) = timed(a.wait_for_connected(), CALL_BOUND).await;
            out.calls.push(("wait_for_connected".into(), r.map(|x| if x.is_ok() { "Ok".to_string() } else { "Err".to_string() }), ms(d)));
        }
        if closed {
            let fin = wait_until2(|| pending_recv.is_finished(), CALL_BOUND).await;
            out.calls.push(("pc.recv (pending since before the event)".into(), fin.map(|_| "returned".to_string()), fin.map(ms).unwrap_or(ms(CALL_BOUND))));
            let (r, d) = timed(a.recv(), CALL_BOUND).await;
            out.calls.push(("pc.recv".into(), r.map(|x| if x.is_some() { "Some".to_string() } else { "None".to_string() }), ms(d)));
            if let Some(p) = &pending_wait {
                let fin = wait_until2(|| p.is_finished(), CALL_BOUND).await;
                out.calls.push(("wait_for_connected (pending since before the event)".into(), fin.map(|_| "returned".to_string()), fin.map(ms).unwrap_or(ms(CALL_BOUND))));
            }
            if let Some(ca) = &s.ca {
                let fin = wait_until2(|| ca.ended.load(Ordering::SeqCst) == 1, CALL_BOUND).await;
                out.calls.push(("dc.recv (pending since before the event) -> None".into(), fin.map(|_| "returned".to_string()), fin.map(ms).unwrap_or(ms(CALL_BOUND))));
            }
            if let Some(dc) = &s.dca {
                let (r, d) = timed(dc.recv(), CALL_BOUND).await;
                out.calls.push(("dc.recv after close".into(), r.map(|x| if x.is_some() { "Some".to_string() } else { "None".to_string() }), ms(d)));
            }
        }
    }
    pending_recv.abort();
    if let Some(p) = &pending_wait { p.abort(); }
    // ------------------------------------------------------------------ final close + drop of everything, release
    let t_rel = Instant::now();
    if let Some(a) = a_opt.take() { a.close(); drop(a); }
    if let Some(b) = s.b.take() { b.close(); drop(b); }
    if let Some(m) = s.media.take() { m.abort(); }
    tokio::time::sleep(Duration::from_millis(60)).await;
    out.final_obs = Some(s.wa.obs());
    out.chan_final = cc(&s.ca);
    out.extra_final = cx(&s);
    for h in &s.hs { h.abort(); }
    drop(s);
    let mut rel = wait_until(|| tasks() == 0, RELEASE_BOUND).await;
    if rel.is_none() {
        // re-observe with a much longer wait before calling it a leak (a loaded machine, or a timer-bound task)
        let n5 = tasks();
        rel = wait_until(|| tasks() == 0, long_wait()).await;
        out.reobserved = true;
        out.notes.push(format!("{} task(s) still alive {} ms after the final close + drop; re-observed: {}", n5, ms(RELEASE_BOUND),
            match rel { Some(_) => format!("all gone after {} ms", ms(t_rel.elapsed())), None => format!("{} still alive after {} ms", tasks(), ms(t_rel.elapsed())) }));
    }
    out.tasks_after_release = tasks();
    out.release_ms = rel.map(|_| ms(t_rel.elapsed()));
    let bound_deadline = Instant::now() + Duration::from_secs(2);
    loop {
        let now: std::collections::HashSet<u64> = udp_sockets().into_iter().map(|(_, i)| i).collect();
        out.ports_still_bound = socks.iter().filter(|(_, i)| now.contains(i)).map(|(p, _)| *p).collect();
        if out.ports_still_bound.is_empty() || Instant::now() > bound_deadline { break; }
        tokio::time::sleep(Duration::from_millis(50)).await;
    }
    out
}

// ------------------------------------------------------------------------------------ rendering + oracle
fn peer_term(p: PeerConnectionState) -> String { format!("PeerConnectionState_{:?}", p) }
fn ice_term(p: IceConnectionState) -> String { format!("IceConnectionState_{:?}", p) }
fn sig_term(p: SignalingState) -> String { format!("SignalingState_{:?}", p) }
fn reason_name(r: &DisconnectReason) -> String {
    let s = format!("{:?}", r);
    s.split('(').next().unwrap().to_string()
}
fn reason_term(r: &Option<DisconnectReason>) -> String {
    match r { None => "None".into(), Some(r) => format!("(Some DisconnectReason_{})", reason_name(r)) }
}

/// (model term, oracle verdict, description, usable)
fn judge(sc: &Scenario, o: &Outcome) -> (String, Option<String>, serde_json::Value, bool) {
    let mut fails: Vec<String> = vec![];
    let desc_base = json!({"phase": format!("{:?}", sc.phase), "event": format!("{:?}", sc.ev), "jitter_ms": sc.jitter_ms, "yields_before_close": sc.yields});
    if let Some(e) = &o.setup_failed {
        return ("-".into(), None, json!({"scenario": desc_base, "setup_failed": e}), false);
    }
    let after = o.after.clone().unwrap();
    let fin = o.final_obs.clone().unwrap();
    let ev = sc.ev;
    // O1: the application closed or dropped it
    if ev.app_closed() {
        if !(after.peer == PeerConnectionState::Closed && after.sig == SignalingState::Closed && after.ice == IceConnectionState::Closed && after.reason.is_some()) {
            fails.push(format!("after {:?} the connection reports {:?} (want Closed/Closed/Closed + reason)", ev, after));
        }
    }
    // O2: a lower layer ended it
    if ev.lower_end() {
        let ended = after.reason.is_some() && matches!(after.peer, PeerConnectionState::Disconnected | PeerConnectionState::Failed | PeerConnectionState::Closed);
        if !ended { fails.push(format!("{:?} left the connection reporting {:?} after {} ms (no terminal state / no reason)", ev, after, o.settle_ms)); }
    }
    // O5: the reason does not change; the final close ends in Closed
    if let Some(r) = &after.reason { if fin.reason.as_ref() != Some(r) { fails.push(format!("disconnect reason changed from {:?} to {:?}", r, fin.reason)); } }
    if let Some(b) = &o.before { if let Some(r) = &b.reason { if after.reason.as_ref() != Some(r) { fails.push(format!("disconnect reason changed from {:?} to {:?}", r, after.reason)); } } }
    if !(fin.peer == PeerConnectionState::Closed && fin.sig == SignalingState::Closed && fin.reason.is_some()) {
        fails.push(format!("after the final close() the connection reports {:?}", fin));
    }
    // O3: channels
    if let Some((opens, closes, ended)) = o.chan {
        if closes > 1 { fails.push(format!("channel observed {} Close events", closes)); }
        if opens > 1 { fails.push(format!("channel observed {} Open events", opens)); }
        if ev.ends_assoc() && closes != 1 {
            fails.push(format!("channel of an ended connection observed {} Close events (want exactly 1) after {:?}", closes, ev));
        }
        if ev.app_closed() && ended != 1 { fails.push("channel event stream did not end after close()".into()); }
    }
    if let Some((_, closes, ended)) = o.chan_final {
        if closes != 1 { fails.push(format!("after the final close() the channel has observed {} Close events (want exactly 1)", closes)); }
        if ended != 1 { fails.push("after the final close() the channel event stream has not ended".into()); }
    }
    for (k, (opens, closes, ended)) in o.extra.iter().enumerate() {
        if *closes > 1 { fails.push(format!("channel #{} observed {} Close events", k + 1, closes)); }
        if *opens > 1 { fails.push(format!("channel #{} observed {} Open events", k + 1, opens)); }
        if ev.ends_assoc() && *closes != 1 { fails.push(format!("channel #{} of an ended connection observed {} Close events (want exactly 1) after {:?}", k + 1, closes, ev)); }
        if ev.app_closed() && *ended != 1 { fails.push(format!("event stream of channel #{} did not end after close()/drop", k + 1)); }
    }
    for (k, (_, closes, ended)) in o.extra_final.iter().enumerate() {
        if *closes != 1 { fails.push(format!("after the final close() channel #{} has observed {} Close events (want exactly 1)", k + 1, closes)); }
        if *ended != 1 { fails.push(format!("after the final close() the event stream of channel #{} has not ended", k + 1)); }
    }
    for (k, f) in o.senders_extra.iter().enumerate() {
        if *f != 1 { fails.push(format!("sender parked on channel {} {} after the association was ended from below ({:?})", k + 1, match f { 3 => "is still parked", 2 => "never blocked (scenario invalid)", _ => "vanished" }, ev)); }
    }
    // O4: calls return
    let mut slow: Vec<String> = vec![];
    for (name, res, t) in &o.calls {
        if res.is_none() { fails.push(format!("{} did not return within {} ms", name, t)); }
        else if *t > ms(CALL_BOUND) { slow.push(format!("{} took {} ms (first bound {} ms, re-observed)", name, t, ms(CALL_BOUND))); }
        if name == "send_data" && ev.ends_assoc() && sc.phase.has_channel() {
            if res.as_deref() == Some("Ok") { fails.push("send_data on a channel of an ended connection returned Ok".into()); }
        }
    }
    if ev.blocked() && !ev.drops_a() && o.sender != 1 {
        fails.push(format!("sender parked on a full window {} after the association died ({:?})", match o.sender { 3 => "is still parked", 2 => "never blocked (scenario invalid)", _ => "vanished" }, ev));
    }
    if !o.a_ports_bound_after_close.is_empty() {
        fails.push(format!("UDP ports {:?} (of {:?}: selected candidate + every port of the local SDP) still bound {} ms after close() while the application keeps its handle", o.a_ports_bound_after_close, o.a_ports, ms(CALL_BOUND + long_wait())));
    }
    // O6: release
    if o.tasks_after_release != 0 {
        fails.push(format!("{} task(s) of the connection pair still alive {} ms after the final close + drop (first bound {} ms, re-observed)", o.tasks_after_release, ms(RELEASE_BOUND + long_wait()), ms(RELEASE_BOUND)));
    }
    if !o.ports_still_bound.is_empty() { fails.push(format!("UDP ports {:?} still bound after the final close + drop", o.ports_still_bound)); }
    // ------------------------------------------------------------------ model term
    let mut all: Vec<(usize, usize, usize)> = o.chan.iter().copied().collect();
    all.extend(o.extra.iter().copied());
    let chans = format!("[{}]", all.iter().map(|(op, cl, en)| format!("({}, {}, {})", op, cl, if *en == 1 { "true" } else { "false" })).collect::<Vec<_>>().join("; "));
    let term = if sc.phase.model() == "-" { "-".to_string() } else { format!("mkCase {} {} {} {} {} {} {} {}", sc.phase.model(), ev.threads(sc.phase, o.dtls_saw_close_notify), peer_term(after.peer), ice_term(after.ice), sig_term(after.sig),
        reason_term(&after.reason), chans, o.sender) };
    let desc = json!({
        "scenario": desc_base,
        "model": {"phase": sc.phase.model(), "threads": ev.threads(sc.phase, o.dtls_saw_close_notify)}, "peer_close_notify_reached_dtls": o.dtls_saw_close_notify,
        "before": format!("{:?}", o.before), "after_event": format!("{:?}", after), "after_final_close": format!("{:?}", fin),
        "channel(open,close,ended)": format!("{:?}", o.chan), "channel_final": format!("{:?}", o.chan_final),
        "further_channels": format!("{:?}", o.extra), "further_channels_final": format!("{:?}", o.extra_final), "further_parked_senders": format!("{:?}", o.senders_extra),
        "parked_sender": match o.sender { 0 => "none", 1 => "returned Err", 2 => "returned Ok", _ => "still parked" },
        "sender_release_ms": o.sender_latency_ms,
        "calls": o.calls.iter().map(|(n, r, t)| json!({"call": n, "result": r, "ms": t})).collect::<Vec<_>>(),
        "settle_ms": o.settle_ms, "tasks_before_event": o.tasks_before_event, "tasks_after_release": o.tasks_after_release,
        "release_ms": o.release_ms, "failed_in_parallel_pass_not_rerun": o.unconfirmed, "reobserved": o.reobserved || !slow.is_empty(), "slow_observations": slow, "setup_attempts": o.setup_attempts, "udp_ports": o.ports, "udp_ports_of_A_incl_local_sdp": o.a_ports, "udp_ports_of_A_still_bound_after_close_with_handle_kept": o.a_ports_bound_after_close, "udp_ports_still_bound": o.ports_still_bound, "notes": o.notes,
    });
    let fail = if fails.is_empty() { None } else { Some(fails.join("; ")) };
    (term, fail, desc, true)
}

// ------------------------------------------------------------------------------------ SCTP-level cases (scripted peer)
/// the association alone (real SctpTransport on real DTLS, the harness is the SCTP peer): a sender parked on a
/// zero window when the association dies, per cause; oracle only (there is no PeerConnection to compare).
async fn uut_case(cause: &'static str) -> (serde_json::Value, Option<String>) {
    use vh::sctp_peer::{Uut, UutOpts};
    let mut c = RtcConfiguration::default();
    c.sctp_max_buffered_amount = 4096;
    let dcc = DataChannelConfig { label: "x".into(), negotiated: Some(0), ordered: true, ..Default::default() };
    let dcc2 = DataChannelConfig { label: "y".into(), negotiated: Some(1), ordered: true, ..Default::default() };
    let mut u = Uut::start(UutOpts { config: c, channels: vec![(0, dcc), (1, dcc2)], peer_rwnd: 1500, ..Default::default() }).await;
    let sctp = u.sctp.clone();
    let sender = tokio::spawn(async move {
        let mut n = 0;
        loop {
            match sctp.send_data(0, &[7u8; 1000]).await { Ok(()) => n += 1, Err(e) => return (n, e.to_string()) }
            if n > 100_000 { return (n, "never blocked".into()); }
        }
    });
    tokio::time::sleep(Duration::from_millis(250)).await;
    let parked = !sender.is_finished();
    let t0 = Instant::now();
    let mut shutdown_note: Option<String> = None;
    let mut shutdown_unacked = false;
    match cause {
        "abort" => u.inject_chunks(&[Chunk { ty: 6, flags: 0, value: vec![] }]),
        "shutdown_ack" => u.inject_chunks(&[Chunk { ty: 8, flags: 0, value: vec![] }]),
        "shutdown_complete" => {
            u.inject_chunks(&[Chunk { ty: 7, flags: 0, value: vec![] }]);
            tokio::time::sleep(Duration::from_millis(50)).await;
            u.inject_chunks(&[Chunk { ty: 14, flags: 0, value: vec![] }])
        }
        // a graceful shutdown by the peer while DATA of the endpoint is still un-SACKed (the scripted peer has
        // acknowledged nothing): SHUTDOWN (repeated like a T2-shutdown timer would), SHUTDOWN ACK expected within
        // the bound, only then SHUTDOWN COMPLETE -- as a real peer would do it
        "shutdown_with_unacked_data" => {
            let cum = u.uut_initial_tsn.wrapping_sub(1).to_be_bytes().to_vec();
            let mut acked = false;
            let mut data_seen = 0usize;
            for _round in 0..4 {
                u.inject_chunks(&[Chunk { ty: 7, flags: 0, value: cum.clone() }]);
                let deadline = Instant::now() + Duration::from_millis(500);
                while Instant::now() < deadline && !acked {
                    if let Some(pk) = u.next_packet(Duration::from_millis(100)).await {
                        for c in &pk.chunks { if c.ty == 8 { acked = true; } if c.ty == 0 { data_seen += 1; } }
                    }
                }
                if acked { break; }
            }
            shutdown_note = Some(format!("SHUTDOWN ACK {} (DATA chunks of the endpoint seen un-SACKed meanwhile: {}, buffered {} B)", if acked { "received" } else { "NOT received within 2 s / 4 SHUTDOWNs" }, data_seen, u.sctp.buffered_amount()));
            if acked { u.inject_chunks(&[Chunk { ty: 14, flags: 0, value: vec![] }]); } else { shutdown_unacked = true; }
        }
        "local_close" => u.sctp.close(),
        "close_twice" => { u.sctp.close(); u.sctp.close(); }
        // channel 1 is closed by the application first (its Close is delivered, its stream stays open), then the peer aborts
        "close_channel_then_abort" => {
            let _ = tokio::time::timeout(CALL_BOUND, u.sctp.close_data_channel(1)).await;
            tokio::time::sleep(Duration::from_millis(30)).await;
            u.inject_chunks(&[Chunk { ty: 6, flags: 0, value: vec![] }])
        }
        _ => u.pair.server.dtls.close(), // peer DTLS close_notify
    }
    let r = tokio::time::timeout(CALL_BOUND, sender).await;
    let lat = ms(t0.elapsed());
    let mut fails = vec![];
    let res = match &r { Ok(Ok((_, e))) => e.clone(), Ok(Err(_)) => "sender task failed".into(), Err(_) => "STILL PARKED".into() };
    if !parked { fails.push("sender never parked (scenario invalid)".to_string()); }
    if shutdown_unacked { fails.push("peer SHUTDOWN with DATA of the endpoint still un-SACKed was not answered with SHUTDOWN ACK (4 SHUTDOWNs, 2 s)".to_string()); }
    if r.is_err() { fails.push(format!("sender parked on a zero window did not return within {} ms after {}", ms(CALL_BOUND), cause)); }
    let mut per_chan = vec![];
    for dc in &u.strong {
        let evs = Uut::channel_events(dc, Duration::from_millis(150)).await;
        let closes = evs.iter().filter(|e| matches!(e, DataChannelEvent::Close)).count();
        let opens = evs.iter().filter(|e| matches!(e, DataChannelEvent::Open)).count();
        if closes != 1 { fails.push(format!("channel {} observed {} Close events after {} (want exactly 1)", dc.id, closes, cause)); }
        per_chan.push(json!({"id": dc.id, "opens": opens, "closes": closes}));
    }
    // none afterwards: a later local close must not announce again
    u.sctp.close();
    for dc in &u.strong {
        let evs = Uut::channel_events(dc, Duration::from_millis(60)).await;
        if evs.iter().any(|e| matches!(e, DataChannelEvent::Close)) { fails.push(format!("channel {} observed another Close after the association had ended", dc.id)); }
    }
    let reason = u.sctp.close_reason();
    if cause == "shutdown_with_unacked_data" && reason.as_deref() != Some("REMOTE_SHUTDOWN") {
        fails.push(format!("close reason after the peer's graceful shutdown is {:?} (want REMOTE_SHUTDOWN)", reason));
    }
    let (r2, d2) = timed(u.sctp.send_data(0, b"late"), CALL_BOUND).await;
    match r2 { None => fails.push("send_data after the end did not return".into()), Some(Ok(())) => fails.push("send_data after the end returned Ok".into()), _ => {} }
    let desc = json!({"sctp_level": cause, "sender": res, "sender_release_ms": lat, "close_reason": reason, "channels": per_chan, "send_after_end_ms": ms(d2), "shutdown": shutdown_note});
    (desc, if fails.is_empty() { None } else { Some(fails.join("; ")) })
}

// ------------------------------------------------------------------------------------ main
fn scenarios(tier: &str, seed: u64) -> Vec<Scenario> {
    use Ev::*;
    use Phase::*;
    let table: Vec<(Phase, Vec<Ev>)> = vec![
        (Created, vec![Close, Drop, CloseTwice, CloseThenDrop]),
        (Gathering, vec![Close, Drop]),
        (OfferSet, vec![Close, Drop, CloseTwice]),
        (Checking, vec![Close, Drop, CloseThenDrop]),
        (DtlsHandshaking, vec![Close, Drop, CloseTwice, IceStop, RaceCloseClose]),
        (DtlsConnected, vec![Close, Drop, CloseNotify, IceStop, PeerClose, RaceCloseNotify]),
        (ChannelsOpen, vec![Close, Drop, CloseTwice, CloseThenDrop, CloseNotify, Abort, ShutdownAck, ShutdownThenComplete, ShutdownAlone, IceStop,
                            IceStopThenClose, PeerClose, PeerDrop, RaceCloseNotify, RaceCloseAbort, RaceCloseClose, BlockedThenClose, BlockedThenAbort, BlockedThenCloseNotify,
                            LateChanIceStopClose, LateChanIceStopDrop, LateChanAbortClose, LateChanAbortDrop]),
        (MediaFlowing, vec![Close, Drop, CloseNotify, Abort, RaceCloseNotify]),
        (PeerChannelOpen, vec![Close, Drop, CloseThenDrop, CloseNotify, Abort, IceStop, IceStopThenClose, PeerDrop, RaceCloseNotify]),
        (ThreeChannelsOpen, vec![Blocked3ThenIceStop, Blocked3ThenCloseNotify, Blocked3ThenAbort, Close, Drop]),
        (SipSrtpOffer, vec![Close, Drop, CloseTwice, CloseThenDrop]),
        (SipRtpOffer, vec![Close, Drop, CloseThenDrop]),
        (SipSrtpConnected, vec![Close, Drop, CloseTwice, CloseThenDrop, PeerClose]),
        (SipRtpConnected, vec![Close, Drop, CloseThenDrop, IceStopThenClose]),
        (JustConnected, vec![Close, Drop, CloseThenDrop, PeerClose]),
        (JustConnectedMedia, vec![Close, Drop, PeerClose]),
        (RtpCreated, vec![Close, Drop]),
        (RtpFlowing, vec![Close, Drop, CloseTwice, IceStop, IceStopThenClose, PeerClose]),
    ];
    let mut v = vec![];
    for (p, evs) in &table { for e in evs { v.push(Scenario { phase: *p, ev: *e, jitter_ms: 0, kind: "exhaustive", yields: None }); } }
    // close() landing k scheduler turns after the peer's close_notify was sent (single-threaded runtime)
    let scan = if tier == "thorough" { 120 } else { 40 };
    for k in 0..scan { v.push(Scenario { phase: ChannelsOpen, ev: RaceCloseNotify, jitter_ms: 0, kind: "race-scan", yields: Some(k) }); }
    if tier == "thorough" { v.push(Scenario { phase: DtlsHandshaking, ev: DropStarved, jitter_ms: 0, kind: "exhaustive", yields: None }); }
    // the same table again at random moments after the phase boundary ("at any moment")
    let mut rng = vh::Rng::new(seed);
    let rounds = if tier == "thorough" { 20 } else { 3 };
    for _ in 0..rounds {
        for (p, evs) in &table {
            for e in evs {
                v.push(Scenario { phase: *p, ev: *e, jitter_ms: rng.range(1, 40), kind: "random-moment", yields: None });
            }
        }
    }
    v
}

fn run_one(sc: &Scenario) -> Outcome {
    let rt = if sc.yields.is_some() { tokio::runtime::Builder::new_current_thread().enable_all().build().unwrap() }
             else { tokio::runtime::Builder::new_multi_thread().worker_threads(2).enable_all().build().unwrap() };
    let sc2 = sc.clone();
    let o = match vh::catch(std::panic::AssertUnwindSafe(|| rt.block_on(run_scenario(sc2)))) {
        Ok(o) => o,
        Err(p) => Outcome { setup_failed: Some(format!("panic: {}", p)), panicked: true, ..Default::default() },
    };
    rt.shutdown_timeout(Duration::from_millis(200));
    o
}

fn main() {
    let args = vh::parse_args();
    vh::silence_panics();
    let mut scs = scenarios(&args.tier, args.seed);
    // development aid: C17_ONLY=Phase:Event[,..] keeps only those rows, C17_REPEAT=n repeats the list
    if let Ok(only) = std::env::var("C17_ONLY") {
        let keep: Vec<String> = only.split(',').map(|x| x.to_string()).collect();
        scs.retain(|sc| sc.yields.is_none() && keep.contains(&format!("{:?}:{:?}", sc.phase, sc.ev)));
    }
    if let Some(r) = std::env::var("C17_REPEAT").ok().and_then(|x| x.parse::<usize>().ok()) {
        let base = scs.clone();
        for _ in 1..r { scs.extend(base.iter().cloned()); }
    }
    let n = scs.len();
    let queue = Arc::new(Mutex::new(scs.iter().cloned().enumerate().rev().collect::<Vec<_>>()));
    let results: Arc<Mutex<Vec<(usize, Outcome)>>> = Arc::new(Mutex::new(vec![]));
    let workers = std::env::var("C17_WORKERS").ok().and_then(|s| s.parse().ok()).unwrap_or(6usize);
    let mut hs = vec![];
    for _ in 0..workers {
        let queue = queue.clone();
        let results = results.clone();
        hs.push(std::thread::spawn(move || loop {
            let item = { queue.lock().unwrap().pop() };
            let Some((i, sc)) = item else { break };
            let o = run_one(&sc);
            results.lock().unwrap().push((i, o));
        }));
    }
    // SCTP-level cases on the main thread meanwhile
    let rt = tokio::runtime::Builder::new_multi_thread().worker_threads(2).enable_all().build().unwrap();
    let mut uut_results = vec![];
    let mut uut_setup_failed = 0usize;
    for cause in ["abort", "shutdown_ack", "shutdown_complete", "dtls_close_notify", "local_close", "close_twice", "close_channel_then_abort", "shutdown_with_unacked_data"] {
        // the scripted peer's handshake helper panics when the endpoint does not answer in time (machine under
        // load): retry, then report the case as not set up rather than crashing the driver
        let mut done = false;
        for _ in 0..3 {
            match vh::catch(std::panic::AssertUnwindSafe(|| rt.block_on(uut_case(cause)))) {
                Ok(r) => { uut_results.push((cause, r)); done = true; break; }
                Err(_) => {}
            }
        }
        if !done { uut_setup_failed += 1; }
    }
    for h in hs { let _ = h.join(); }
    let mut res = std::mem::take(&mut *results.lock().unwrap());
    res.sort_by_key(|(i, _)| *i);
    // ---- second opinion in isolation: a scenario (or SCTP-level case) whose oracle failed is run once more with
    // nothing else going on in the harness; only a failure that shows again becomes an oracle_fail. Every such
    // retry is reported in the evidence (`retried_cases`, with what the first attempt said).
    let mut retried: Vec<serde_json::Value> = vec![];
    // a mass failure (a real defect hits many rows) is not re-run row by row: the first few confirm or refute it
    let max_reruns = 5usize;
    let mut not_rerun = 0usize;
    for (i, o) in res.iter_mut() {
        let sc = &scs[*i];
        let (_, fail, _, ok) = judge(sc, o);
        if ok && fail.is_none() { continue; }
        if retried.len() >= max_reruns { not_rerun += 1; o.unconfirmed = true; continue; }
        if !ok && !o.panicked { /* could not be set up under load: try once more alone */ }
        let first = fail.clone().or_else(|| o.setup_failed.clone()).unwrap_or_default();
        let mut o2 = run_one(sc);
        let (_, fail2, _, ok2) = judge(sc, &o2);
        retried.push(json!({"scenario": format!("{:?} {:?} jitter {} yields {:?}", sc.phase, sc.ev, sc.jitter_ms, sc.yields),
            "first_attempt": first, "isolated_rerun": if !ok2 { "could not be set up".to_string() } else { fail2.clone().unwrap_or_else(|| "passed".into()) }}));
        o2.notes.push(format!("isolated re-run; the first attempt (run in parallel with others) said: {}", first));
        o2.reobserved = true;
        *o = o2;
    }
    let mut uut_final = vec![];
    for (cause, (desc, fail)) in uut_results {
        if fail.is_none() { uut_final.push((desc, fail)); continue; }
        let first = fail.clone().unwrap_or_default();
        match vh::catch(std::panic::AssertUnwindSafe(|| rt.block_on(uut_case(cause)))) {
            Ok((d2, f2)) => {
                retried.push(json!({"scenario": format!("sctp-level {}", cause), "first_attempt": first, "isolated_rerun": f2.clone().unwrap_or_else(|| "passed".into())}));
                uut_final.push((d2, f2));
            }
            Err(_) => { retried.push(json!({"scenario": format!("sctp-level {}", cause), "first_attempt": first, "isolated_rerun": "could not be set up"})); uut_final.push((desc, fail)); }
        }
    }
    let uut_results = uut_final;
    rt.shutdown_timeout(Duration::from_millis(200));

    let mut out = vh::Out::new(&args.out);
    let mut setup_failed = 0usize;
    let mut panics = 0usize;
    let mut max_call_ms: f64 = 0.0;
    let mut max_release_ms: f64 = 0.0;
    let mut max_sender_ms: f64 = 0.0;
    let mut per_phase: std::collections::BTreeMap<String, usize> = Default::default();
    let mut per_event: std::collections::BTreeMap<String, usize> = Default::default();
    let mut reobserved = 0usize;
    for (desc, fail) in uut_results {
        if let Some(l) = desc.get("sender_release_ms").and_then(|x| x.as_f64()) { max_sender_ms = max_sender_ms.max(l); }
        out.push(vh::Case { term: "-".into(), key: desc.to_string(), desc, oracle_fail: fail, known: None, nontrivial: true, kind: "sctp-level".into() });
    }
    for (i, o) in &res {
        let sc = &scs[*i];
        let (term, fail, desc, ok) = judge(sc, o);
        if desc.get("reobserved").and_then(|x| x.as_bool()).unwrap_or(false) { reobserved += 1; }
        if !ok {
            setup_failed += 1;
            if o.panicked { panics += 1; }
            // a scenario that could not be set up is not evidence; a panic inside the real code is a finding
            let f = if o.panicked { Some(format!("panic while running the scenario: {:?}", o.setup_failed)) } else { None };
            out.push(vh::Case { term, key: format!("setup-failed {:?} {:?} {}", sc.phase, sc.ev, sc.jitter_ms), desc, oracle_fail: f, known: None, nontrivial: false, kind: "setup-failed".into() });
            continue;
        }
        for (_, r, t) in &o.calls { if r.is_some() { max_call_ms = max_call_ms.max(*t); } }
        if let Some(r) = o.release_ms { max_release_ms = max_release_ms.max(r); }
        if let Some(l) = o.sender_latency_ms { max_sender_ms = max_sender_ms.max(l); }
        *per_phase.entry(format!("{:?}", sc.phase)).or_default() += 1;
        *per_event.entry(format!("{:?}", sc.ev)).or_default() += 1;
        let fail = if o.unconfirmed { None } else { fail };
        out.push(vh::Case { term, key: format!("{:?} {:?} {} {:?}", sc.phase, sc.ev, sc.jitter_ms, sc.yields), desc, oracle_fail: fail, known: None, nontrivial: true, kind: sc.kind.into() });
    }
    // more than a few scenarios that cannot be set up means the harness is not measuring anything
    if uut_setup_failed > 2 {
        out.push(vh::Case { term: "-".into(), key: "uut-setup".into(), desc: json!({"sctp_level_setup_failed": uut_setup_failed}),
            oracle_fail: Some(format!("{} of 8 SCTP-level cases could not be set up (scripted peer handshake)", uut_setup_failed)), known: None, nontrivial: false, kind: "harness".into() });
    }
    if setup_failed * 5 > n {
        out.push(vh::Case { term: "-".into(), key: "setup".into(), desc: json!({"setup_failed": setup_failed, "of": n}),
            oracle_fail: Some(format!("{} of {} scenarios could not be brought to their phase", setup_failed, n)), known: None, nontrivial: false, kind: "harness".into() });
    }
    out.finish(json!({"generator": {
        "tier": args.tier, "seed": args.seed, "scenarios": n, "retried_cases": retried.len(), "retries": retried, "failed_but_not_rerun": not_rerun, "reobserved_cases": reobserved, "setup_failed": setup_failed, "sctp_level_setup_failed": uut_setup_failed, "panics": panics,
        "phases": per_phase, "events": per_event,
        "bounds_ms": {"call": ms(CALL_BOUND), "settle": ms(SETTLE_MAX), "release": ms(RELEASE_BOUND)},
        "observed_max_ms": {"api_call_after_event": max_call_ms, "release_after_final_close_and_drop": max_release_ms, "parked_sender_release": max_sender_ms},
        "exploration": "runtime part of C17 (task/socket release, promptness): phase x event table above, each scenario on its own tokio runtime; num_alive_tasks must reach 0 and every UDP port of the pair must be unbound after the final close + drop",
    }}));
}
