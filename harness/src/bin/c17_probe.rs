//! C17 development probe: which side leaks tasks in the "peer closes first" scenario (A and B on separate runtimes)
use rustrtc::{MediaKind, PeerConnection, RtcConfiguration, TransceiverDirection};
use std::time::{Duration, Instant};

fn cfg(h: &tokio::runtime::Handle) -> RtcConfiguration {
    let mut c = RtcConfiguration::default();
    c.bind_ip = Some("127.0.0.1".into());
    c.stun_timeout = Duration::from_secs(1);
    c.runtime_handle = Some(h.clone());
    c
}
async fn offer(pc: &PeerConnection) -> rustrtc::SessionDescription {
    let _ = pc.create_offer().await.unwrap();
    pc.wait_for_gathering_complete().await;
    let o = pc.create_offer().await.unwrap();
    pc.set_local_description(o.clone()).unwrap();
    o
}
async fn answer(pc: &PeerConnection) -> rustrtc::SessionDescription {
    let _ = pc.create_answer().await.unwrap();
    pc.wait_for_gathering_complete().await;
    let o = pc.create_answer().await.unwrap();
    pc.set_local_description(o.clone()).unwrap();
    o
}
fn main() {
    let variant: u32 = std::env::args().nth(1).and_then(|x| x.parse().ok()).unwrap_or(0);
    let n: u32 = std::env::args().nth(2).and_then(|x| x.parse().ok()).unwrap_or(40);
    let mut leaks = 0;
    for i in 0..n {
        let ra = tokio::runtime::Builder::new_multi_thread().worker_threads(2).enable_all().build().unwrap();
        let rb = tokio::runtime::Builder::new_multi_thread().worker_threads(2).enable_all().build().unwrap();
        let rh = tokio::runtime::Builder::new_multi_thread().worker_threads(2).enable_all().build().unwrap();
        let (ha, hb) = (ra.handle().clone(), rb.handle().clone());
        let mut watch_b = None;
        let ok = rh.block_on(async {
            // PeerConnection::new must run inside the runtime its tasks are meant for only for raw tokio::spawn sites
            let a = { let _g = ha.enter(); PeerConnection::new(cfg(&ha)) };
            let b = { let _g = hb.enter(); PeerConnection::new(cfg(&hb)) };
            a.add_transceiver(MediaKind::Audio, TransceiverDirection::SendRecv);
            b.add_transceiver(MediaKind::Audio, TransceiverDirection::SendRecv);
            let o = offer(&a).await;
            b.set_remote_description(o).await.unwrap();
            let an = answer(&b).await;
            a.set_remote_description(an).await.unwrap();
            let r = tokio::time::timeout(Duration::from_secs(8), async { tokio::try_join!(a.wait_for_connected(), b.wait_for_connected()) }).await;
            if !matches!(r, Ok(Ok(_))) { a.close(); b.close(); return false; }
            watch_b = Some(b.subscribe_peer_state());
            match variant {
                0 => { b.close(); tokio::time::sleep(Duration::from_millis(320)).await; a.close(); drop(a); b.close(); drop(b); }
                1 => { b.close(); tokio::time::sleep(Duration::from_millis(320)).await; drop(b); tokio::time::sleep(Duration::from_millis(500)).await; a.close(); drop(a); }
                2 => { a.close(); tokio::time::sleep(Duration::from_millis(320)).await; drop(a); b.close(); drop(b); }
                _ => { b.close(); drop(b); tokio::time::sleep(Duration::from_millis(320)).await; a.close(); drop(a); }
            }
            true
        });
        if !ok { println!("{} setup failed", i); continue; }
        let t0 = Instant::now();
        let mut last = (0, 0, 0);
        while t0.elapsed() < Duration::from_secs(8) {
            last = (ra.metrics().num_alive_tasks(), rb.metrics().num_alive_tasks(), rh.metrics().num_alive_tasks());
            if last == (0, 0, 0) { break; }
            std::thread::sleep(Duration::from_millis(20));
        }
        if last != (0, 0, 0) { println!("   B's PeerConnectionInner dropped: {}", watch_b.as_ref().map(|w| w.has_changed().is_err()).unwrap_or(false)); }
        if last != (0, 0, 0) { leaks += 1; println!("{} LEAK after 8 s: tasks on A's runtime {}, on B's runtime {}, on the harness runtime {}", i, last.0, last.1, last.2); }
        ra.shutdown_timeout(Duration::from_millis(100)); rb.shutdown_timeout(Duration::from_millis(100)); rh.shutdown_timeout(Duration::from_millis(100));
    }
    println!("variant {}: {} leaks in {} runs", variant, leaks, n);
}
