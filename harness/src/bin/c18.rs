//! C18 — RTP latching: drive the real `IceConn` with generated operation sequences,
//! record the observable latch state after every operation, evaluate the property oracle on
//! the implementation's own outputs, and emit the same sequences as Gallina terms for the
//! model (`Run/C18Run.v`).
use bytes::Bytes;
use rustrtc::transports::ice::conn::IceConn;
use rustrtc::transports::PacketReceiver;
use serde_json::json;
use std::collections::BTreeMap;
use std::net::{IpAddr, Ipv4Addr, SocketAddr};
use tokio::sync::watch;
use vh::*;

#[derive(Clone, Debug)]
enum Op {
    Recv(SocketAddr, Vec<u8>),
    EnableLatch,
    SetExpectedSsrc(u32),
    SetProbationMax(u8),
    ResetLatch,
    SetRemoteSignaling(SocketAddr),
    SetRemoteSelectedPair(SocketAddr),
    SetRemoteRtcp(Option<SocketAddr>),
}

#[derive(Clone, Debug, PartialEq)]
struct Obs {
    remote: SocketAddr,
    rtcp: Option<SocketAddr>,
    latched: bool,
    rtcp_latched: bool,
}

fn addr_term(a: &SocketAddr) -> String {
    let ip = match a.ip() {
        IpAddr::V4(v4) => u32::from(v4) as i128,
        _ => 0,
    };
    format!("({}, {})", ip, a.port())
}

fn op_term(o: &Op) -> String {
    match o {
        Op::Recv(a, p) => format!("Recv {} {}", addr_term(a), bytes_term(p)),
        Op::EnableLatch => "EnableLatch".into(),
        Op::SetExpectedSsrc(x) => format!("SetExpectedSsrc {}", x),
        Op::SetProbationMax(m) => format!("SetProbationMax {}", m),
        Op::ResetLatch => "ResetLatch".into(),
        Op::SetRemoteSignaling(a) => format!("SetRemoteSignaling {}", addr_term(a)),
        Op::SetRemoteSelectedPair(a) => format!("SetRemoteSelectedPair {}", addr_term(a)),
        Op::SetRemoteRtcp(a) => format!("SetRemoteRtcp {}", opt_term(a.as_ref().map(addr_term))),
    }
}

fn obs_term(o: &Obs) -> String {
    format!(
        "({}, {}, {}, {})",
        addr_term(&o.remote),
        opt_term(o.rtcp.as_ref().map(addr_term)),
        bool_term(o.latched),
        bool_term(o.rtcp_latched)
    )
}

fn op_json(o: &Op) -> serde_json::Value {
    match o {
        Op::Recv(a, p) => json!({"recv": a.to_string(), "pkt": p.iter().map(|b| format!("{:02x}", b)).collect::<String>()}),
        Op::EnableLatch => json!("enable_latch"),
        Op::SetExpectedSsrc(x) => json!({"set_expected_ssrc": x}),
        Op::SetProbationMax(m) => json!({"set_probation_max": m}),
        Op::ResetLatch => json!("reset_latch"),
        Op::SetRemoteSignaling(a) => json!({"signaling": a.to_string()}),
        Op::SetRemoteSelectedPair(a) => json!({"selected_pair": a.to_string()}),
        Op::SetRemoteRtcp(a) => json!({"set_rtcp": a.map(|x| x.to_string())}),
    }
}

async fn run_impl(init_remote: SocketAddr, ops: &[Op]) -> Vec<Obs> {
    let (_tx, rx) = watch::channel(None);
    let conn = IceConn::new(rx, init_remote, None);
    let mut buf = Vec::new();
    let mut out = Vec::new();
    for o in ops {
        match o {
            Op::Recv(a, p) => conn.receive(Bytes::from(p.clone()), *a, &mut buf).await,
            Op::EnableLatch => conn.enable_latch_on_rtp(),
            Op::SetExpectedSsrc(x) => conn.set_expected_ssrc(*x),
            Op::SetProbationMax(m) => conn.set_probation_max_packets(if *m == 0 { None } else { Some(*m) }),
            Op::ResetLatch => conn.reset_latch(),
            Op::SetRemoteSignaling(a) => conn.verif_set_remote_addr_from_signaling(*a),
            Op::SetRemoteSelectedPair(a) => conn.verif_set_remote_addr_from_selected_pair(*a),
            Op::SetRemoteRtcp(a) => conn.set_remote_rtcp_addr(*a),
        }
        out.push(Obs {
            remote: *conn.remote_addr.read(),
            rtcp: *conn.remote_rtcp_addr.read(),
            latched: conn.rtp_latched.load(std::sync::atomic::Ordering::Relaxed),
            rtcp_latched: conn.rtcp_latched.load(std::sync::atomic::Ordering::Relaxed),
        });
    }
    out
}

// ---------------------------------------------------------------- direct property oracle
// Written from the property text and the documented rules (conn.rs doc comment), not from
// the model: tracks, per probation window, the RTP packets that carry the expected SSRC.
#[derive(Clone)]
struct SpecCand {
    addr: SocketAddr,
    first_seq: u16,
    last_seq: u16,
    count: u32,
    consec: u32,
    marker: bool,
}

struct Oracle {
    latch_on: bool,
    expected: u32,
    pmax: u8,
    window_max: Option<u8>, // Some(max) while a probation window is open
    cands: Vec<SpecCand>,
    ok_sources: Vec<SocketAddr>,
    accepted_in_window: u32,
    rtcp_writes_since_unlatch: u32,
}

fn is_media(p: &[u8]) -> bool {
    !p.is_empty() && (128..192).contains(&p[0])
}
fn is_rtcp(p: &[u8]) -> bool {
    p.len() >= 2 && (200..=211).contains(&p[1])
}

/// Returns (first unlisted failure, first listed-finding hit)
fn oracle(init_remote: SocketAddr, ops: &[Op], obs: &[Obs]) -> (Option<String>, Option<String>) {
    let mut o = Oracle { latch_on: false, expected: 0, pmax: 0, window_max: None, cands: vec![], ok_sources: vec![],
        accepted_in_window: 0, rtcp_writes_since_unlatch: 0 };
    let mut prev = Obs { remote: init_remote, rtcp: None, latched: false, rtcp_latched: false };
    let mut fail: Option<String> = None;
    let mut known: Option<String> = None;
    let mut set_fail = |f: &mut Option<String>, s: String| { if f.is_none() { *f = Some(s); } };
    for (i, (op, cur)) in ops.iter().zip(obs.iter()).enumerate() {
        match op {
            Op::Recv(src, pkt) => {
                let media = is_media(pkt);
                let rtcp = media && is_rtcp(pkt);
                let ok_rtp = media && !rtcp && pkt.len() >= 12 && o.latch_on && {
                    let ssrc = u32::from_be_bytes([pkt[8], pkt[9], pkt[10], pkt[11]]);
                    o.expected == 0 || ssrc == o.expected
                };
                let port0 = prev.remote.port() == 0;
                let was_latched = prev.latched;
                if ok_rtp && !was_latched {
                    if !o.ok_sources.contains(src) { o.ok_sources.push(*src); }
                    o.accepted_in_window += 1;
                    if o.window_max.is_some() {
                        let seq = u16::from_be_bytes([pkt[2], pkt[3]]);
                        let marker = pkt[1] & 0x80 != 0;
                        if let Some(c) = o.cands.iter_mut().find(|c| c.addr == *src) {
                            if seq == c.last_seq.wrapping_add(1) { c.consec += 1 } else { c.consec = 0 }
                            c.last_seq = seq;
                            c.count += 1;
                            c.marker |= marker;
                            if seq < c.first_seq { c.first_seq = seq }
                        } else {
                            o.cands.push(SpecCand { addr: *src, first_seq: seq, last_seq: seq, count: 1, consec: 0, marker });
                        }
                    }
                }
                // ---- remote moves only to legitimate sources
                if cur.remote != prev.remote {
                    if was_latched && !port0 {
                        set_fail(&mut fail, format!("op {}: RTP destination moved from {} to {} by a packet although the latch was committed", i, prev.remote, cur.remote));
                    } else if port0 && !(ok_rtp && !was_latched && cur.remote == *src) {
                        // listed finding: with no signalled address (port 0) any first packet is adopted
                        if o.latch_on { known.get_or_insert("port0_adopt".to_string()); }
                    } else if !(ok_rtp && !was_latched) {
                        set_fail(&mut fail, format!("op {}: RTP destination moved to {} by a packet that is not RTP with the expected SSRC", i, cur.remote));
                    } else if !o.ok_sources.contains(&cur.remote) {
                        set_fail(&mut fail, format!("op {}: RTP destination moved to {} from which no expected-SSRC RTP was received", i, cur.remote));
                    }
                }
                // ---- commit: bound and winner
                if ok_rtp && !was_latched && o.latch_on {
                    match o.window_max {
                        None => {
                            if !cur.latched { set_fail(&mut fail, format!("op {}: no probation configured but the first legitimate packet did not latch", i)); }
                            else if cur.remote != *src { set_fail(&mut fail, format!("op {}: immediate latch went to {} instead of the packet source {}", i, cur.remote, src)); }
                        }
                        Some(max) => {
                            let total: u32 = o.accepted_in_window;
                            // documented rules, in order
                            let markers: Vec<&SpecCand> = o.cands.iter().filter(|c| c.marker).collect();
                            let spec_winner: Option<SocketAddr> = if !markers.is_empty() {
                                let m = markers.iter().map(|c| c.first_seq).min().unwrap();
                                Some(markers.iter().find(|c| c.first_seq == m).unwrap().addr)
                            } else if total >= max as u32 {
                                let best = o.cands.iter().map(|c| c.count).max().unwrap();
                                let tied: Vec<&SpecCand> = o.cands.iter().filter(|c| c.count == best).collect();
                                let m = tied.iter().map(|c| c.first_seq).min().unwrap();
                                // a full tie (count and first_seq) is not ordered by the documentation: accept any of them
                                let full: Vec<SocketAddr> = tied.iter().filter(|c| c.first_seq == m).map(|c| c.addr).collect();
                                if full.contains(&cur.remote) { Some(cur.remote) } else { Some(full[0]) }
                            } else if total >= 3 {
                                o.cands.iter().find(|c| c.consec >= 2).map(|c| c.addr)
                            } else { None };
                            if cur.latched {
                                match spec_winner {
                                    Some(w) if w == cur.remote => {}
                                    Some(w) => set_fail(&mut fail, format!("op {}: latch committed with RTP destination {} but the documented rules elect {}", i, cur.remote, w)),
                                    None => set_fail(&mut fail, format!("op {}: latch committed to {} although no documented rule fires yet", i, cur.remote)),
                                }
                            } else if total >= max as u32 {
                                set_fail(&mut fail, format!("op {}: {} probation packets observed (max {}) and still no commit", i, total, max));
                            } else if let Some(w) = spec_winner {
                                set_fail(&mut fail, format!("op {}: the documented rules elect {} after {} probation packets but the latch was not committed", i, w, total));
                            }
                        }
                    }
                    if cur.latched { o.window_max = None; o.cands.clear(); }
                } else if cur.latched != prev.latched {
                    set_fail(&mut fail, format!("op {}: latch flag changed by a packet that takes no part in latching", i));
                }
                // ---- RTCP destination
                if cur.rtcp != prev.rtcp {
                    if !rtcp { set_fail(&mut fail, format!("op {}: RTCP destination changed by a non-RTCP packet", i)); }
                    o.rtcp_writes_since_unlatch += 1;
                    if o.rtcp_writes_since_unlatch > 1 { set_fail(&mut fail, format!("op {}: RTCP destination learned twice without a reset", i)); }
                    if cur.rtcp != Some(*src) { set_fail(&mut fail, format!("op {}: RTCP destination set to something other than the packet source", i)); }
                }
            }
            Op::EnableLatch => {
                o.latch_on = true;
                if o.pmax > 0 {
                    if o.window_max.is_none() { o.window_max = Some(o.pmax); o.accepted_in_window = 0; o.cands.clear(); }
                } else { o.window_max = None; o.cands.clear(); }
                if cur.remote != prev.remote { set_fail(&mut fail, format!("op {}: enable_latch moved the RTP destination", i)); }
            }
            Op::SetExpectedSsrc(x) => { o.expected = *x; }
            Op::SetProbationMax(m) => { o.pmax = *m; }
            Op::ResetLatch | Op::SetRemoteSignaling(_) => {
                o.cands.clear(); o.ok_sources.clear(); o.accepted_in_window = 0; o.rtcp_writes_since_unlatch = 0;
                o.window_max = if o.latch_on && o.pmax > 0 { Some(o.pmax) } else { None };
                if cur.latched || cur.rtcp_latched { set_fail(&mut fail, format!("op {}: reset did not clear the latch flags", i)); }
                if let Op::SetRemoteSignaling(a) = op { if cur.remote != *a { set_fail(&mut fail, format!("op {}: signalling retarget not applied", i)); } }
                else if cur.remote != prev.remote { set_fail(&mut fail, format!("op {}: reset_latch moved the RTP destination", i)); }
            }
            Op::SetRemoteSelectedPair(a) => {
                if prev.latched && o.latch_on {
                    if cur.remote != prev.remote { set_fail(&mut fail, format!("op {}: selected-pair update overrode the committed latch", i)); }
                } else if cur.remote != *a { set_fail(&mut fail, format!("op {}: selected-pair update not applied while unlatched", i)); }
            }
            Op::SetRemoteRtcp(_) => { o.rtcp_writes_since_unlatch = 0; }
        }
        prev = cur.clone();
    }
    (fail, known)
}


// ---------------------------------------------------------------- generators
const SSRC_OK: u32 = 0x1122_3344;
const SSRC_BAD: u32 = 0x5566_7788;

fn src(i: u8) -> SocketAddr {
    SocketAddr::new(IpAddr::V4(Ipv4Addr::new(127, 0, 0, 1 + (i / 3))), 40000 + (i as u16) * 2)
}

fn rtp(ssrc: u32, seq: u16, ts: u32, marker: bool, len: usize) -> Vec<u8> {
    let mut p = vec![0x80u8, 96 | if marker { 0x80 } else { 0 }];
    p.extend_from_slice(&seq.to_be_bytes());
    p.extend_from_slice(&ts.to_be_bytes());
    p.extend_from_slice(&ssrc.to_be_bytes());
    p.resize(len.max(4), 0xAB);
    p.truncate(len);
    p
}
fn rtcp(pt: u8, ssrc: u32) -> Vec<u8> {
    let mut p = vec![0x80u8, pt, 0, 1];
    p.extend_from_slice(&ssrc.to_be_bytes());
    p
}
/// RTCP long enough to look like RTP to the latch (>= 12 bytes) whose bytes 8..12 carry `ssrc8`
/// (e.g. the first report block's SSRC): only the packet-type range keeps it out of the RTP branch
fn rtcp_long(pt: u8, sender_ssrc: u32, ssrc8: u32) -> Vec<u8> {
    let mut p = vec![0x81u8, pt, 0, 7];
    p.extend_from_slice(&sender_ssrc.to_be_bytes());
    p.extend_from_slice(&ssrc8.to_be_bytes());
    p.extend_from_slice(&[0u8; 20]);
    p
}

struct GenStats { kinds: BTreeMap<String, u64>, lens: BTreeMap<usize, u64> }

fn gen_case(r: &mut Rng, stats: &mut GenStats, tier_long: bool) -> (SocketAddr, Vec<Op>) {
    let nsrc = r.range(1, 4) as u8;
    let init_remote = if r.chance(1, 12) { SocketAddr::new(IpAddr::V4(Ipv4Addr::UNSPECIFIED), 0) } else { src(r.below(nsrc as u64 + 1) as u8) };
    let pmax = *r.pick(&[0u8, 0, 1, 2, 3, 4, 5, 6, 6, 7, 8, 8]);
    let use_ssrc = r.chance(3, 4);
    let mut ops = vec![];
    if pmax > 0 || r.chance(1, 2) { ops.push(Op::SetProbationMax(pmax)); }
    if use_ssrc { ops.push(Op::SetExpectedSsrc(SSRC_OK)); }
    if r.chance(1, 6) { ops.push(Op::SetRemoteRtcp(Some(src(r.below(4) as u8)))); }
    if r.chance(14, 15) { ops.push(Op::EnableLatch); }
    let n = if tier_long { r.range(3, 24) } else { r.range(2, 14) };
    let mut seqs: Vec<u16> = (0..5).map(|_| *r.pick(&[0u16, 1, 100, 65533, 65535, 30000])).collect();
    let mut ts: u32 = *r.pick(&[0u32, 160, 0xFFFF_FF00]);
    for _ in 0..n {
        let k = r.below(100);
        let s = r.below(nsrc as u64) as usize;
        let op = if k < 52 {
            // RTP with the expected SSRC; sequence step +1 mostly, else a jump
            let step = *r.pick(&[1u16, 1, 1, 1, 2, 0, 65535, 7]);
            seqs[s] = seqs[s].wrapping_add(step);
            ts = ts.wrapping_add(*r.pick(&[160u32, 160, 0, 0xFFFF_FF60]));
            let marker = r.chance(1, 7);
            let len = *r.pick(&[12usize, 12, 20, 172, 13]);
            *stats.kinds.entry("rtp_ok".into()).or_default() += 1;
            Op::Recv(src(s as u8), rtp(SSRC_OK, seqs[s], ts, marker, len))
        } else if k < 62 {
            *stats.kinds.entry("rtp_other_ssrc".into()).or_default() += 1;
            Op::Recv(src(s as u8), rtp(SSRC_BAD, r.next() as u16, r.next() as u32, r.chance(1, 3), 20))
        } else if k < 74 {
            *stats.kinds.entry("rtcp".into()).or_default() += 1;
            let pt = *r.pick(&[200u8, 201, 205, 210, 211, 211, 199, 212]);
            if r.chance(1, 2) {
                Op::Recv(src(s as u8), rtcp_long(pt, *r.pick(&[SSRC_OK, SSRC_BAD]), *r.pick(&[SSRC_OK, SSRC_OK, SSRC_BAD])))
            } else {
                Op::Recv(src(s as u8), rtcp(pt, *r.pick(&[SSRC_OK, SSRC_BAD])))
            }
        } else if k < 79 {
            *stats.kinds.entry("short_or_other".into()).or_default() += 1;
            let choice = r.below(5);
            Op::Recv(src(s as u8), match choice {
                0 => vec![],
                1 => vec![0x80],
                2 => rtp(SSRC_OK, 5, 5, true, 11),
                3 => { let mut p = r.bytes(16); p[0] = *r.pick(&[0u8, 1, 20, 22, 63, 64, 127, 192, 255]); p }
                _ => { let mut p = rtp(SSRC_OK, 9, 9, false, 12); p[0] = *r.pick(&[127u8, 128, 191, 192]); p }
            })
        } else if k < 84 {
            *stats.kinds.entry("reset".into()).or_default() += 1;
            Op::ResetLatch
        } else if k < 88 {
            *stats.kinds.entry("signaling".into()).or_default() += 1;
            Op::SetRemoteSignaling(src(r.below(nsrc as u64 + 1) as u8))
        } else if k < 93 {
            *stats.kinds.entry("selected_pair".into()).or_default() += 1;
            Op::SetRemoteSelectedPair(src(r.below(nsrc as u64 + 1) as u8))
        } else if k < 95 {
            *stats.kinds.entry("set_rtcp".into()).or_default() += 1;
            Op::SetRemoteRtcp(if r.chance(1, 4) { None } else { Some(src(r.below(4) as u8)) })
        } else if k < 97 {
            *stats.kinds.entry("enable".into()).or_default() += 1;
            Op::EnableLatch
        } else if k < 98 {
            *stats.kinds.entry("set_max".into()).or_default() += 1;
            Op::SetProbationMax(r.below(9) as u8)
        } else {
            *stats.kinds.entry("set_ssrc".into()).or_default() += 1;
            Op::SetExpectedSsrc(*r.pick(&[0u32, SSRC_OK, SSRC_BAD]))
        };
        ops.push(op);
    }
    *stats.lens.entry(ops.len()).or_default() += 1;
    (init_remote, ops)
}

/// exhaustive short sequences over the property's alphabet for one probation setting
fn alphabet() -> Vec<(&'static str, Box<dyn Fn(&mut [u16; 3]) -> Op>)> {
    let mut v: Vec<(&'static str, Box<dyn Fn(&mut [u16; 3]) -> Op>)> = vec![];
    for s in 0..3u8 {
        v.push(("rtp+1", Box::new(move |q| { q[s as usize] = q[s as usize].wrapping_add(1); Op::Recv(src(s), rtp(SSRC_OK, q[s as usize], 0, false, 12)) })));
        v.push(("rtp+9", Box::new(move |q| { q[s as usize] = q[s as usize].wrapping_add(9); Op::Recv(src(s), rtp(SSRC_OK, q[s as usize], 0, false, 12)) })));
    }
    for s in 0..2u8 {
        v.push(("rtp+1M", Box::new(move |q| { q[s as usize] = q[s as usize].wrapping_add(1); Op::Recv(src(s), rtp(SSRC_OK, q[s as usize], 0, true, 12)) })));
        v.push(("rtp_bad", Box::new(move |_| Op::Recv(src(s + 1), rtp(SSRC_BAD, 1, 0, true, 12)))));
        v.push(("rtcp", Box::new(move |_| Op::Recv(src(s + 1), rtcp(201, SSRC_OK)))));
    }
    v.push(("reset", Box::new(|_| Op::ResetLatch)));
    v.push(("signaling", Box::new(|_| Op::SetRemoteSignaling(src(1)))));
    v.push(("selected", Box::new(|_| Op::SetRemoteSelectedPair(src(2)))));
    v
}

fn corpus() -> Vec<(SocketAddr, Vec<Op>)> {
    let a = src(0);
    let b = src(1);
    let mut v = vec![];
    // F6 witness: max=6, A(1) B(100) A(3) B(200) A(5) B(300): rule 3 elects A on a packet from B
    v.push((a, vec![Op::SetProbationMax(6), Op::SetExpectedSsrc(SSRC_OK), Op::EnableLatch,
        Op::Recv(a, rtp(SSRC_OK, 1, 0, false, 12)), Op::Recv(b, rtp(SSRC_OK, 100, 0, false, 12)),
        Op::Recv(a, rtp(SSRC_OK, 3, 0, false, 12)), Op::Recv(b, rtp(SSRC_OK, 200, 0, false, 12)),
        Op::Recv(a, rtp(SSRC_OK, 5, 0, false, 12)), Op::Recv(b, rtp(SSRC_OK, 300, 0, false, 12)),
        Op::Recv(b, rtp(SSRC_OK, 301, 0, false, 12))]));
    // rule 1 elects A (marker, lower first_seq) on a packet from B
    v.push((a, vec![Op::SetProbationMax(8), Op::EnableLatch,
        Op::Recv(a, rtp(SSRC_OK, 10, 0, false, 12)), Op::Recv(b, rtp(SSRC_OK, 500, 0, false, 12)),
        Op::Recv(a, rtp(SSRC_OK, 12, 0, true, 12)), Op::Recv(src(2), rtcp(200, 1))]));
    // F24 witness: unset remote, RTCP from a stranger is adopted as the RTP destination
    v.push((SocketAddr::new(IpAddr::V4(Ipv4Addr::UNSPECIFIED), 0), vec![Op::SetExpectedSsrc(SSRC_OK), Op::EnableLatch,
        Op::Recv(b, rtcp(201, SSRC_BAD)), Op::Recv(a, rtp(SSRC_OK, 1, 0, false, 12))]));
    // RTCP packet-type boundaries 200 and 211 (and the neighbours 199 / 212, which are RTP to the latch):
    // a long RTCP packet whose bytes 8..12 equal the expected SSRC must not move or commit the RTP destination
    for pt in [199u8, 200, 210, 211, 212] {
        for max in [0u8, 4] {
            v.push((a, vec![Op::SetProbationMax(max), Op::SetExpectedSsrc(SSRC_OK), Op::EnableLatch,
                Op::Recv(b, rtcp_long(pt, SSRC_BAD, SSRC_OK)), Op::Recv(a, rtp(SSRC_OK, 1, 0, false, 12)),
                Op::Recv(a, rtp(SSRC_OK, 2, 0, false, 12)), Op::Recv(a, rtp(SSRC_OK, 3, 0, false, 12))]));
        }
    }
    // saturating counters: 300 packets alternating with no rule firing is impossible (max<=255) — long run under max=255
    let mut ops = vec![Op::SetProbationMax(255), Op::EnableLatch];
    for i in 0..260u16 { ops.push(Op::Recv(src((i % 2) as u8), rtp(SSRC_OK, i.wrapping_mul(7), 0, false, 12))); }
    v.push((a, ops));
    v
}

#[tokio::main(flavor = "current_thread")]
async fn main() {
    let args = parse_args();
    let mut out = Out::new(&args.out);
    let mut r = Rng::new(args.seed);
    let mut stats = GenStats { kinds: BTreeMap::new(), lens: BTreeMap::new() };
    let thorough = args.tier == "thorough";
    let mut all: Vec<(String, SocketAddr, Vec<Op>)> = vec![];
    for (ir, ops) in corpus() { all.push(("corpus".into(), ir, ops)); }
    // exhaustive short sequences
    let alpha = alphabet();
    let depth = if thorough { 4 } else { 3 };
    let maxes: &[u8] = if thorough { &[0, 1, 2, 3, 4, 5, 6, 7, 8] } else { &[0, 2, 3, 4] };
    for &m in maxes {
        let mut idx = vec![0usize; depth];
        loop {
            let mut q = [0u16, 200, 400];
            let mut ops = vec![Op::SetProbationMax(m), Op::SetExpectedSsrc(SSRC_OK), Op::EnableLatch];
            // a fixed prefix that opens the window with two sources so depth-k suffixes reach commits
            ops.push(Op::Recv(src(0), rtp(SSRC_OK, 1, 0, false, 12)));
            ops.push(Op::Recv(src(1), rtp(SSRC_OK, 201, 0, false, 12)));
            q[0] = 1; q[1] = 201;
            for &i in &idx { ops.push((alpha[i].1)(&mut q)); }
            all.push(("exhaustive".into(), src(0), ops));
            let mut k = 0;
            loop {
                if k == depth { break; }
                idx[k] += 1;
                if idx[k] < alpha.len() { break; }
                idx[k] = 0;
                k += 1;
            }
            if k == depth { break; }
        }
    }
    let nrand = if thorough { 30000 } else { 2500 };
    for _ in 0..nrand {
        let (ir, ops) = gen_case(&mut r, &mut stats, thorough);
        all.push(("random".into(), ir, ops));
    }
    let mut commits = 0u64;
    let mut rule_hits: BTreeMap<String, u64> = BTreeMap::new();
    for (kind, ir, ops) in all {
        let obs = run_impl(ir, &ops).await;
        let (fail, known) = oracle(ir, &ops, &obs);
        let committed = obs.iter().any(|o| o.latched);
        if committed { commits += 1; }
        *rule_hits.entry(if committed { "latched".into() } else { "unlatched".into() }).or_default() += 1;
        let term = format!("mkCase {} {} {}", addr_term(&ir), list_term(&ops.iter().map(op_term).collect::<Vec<_>>()),
            list_term(&obs.iter().map(obs_term).collect::<Vec<_>>()));
        let key = format!("{:?}|{:?}", ir, ops);
        let moved = obs.iter().any(|o| o.remote != ir);
        out.push(Case {
            term,
            desc: json!({"init_remote": ir.to_string(), "ops": ops.iter().map(op_json).collect::<Vec<_>>(),
                "impl_obs": obs.iter().map(|o| json!([o.remote.to_string(), o.rtcp.map(|x| x.to_string()), o.latched, o.rtcp_latched])).collect::<Vec<_>>() }),
            oracle_fail: fail,
            known,
            nontrivial: committed || moved,
            key,
            kind,
        });
    }
    out.finish(json!({"generator": {"op_kinds": stats.kinds, "case_lengths": stats.lens, "cases_with_commit": commits, "latched": rule_hits}}));
}
