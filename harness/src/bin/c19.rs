//! C19 — inbound RTP demultiplexing and the rewrite bridge.
//!
//! Part 1 (demux): drives a real `RtpTransport` with registration operations and crafted RTP
//! packets (header extensions carrying RID / MID under the configured extension ids), with mpsc
//! listeners some of which are closed (receiver dropped); observes which listener channel received
//! each packet and `has_listener(ssrc)`; evaluates the direct property oracle on those observations
//! and emits the same operation lists as Gallina terms for `Model/Demux.v` (`Run/C19Run.v`).
//!
//! Part 2 (bridge): see `bridge` below.
use bytes::Bytes;
use rustrtc::rtp::RtpPacket;
use rustrtc::transports::ice::conn::IceConn;
use rustrtc::transports::ice::IceSocketWrapper;
use rustrtc::transports::rtp::RtpTransport;
use rustrtc::transports::PacketReceiver;
use serde_json::json;
use std::collections::{BTreeMap, BTreeSet, HashMap};
use std::net::SocketAddr;
use std::sync::Arc;
use tokio::sync::{mpsc, watch};
use vh::*;

// ================================================================================ part 2: bridge
/// Drives the rewrite bridge through the public API only: a source `RtpTransport` (no socket)
/// bridged with `bridge_rewrite_rules_to_with_video` / `bridge_rewrite_to` to target transports
/// whose ICE sockets are real loopback UDP sockets; every forwarded packet is read back from the
/// sink socket the target sends to, parsed byte by byte, and compared with `Model/Bridge.v`.
/// `initial_sequence_number` / `initial_timestamp_offset` are always set (nothing is random).
mod bridge {
    use super::*;
    use rustrtc::{RtpRewriteBridgeOptions, RtpRewriteBridgeParams, RtpRewriteRule};
    use std::collections::HashSet;
    use tokio::net::UdpSocket;

    #[derive(Clone, Debug)]
    pub struct Rule {
        pub m_pt: Option<u8>,
        pub fixed: Option<u32>,
        pub off: u32,
        pub out_pt: Option<u8>,
        pub mid_id: Option<u8>,
        pub mid: Option<String>,
    }
    #[derive(Clone, Debug)]
    pub struct Cfg {
        pub strip: bool,
        pub init_seq: u16,
        pub init_off: u32,
        pub init_out_ts: Option<u32>,
        pub rules: Vec<Rule>,
        pub video_pts: Vec<u8>,
        pub has_video: bool,
        /// Some = install through the legacy `bridge_rewrite_to(params)`; `rules` then holds what
        /// `RtpRewriteRule::from_params` is documented to produce (catch-all + DTMF rule)
        pub legacy: Option<(u32, Option<u32>, Option<u8>, Option<(u8, u8)>)>,
    }
    #[derive(Clone, Debug)]
    pub struct In {
        pub ssrc: u32,
        pub pt: u8,
        pub seq: u16,
        pub ts: u32,
        pub marker: bool,
        pub ext: Option<Ext>,
    }
    #[derive(Clone, Debug, PartialEq)]
    pub struct Out {
        pub video: bool,
        pub ssrc: u32,
        pub pt: u8,
        pub seq: u16,
        pub ts: u32,
        pub marker: bool,
        pub ext: Option<(u16, Vec<(u8, Vec<u8>)>)>,
        pub payload_ok: bool,
    }

    fn parse_wire(video: bool, d: &[u8], payload: &[u8]) -> Option<Out> {
        if d.len() < 12 || d[0] >> 6 != 2 || d[0] & 0x2f != 0 {
            return None;
        }
        let mut off = 12;
        let ext = if d[0] & 0x10 != 0 {
            if d.len() < off + 4 { return None; }
            let prof = u16::from_be_bytes([d[off], d[off + 1]]);
            let n = u16::from_be_bytes([d[off + 2], d[off + 3]]) as usize * 4;
            off += 4;
            if d.len() < off + n { return None; }
            let b = &d[off..off + n];
            off += n;
            let mut els = vec![];
            let mut i = 0;
            while i < b.len() {
                if b[i] == 0 { i += 1; continue; }
                if prof == 0xBEDE {
                    let id = b[i] >> 4;
                    let len = (b[i] & 0x0f) as usize + 1;
                    i += 1;
                    if id == 15 || i + len > b.len() { return None; }
                    els.push((id, b[i..i + len].to_vec()));
                    i += len;
                } else {
                    if i + 1 >= b.len() { return None; }
                    let id = b[i];
                    let len = b[i + 1] as usize;
                    i += 2;
                    if i + len > b.len() { return None; }
                    els.push((id, b[i..i + len].to_vec()));
                    i += len;
                }
            }
            Some((prof, els))
        } else {
            None
        };
        Some(Out {
            video,
            ssrc: u32::from_be_bytes([d[8], d[9], d[10], d[11]]),
            pt: d[1] & 0x7f,
            seq: u16::from_be_bytes([d[2], d[3]]),
            ts: u32::from_be_bytes([d[4], d[5], d[6], d[7]]),
            marker: d[1] & 0x80 != 0,
            ext,
            payload_ok: &d[off..] == payload,
        })
    }

    pub struct Net {
        sink_main: UdpSocket,
        sink_video: UdpSocket,
        dst_main: Arc<UdpSocket>,
        dst_video: Arc<UdpSocket>,
    }

    impl Net {
        pub async fn new() -> Net {
            let n = Net {
                sink_main: UdpSocket::bind("127.0.0.1:0").await.unwrap(),
                sink_video: UdpSocket::bind("127.0.0.1:0").await.unwrap(),
                dst_main: Arc::new(UdpSocket::bind("127.0.0.1:0").await.unwrap()),
                dst_video: Arc::new(UdpSocket::bind("127.0.0.1:0").await.unwrap()),
            };
            n.dst_main.writable().await.unwrap();
            n.dst_video.writable().await.unwrap();
            n
        }
    }

    fn opt<T: std::fmt::Display>(o: &Option<T>) -> String {
        match o { Some(v) => format!("(Some {})", v), None => "None".into() }
    }
    fn rule_term(r: &Rule) -> String {
        format!("mkRule {} {} {} {} {} {}", opt(&r.m_pt), opt(&r.fixed), r.off, opt(&r.out_pt), opt(&r.mid_id),
            opt_term(r.mid.as_ref().map(|m| bytes_term(m.as_bytes()))))
    }
    fn ext_term(e: &Option<(u16, Vec<(u8, Vec<u8>)>)>) -> String {
        match e { Some((p, els)) => format!("(Some ({}, {}))", p, elems_term(els)), None => "None".into() }
    }
    fn in_ext(e: &Option<Ext>) -> Option<(u16, Vec<(u8, Vec<u8>)>)> {
        e.as_ref().map(|e| (if e.two_byte { 0x1000 } else { 0xBEDE }, e.elems.clone()))
    }
    fn cfg_term(c: &Cfg) -> String {
        format!("mkBridge (mkOpts {} (Some {}) (Some {}) {}) {} {} {} []", bool_term(c.strip), c.init_seq, c.init_off, opt(&c.init_out_ts),
            list_term(&c.rules.iter().map(rule_term).collect::<Vec<_>>()), bytes_term(&c.video_pts), bool_term(c.has_video))
    }
    fn in_term(i: &In) -> String {
        format!("mkBin (mkBPkt {} {} {} {} {} {}) 0 0", i.ssrc, i.pt, i.seq, i.ts, bool_term(i.marker), ext_term(&in_ext(&i.ext)))
    }
    fn out_term(o: &Option<Out>) -> String {
        match o {
            Some(o) => format!("(Some ({}, mkBPkt {} {} {} {} {} {}))", bool_term(o.video), o.ssrc, o.pt, o.seq, o.ts, bool_term(o.marker), ext_term(&o.ext)),
            None => "None".into(),
        }
    }

    async fn run_impl(net: &Net, c: &Cfg, ins: &[In]) -> (Vec<Option<Out>>, Option<String>) {
        use futures::FutureExt;
        use std::panic::AssertUnwindSafe as Aus;
        let mut panicked: Option<String> = None;
        let (_tx0, rx0) = watch::channel(None::<IceSocketWrapper>);
        let src = RtpTransport::new(IceConn::new(rx0, "127.0.0.1:9".parse().unwrap(), None), false);
        let (_tx1, rx1) = watch::channel(Some(IceSocketWrapper::Udp(net.dst_main.clone())));
        let main = Arc::new(RtpTransport::new(IceConn::new(rx1, net.sink_main.local_addr().unwrap(), None), false));
        let (_tx2, rx2) = watch::channel(Some(IceSocketWrapper::Udp(net.dst_video.clone())));
        let video = Arc::new(RtpTransport::new(IceConn::new(rx2, net.sink_video.local_addr().unwrap(), None), false));
        let install = catch(Aus(|| {
            if let Some((off, fixed, pt, dtmf)) = c.legacy {
                src.bridge_rewrite_to(main.clone(), RtpRewriteBridgeParams {
                    ssrc_offset: off, fixed_out_ssrc: fixed, payload_type: pt, dtmf_payload_type: dtmf,
                    initial_sequence_number: Some(c.init_seq), initial_timestamp_offset: Some(c.init_off), strip_extensions: c.strip });
            } else {
                let rules: Vec<RtpRewriteRule> = c.rules.iter().map(|r| RtpRewriteRule {
                    match_payload_type: r.m_pt, fixed_out_ssrc: r.fixed, ssrc_offset: r.off, out_payload_type: r.out_pt,
                    sdes_mid_extension_id: r.mid_id, sdes_mid: r.mid.clone() }).collect();
                let opts = RtpRewriteBridgeOptions { strip_extensions: c.strip, initial_sequence_number: Some(c.init_seq),
                    initial_timestamp_offset: Some(c.init_off), initial_output_timestamp: c.init_out_ts };
                src.bridge_rewrite_rules_to_with_video(main.clone(), if c.has_video { Some(video.clone()) } else { None },
                    c.video_pts.iter().copied().collect::<HashSet<u8>>(), opts, rules);
            }
        }));
        if let Err(m) = install { panicked = Some(format!("installing the bridge panicked: {}", m)); }
        let from: SocketAddr = "127.0.0.1:5000".parse().unwrap();
        let mut buf = Vec::with_capacity(1500);
        let mut outs = vec![];
        let mut rb = [0u8; 2048];
        let mut rb2 = [0u8; 2048];
        for (k, i) in ins.iter().enumerate() {
            let payload = [k as u8, 0xAB, (k >> 8) as u8, 0xCD, 1, 2, 3];
            let wire = build_rtp(i.ssrc, i.pt, i.seq, i.ts, i.marker, &i.ext, &payload);
            if let Err(e) = Aus(src.receive(Bytes::from(wire), from, &mut buf)).catch_unwind().await {
                panicked.get_or_insert(format!("packet {}: receive (rewrite bridge) panicked: {}", k, panic_msg(e)));
            }
            let got = tokio::time::timeout(std::time::Duration::from_millis(500), async {
                tokio::select! {
                    r = net.sink_main.recv_from(&mut rb) => r.ok().map(|(n, _)| (false, rb[..n].to_vec())),
                    r = net.sink_video.recv_from(&mut rb2) => r.ok().map(|(n, _)| (true, rb2[..n].to_vec())),
                }
            }).await;
            outs.push(match got { Ok(Some((v, d))) => parse_wire(v, &d, &payload), _ => None });
        }
        (outs, panicked)
    }

    // -------------------------------------------------------------------------- direct oracle
    // From the property text, on the implementation's own output sequence: per source SSRC one
    // constant output SSRC; payload type = the matched rule's; sequence numbers consecutive in
    // arrival order (mod 2^16) starting at the configured seed; timestamps keep the source
    // difference between consecutive arrivals unless the arrival is a forward jump beyond 900000
    // ticks from the newest (non-backward) earlier arrival, where the output advances by exactly
    // 3000 from that arrival's output; all of it per source, whatever is interleaved.
    fn oracle(c: &Cfg, ins: &[In], outs: &[Option<Out>]) -> Option<String> {
        struct S { out_ssrc: u32, next_seq: u16, prev_in: u32, prev_out: u32, anchor_in: u32, anchor_out: u32 }
        let mut st: HashMap<u32, S> = HashMap::new();
        for (k, (i, o)) in ins.iter().zip(outs.iter()).enumerate() {
            let Some(o) = o else { return Some(format!("packet {}: nothing (or an unparseable datagram) was forwarded", k)); };
            if !o.payload_ok { return Some(format!("packet {}: payload altered", k)); }
            let want_video = c.has_video && c.video_pts.contains(&i.pt);
            if o.video != want_video { return Some(format!("packet {}: forwarded to the {} target", k, if o.video { "video" } else { "main" })); }
            let rule = c.rules.iter().find(|r| r.m_pt == Some(i.pt)).or_else(|| c.rules.iter().find(|r| r.m_pt.is_none()));
            let want_pt = rule.and_then(|r| r.out_pt).unwrap_or(i.pt) & 0x7f;
            if o.pt != want_pt { return Some(format!("packet {}: payload type {} but the matched rule says {}", k, o.pt, want_pt)); }
            match st.get_mut(&i.ssrc) {
                None => {
                    let want_ssrc = match rule { Some(r) => r.fixed.unwrap_or(i.ssrc.wrapping_add(r.off)), None => i.ssrc };
                    if o.ssrc != want_ssrc { return Some(format!("packet {}: first output SSRC {} but the rule gives {}", k, o.ssrc, want_ssrc)); }
                    if o.seq != c.init_seq { return Some(format!("packet {}: first sequence number {} is not the configured {}", k, o.seq, c.init_seq)); }
                    let want_ts = c.init_out_ts.unwrap_or(i.ts.wrapping_add(c.init_off));
                    if o.ts != want_ts { return Some(format!("packet {}: first timestamp {} expected {}", k, o.ts, want_ts)); }
                    st.insert(i.ssrc, S { out_ssrc: o.ssrc, next_seq: o.seq.wrapping_add(1), prev_in: i.ts, prev_out: o.ts, anchor_in: i.ts, anchor_out: o.ts });
                }
                Some(s) => {
                    if o.ssrc != s.out_ssrc { return Some(format!("packet {}: output SSRC changed from {} to {} within source {}", k, s.out_ssrc, o.ssrc, i.ssrc)); }
                    if o.seq != s.next_seq { return Some(format!("packet {}: sequence number {} is not consecutive (expected {})", k, o.seq, s.next_seq)); }
                    s.next_seq = s.next_seq.wrapping_add(1);
                    let d = i.ts.wrapping_sub(s.anchor_in);
                    if d < 0x8000_0000 && d > 900_000 {
                        if o.ts != s.anchor_out.wrapping_add(3000) {
                            return Some(format!("packet {}: discontinuity (+{} ticks) must advance the output by 3000 from {}, got {}", k, d, s.anchor_out, o.ts));
                        }
                    } else if o.ts.wrapping_sub(s.prev_out) != i.ts.wrapping_sub(s.prev_in) {
                        return Some(format!("packet {}: output timestamp difference {} differs from source difference {}", k,
                            o.ts.wrapping_sub(s.prev_out), i.ts.wrapping_sub(s.prev_in)));
                    }
                    if d < 0x8000_0000 { s.anchor_in = i.ts; s.anchor_out = o.ts; }
                    s.prev_in = i.ts;
                    s.prev_out = o.ts;
                }
            }
            // extensions: stripped, or MID stamped for the matched rule
            if c.strip {
                if o.ext.is_some() { return Some(format!("packet {}: extensions not stripped", k)); }
            } else if let Some(r) = rule {
                if let (Some(id), Some(mid)) = (r.mid_id, &r.mid) {
                    let legal = (1..15).contains(&id) && (1..=16).contains(&mid.len());
                    let bede = i.ext.as_ref().map(|e| !e.two_byte).unwrap_or(true);
                    if legal && bede {
                        let got = o.ext.as_ref().and_then(|(_, els)| els.iter().find(|(x, _)| *x == id).map(|(_, d)| d.clone()));
                        if got.as_deref() != Some(mid.as_bytes()) { return Some(format!("packet {}: MID extension {} not stamped with {:?}", k, id, mid)); }
                    }
                }
            }
        }
        None
    }

    // -------------------------------------------------------------------------- generators
    fn gen_cfg(r: &mut Rng) -> Cfg {
        let strip = r.chance(1, 6);
        let init_seq = *r.pick(&[0u16, 1, 100, 32000, 65533, 65534, 65535]);
        let init_off = *r.pick(&[0u32, 12345, 0x7FFF_FFFF, 0x8000_0000, 0xFFFF_F000, 0xFFFF_FFFF]);
        let init_out_ts = if r.chance(1, 4) { Some(*r.pick(&[0u32, 50_000, 0xFFFF_FF00])) } else { None };
        if r.chance(1, 5) {
            let off = *r.pick(&[0u32, 900, 0xFFFF_FFFF]);
            let fixed = if r.chance(1, 2) { Some(*r.pick(&[0xABCDu32, 7])) } else { None };
            let pt = if r.chance(2, 3) { Some(*r.pick(&[96u8, 0, 8])) } else { None };
            let dtmf = if r.chance(1, 2) { Some((101u8, *r.pick(&[110u8, 101]))) } else { None };
            let mut rules = vec![Rule { m_pt: None, fixed, off, out_pt: pt, mid_id: None, mid: None }];
            if let Some((s, d)) = dtmf { rules.push(Rule { m_pt: Some(s), fixed, off, out_pt: Some(d), mid_id: None, mid: None }); }
            return Cfg { strip, init_seq, init_off, init_out_ts: None, rules, video_pts: vec![], has_video: false, legacy: Some((off, fixed, pt, dtmf)) };
        }
        let nrules = r.range(0, 4);
        let mut rules = vec![];
        for _ in 0..nrules {
            let m_pt = if r.chance(1, 3) { None } else { Some(*r.pick(&[0u8, 98, 99, 101, 127])) };
            let fixed = if r.chance(1, 2) { Some(*r.pick(&[111u32, 222, 0xFFFF_FFFF])) } else { None };
            let off = *r.pick(&[0u32, 900, 0xFFFF_FFFF, 0x8000_0000]);
            let out_pt = if r.chance(2, 3) { Some(*r.pick(&[96u8, 102, 110, 127, 0])) } else { None };
            let (mid_id, mid) = match r.below(6) {
                0 => (Some(*r.pick(&[1u8, 3, 14])), Some(r.pick(&["0", "1", "audio", "0123456789abcdef"]).to_string())),
                1 => (Some(*r.pick(&[0u8, 15, 200])), Some("0".to_string())),          // illegal id: ignored
                2 => (Some(3u8), Some(r.pick(&["", "0123456789abcdefg"]).to_string())), // illegal length: ignored
                3 => (Some(3u8), None),
                _ => (None, None),
            };
            rules.push(Rule { m_pt, fixed, off, out_pt, mid_id, mid });
        }
        let video_pts: Vec<u8> = if r.chance(1, 2) { vec![98, 99] } else { vec![] };
        let has_video = r.chance(1, 2);
        Cfg { strip, init_seq, init_off, init_out_ts, rules, video_pts, has_video, legacy: None }
    }

    fn gen_ins(r: &mut Rng, n: usize, stats: &mut BTreeMap<String, u64>) -> Vec<In> {
        let nsrc = r.range(1, 3) as usize;
        let ssrcs: Vec<u32> = (0..nsrc).map(|k| r.pick(&[1u32, 100, 0xFFFF_FFFF, 0x8000_0000, 4242]).wrapping_add(k as u32 * 7)).collect();
        let mut ts: Vec<u32> = (0..nsrc).map(|_| *r.pick(&[0u32, 1000, 0xFFFF_FF00, 0x7FFF_FFF0, 900_000])).collect();
        let mut out = vec![];
        for _ in 0..n {
            let s = r.below(nsrc as u64) as usize;
            // timestamp steps aimed at the branch boundaries of rewrite_packet
            let (name, step): (&str, u32) = match r.below(16) {
                0..=4 => ("ts+160", 160),
                5 => ("ts+0", 0),
                6 => ("ts+900000", 900_000),
                7 => ("ts+900001", 900_001),
                8 => ("ts+899999", 899_999),
                9 => ("ts+2^31-1", 0x7FFF_FFFF),
                10 => ("ts+2^31", 0x8000_0000),
                11 => ("ts+2^31+1", 0x8000_0001),
                12 => ("ts-160", 0u32.wrapping_sub(160)),
                13 => ("ts-1", 0xFFFF_FFFF),
                14 => ("ts-900001", 0u32.wrapping_sub(900_001)),
                _ => ("ts+random", r.next() as u32),
            };
            *stats.entry(name.into()).or_default() += 1;
            ts[s] = ts[s].wrapping_add(step);
            let ext = match r.below(6) {
                0 | 1 | 2 => None,
                3 => Some(Ext { two_byte: false, elems: vec![] }),
                4 => {
                    let n = r.range(1, 3);
                    let mut elems = vec![];
                    for _ in 0..n {
                        let id = *r.pick(&[1u8, 2, 3, 14]);
                        let len = r.range(1, 5) as usize;
                        elems.push((id, r.bytes(len)));
                    }
                    Some(Ext { two_byte: false, elems })
                }
                _ => {
                    let id = *r.pick(&[1u8, 3, 200]);
                    let len = r.range(0, 4) as usize;
                    Some(Ext { two_byte: true, elems: vec![(id, r.bytes(len))] })
                }
            };
            out.push(In { ssrc: ssrcs[s], pt: *r.pick(&[0u8, 0, 98, 99, 101, 127, 8]), seq: r.next() as u16, ts: ts[s], marker: r.chance(1, 5), ext });
        }
        out
    }

    fn corpus() -> Vec<(Cfg, Vec<In>)> {
        let p = |ssrc: u32, pt: u8, ts: u32| In { ssrc, pt, seq: 7, ts, marker: false, ext: None };
        let base = Cfg { strip: false, init_seq: 65535, init_off: 0xFFFF_FED8, init_out_ts: None,
            rules: vec![Rule { m_pt: None, fixed: Some(111), off: 0, out_pt: Some(96), mid_id: None, mid: None },
                        Rule { m_pt: Some(98), fixed: Some(222), off: 0, out_pt: Some(102), mid_id: Some(3), mid: Some("1".into()) }],
            video_pts: vec![98], has_video: true, legacy: None };
        vec![
            // the Example of Proofs/BridgeProofs.v: interleaving, sequence wrap, +900001 re-base, +900000 and backward kept
            (base.clone(), vec![p(1, 0, 1000), p(2, 98, 50), p(1, 0, 901_000), p(1, 0, 900_000), p(2, 98, 900_051), p(1, 0, 1_801_001)]),
            // backward packet, then a jump measured from the anchor (not from the backward packet)
            (base.clone(), vec![p(1, 0, 1000), p(1, 0, 500), p(1, 0, 901_001), p(1, 0, 901_161)]),
            // pinned first output timestamp + marker; unit test values
            (Cfg { init_seq: 100, init_off: 999_999, init_out_ts: Some(50_000), rules: vec![Rule { m_pt: None, fixed: Some(0xABCD), off: 0, out_pt: None, mid_id: None, mid: None }],
                   video_pts: vec![], has_video: false, ..base.clone() }, vec![p(1, 0, 10_000), p(1, 0, 10_160)]),
            // no matching rule: SSRC and PT pass through, still re-sequenced
            (Cfg { rules: vec![Rule { m_pt: Some(98), fixed: Some(222), off: 0, out_pt: Some(102), mid_id: None, mid: None }], ..base.clone() },
             vec![p(2222, 98, 2222), p(1111, 97, 1111), p(1111, 97, 1271)]),
            // one source SSRC changing payload type across rules keeps the output SSRC of its first packet
            (base.clone(), vec![p(5, 0, 0), p(5, 98, 160), p(5, 0, 320)]),
            // legacy params with DTMF remap
            (Cfg { init_seq: 32000, init_off: 12345, rules: vec![Rule { m_pt: None, fixed: None, off: 900, out_pt: Some(96), mid_id: None, mid: None },
                    Rule { m_pt: Some(101), fixed: None, off: 900, out_pt: Some(110), mid_id: None, mid: None }],
                   video_pts: vec![], has_video: false, legacy: Some((900, None, Some(96), Some((101, 110)))), ..base.clone() },
             vec![p(1111, 100, 1111), p(1111, 101, 1111), p(0xFFFF_FFFF, 100, 5)]),
            // a DTMF digit in the middle of a call (legacy params): one output SSRC, consecutive sequence numbers
            (Cfg { init_seq: 65533, init_off: 0, rules: vec![Rule { m_pt: None, fixed: Some(0xABCD), off: 0, out_pt: Some(0), mid_id: None, mid: None },
                    Rule { m_pt: Some(101), fixed: Some(0xABCD), off: 0, out_pt: Some(110), mid_id: None, mid: None }],
                   video_pts: vec![], has_video: false, legacy: Some((0, Some(0xABCD), Some(0), Some((101, 110)))), ..base.clone() },
             vec![p(7, 0, 160), p(7, 0, 320), p(7, 101, 480), p(7, 101, 480), p(7, 0, 640), p(7, 101, 800), p(7, 0, 960)]),
            // straggler 1000000 ticks late, then the next in-order packet: difference to the in-order stream kept
            (base.clone(), vec![p(1, 0, 2_000_000), p(1, 0, 2_000_160), p(1, 0, 1_000_160), p(1, 0, 2_000_320), p(1, 0, 2_000_480)]),
            // the same across the 32-bit wrap: newest just after the wrap, straggler from before it
            (base.clone(), vec![p(1, 0, 0xFFFF_FF60), p(1, 0, 0), p(1, 0, 160), p(1, 0, 160u32.wrapping_sub(1_000_000)), p(1, 0, 320), p(1, 0, 480)]),
            // MID stamping into an existing one-byte block (replace and append), two-byte block untouched
            (base.clone(), vec![
                In { ssrc: 9, pt: 98, seq: 1, ts: 0, marker: true, ext: Some(Ext { two_byte: false, elems: vec![(3, b"zz".to_vec()), (2, vec![1, 2, 3])] }) },
                In { ssrc: 9, pt: 98, seq: 2, ts: 160, marker: false, ext: Some(Ext { two_byte: false, elems: vec![(2, vec![9])] }) },
                In { ssrc: 9, pt: 98, seq: 3, ts: 320, marker: false, ext: Some(Ext { two_byte: true, elems: vec![(3, vec![9])] }) }]),
        ]
    }

    /// one source SSRC whose packets alternate between payload types that match DIFFERENT rules
    /// (audio + RFC 4733 telephone-event, with equal or different rule SSRCs), optionally with a
    /// second source interleaved: still one output SSRC and consecutive sequence numbers
    fn gen_pt_switch(r: &mut Rng) -> (Cfg, Vec<In>) {
        let same_ssrc = r.chance(1, 2);
        let legacy = r.chance(1, 3);
        let fixed = if r.chance(2, 3) { Some(*r.pick(&[111u32, 0xABCD])) } else { None };
        let off = *r.pick(&[0u32, 900]);
        let dtmf_out = *r.pick(&[110u8, 101]);
        let audio_out = if r.chance(2, 3) { Some(*r.pick(&[96u8, 0])) } else { None };
        let mut rules = vec![Rule { m_pt: None, fixed, off, out_pt: audio_out, mid_id: None, mid: None },
                             Rule { m_pt: Some(101), fixed: if same_ssrc || legacy { fixed } else { Some(222) }, off, out_pt: Some(dtmf_out), mid_id: None, mid: None }];
        if !legacy && r.chance(1, 2) { rules.push(Rule { m_pt: Some(8), fixed: Some(333), off: 0, out_pt: Some(9), mid_id: None, mid: None }); }
        let c = Cfg { strip: r.chance(1, 5), init_seq: *r.pick(&[65533u16, 65534, 0, 32000]), init_off: *r.pick(&[0u32, 12345, 0xFFFF_FF00]),
            init_out_ts: None, rules, video_pts: vec![], has_video: false,
            legacy: if legacy { Some((off, fixed, audio_out, Some((101, dtmf_out)))) } else { None } };
        let n = r.range(4, 12);
        let two = r.chance(1, 3);
        let mut ts = [*r.pick(&[0u32, 0xFFFF_FE00, 1000]), 5000u32];
        let mut ins = vec![];
        for k in 0..n {
            let s = if two && r.chance(1, 3) { 1 } else { 0 };
            ts[s] = ts[s].wrapping_add(160);
            let pt = if s == 1 { 0 } else if k % 2 == 1 || r.chance(1, 4) { *r.pick(&[101u8, 101, 8]) } else { 0 };
            ins.push(In { ssrc: 4000 + s as u32, pt, seq: k as u16, ts: ts[s], marker: pt == 101 && r.chance(1, 3), ext: None });
        }
        (c, ins)
    }

    /// in-order stream, then a straggler more than 900000 ticks (and less than 2^31) older than the
    /// newest packet, then the next in-order packet -- also with the newest packet just after the
    /// 32-bit timestamp wrap and the straggler from before it.  The straggler must not move the
    /// reference: the in-order packets keep their source differences.
    fn gen_straggler(r: &mut Rng) -> (Cfg, Vec<In>) {
        let c = Cfg { strip: false, init_seq: *r.pick(&[7u16, 65535]), init_off: *r.pick(&[0u32, 0x8000_0000, 0xFFFF_FFF0]), init_out_ts: if r.chance(1, 4) { Some(50_000) } else { None },
            rules: if r.chance(1, 2) { vec![Rule { m_pt: None, fixed: Some(111), off: 0, out_pt: Some(96), mid_id: None, mid: None }] } else { vec![] },
            video_pts: vec![], has_video: false, legacy: None };
        let start = *r.pick(&[2_000_000u32, 0xFFFF_FF00, 0xFFFF_FFFF, 0u32.wrapping_sub(320), 0x7FFF_FF00, 1_000_000]);
        let behind = *r.pick(&[900_001u32, 900_000, 900_161, 2_000_000, 0x7FFF_FFFF, 0x4000_0000, 899_999, 1_000_000]);
        let mut ins = vec![];
        let mut ts = start;
        let mut seq = 0u16;
        let mut push = |ins: &mut Vec<In>, ssrc: u32, ts: u32| { ins.push(In { ssrc, pt: 0, seq, ts, marker: false, ext: None }); seq = seq.wrapping_add(1); };
        for _ in 0..r.range(1, 3) { push(&mut ins, 6000, ts); ts = ts.wrapping_add(160); }
        let newest = ts.wrapping_sub(160);
        if r.chance(1, 3) { push(&mut ins, 6001, 42); }
        push(&mut ins, 6000, newest.wrapping_sub(behind));            // the straggler
        if r.chance(1, 3) { push(&mut ins, 6000, newest.wrapping_sub(behind).wrapping_add(160)); }   // a second late one
        for _ in 0..r.range(1, 3) { push(&mut ins, 6000, ts); ts = ts.wrapping_add(160); }
        (c, ins)
    }

    pub async fn run(args: &Args, r: &mut Rng, out: &mut super::Out) -> serde_json::Value {
        let net = Net::new().await;
        let thorough = args.tier == "thorough";
        let mut stats: BTreeMap<String, u64> = BTreeMap::new();
        let mut all: Vec<(String, Cfg, Vec<In>)> = corpus().into_iter().map(|(c, i)| ("corpus".to_string(), c, i)).collect();
        let n = if thorough { 12000 } else { 2000 };
        for _ in 0..n {
            let c = gen_cfg(r);
            let len = if thorough { r.range(2, 30) } else { r.range(2, 14) } as usize;
            let ins = gen_ins(r, len, &mut stats);
            all.push(("random".into(), c, ins));
        }
        for _ in 0..(if thorough { 1500 } else { 300 }) {
            let (c, ins) = gen_pt_switch(r);
            all.push(("pt-switch".into(), c, ins));
        }
        for _ in 0..(if thorough { 1500 } else { 300 }) {
            let (c, ins) = gen_straggler(r);
            all.push(("straggler".into(), c, ins));
        }
        // sequence-number wrap-around over a long single stream
        let c = Cfg { strip: false, init_seq: 65000, init_off: 0, init_out_ts: None, rules: vec![], video_pts: vec![], has_video: false, legacy: None };
        all.push(("long".into(), c, (0..700u32).map(|k| In { ssrc: 77, pt: 0, seq: k as u16, ts: k * 160, marker: false, ext: None }).collect()));
        let mut rebases = 0u64;
        let mut pkts = 0u64;
        for (kind, c, ins) in all {
            let (outs, panicked) = run_impl(&net, &c, &ins).await;
            let fail = panicked.or_else(|| oracle(&c, &ins, &outs));
            pkts += ins.len() as u64;
            let term = format!("BridgeCase ({}) {} {}", cfg_term(&c), list_term(&ins.iter().map(in_term).collect::<Vec<_>>()),
                list_term(&outs.iter().map(out_term).collect::<Vec<_>>()));
            let multi = ins.iter().map(|i| i.ssrc).collect::<BTreeSet<_>>().len() > 1;
            if ins.windows(2).any(|w| w[0].ssrc == w[1].ssrc && { let d = w[1].ts.wrapping_sub(w[0].ts); d > 900_000 && d < 0x8000_0000 }) { rebases += 1; }
            out.push(Case {
                term,
                desc: json!({"part": "bridge", "cfg": format!("{:?}", c), "ins": ins.iter().map(|i| json!([i.ssrc, i.pt, i.seq, i.ts, i.marker, format!("{:?}", i.ext)])).collect::<Vec<_>>(),
                    "impl_out": outs.iter().map(|o| format!("{:?}", o)).collect::<Vec<_>>() }),
                oracle_fail: fail,
                known: None,
                nontrivial: ins.len() >= 2 && (multi || !c.rules.is_empty()),
                key: format!("{:?}|{:?}", c, ins),
                kind: format!("bridge-{}", kind),
            });
        }
        json!({"timestamp_steps": stats, "packets": pkts, "cases_with_discontinuity": rebases})
    }
}

// ------------------------------------------------------------------------------ wire format
/// header-extension block of a crafted packet: one-byte (0xBEDE) or two-byte (0x1000) elements
#[derive(Clone, Debug, PartialEq)]
pub struct Ext {
    pub two_byte: bool,
    pub elems: Vec<(u8, Vec<u8>)>,
}

/// RTP packet built byte by byte (independently of rustrtc's marshaller)
pub fn build_rtp(ssrc: u32, pt: u8, seq: u16, ts: u32, marker: bool, ext: &Option<Ext>, payload: &[u8]) -> Vec<u8> {
    let mut p = vec![0x80u8 | if ext.is_some() { 0x10 } else { 0 }, (pt & 0x7f) | if marker { 0x80 } else { 0 }];
    p.extend_from_slice(&seq.to_be_bytes());
    p.extend_from_slice(&ts.to_be_bytes());
    p.extend_from_slice(&ssrc.to_be_bytes());
    if let Some(e) = ext {
        let mut d = vec![];
        for (id, data) in &e.elems {
            if e.two_byte {
                d.push(*id);
                d.push(data.len() as u8);
            } else {
                assert!((1..=14).contains(id) && (1..=16).contains(&data.len()));
                d.push((id << 4) | (data.len() as u8 - 1));
            }
            d.extend_from_slice(data);
        }
        while d.len() % 4 != 0 {
            d.push(0);
        }
        p.extend_from_slice(&(if e.two_byte { 0x1000u16 } else { 0xBEDE }).to_be_bytes());
        p.extend_from_slice(&((d.len() / 4) as u16).to_be_bytes());
        p.extend_from_slice(&d);
    }
    p.extend_from_slice(payload);
    p
}

pub fn elems_term(elems: &[(u8, Vec<u8>)]) -> String {
    list_term(&elems.iter().map(|(id, d)| format!("({}, {})", id, bytes_term(d))).collect::<Vec<_>>())
}

// ------------------------------------------------------------------------------ demux operations
#[derive(Clone, Debug)]
struct Pkt {
    ssrc: u32,
    pt: u8,
    ext: Option<Ext>,
}

#[derive(Clone, Debug)]
enum Op {
    RegSsrc(u32, usize),
    RegRid(String, usize),
    RegMid(String, usize),
    RegPt(u8, usize),
    RegPtList(Vec<u8>, usize),
    RegProv(usize),
    SetRidId(u8),
    SetMidId(u8),
    Close(usize),
    Clear,
    Probe(u32),
    Recv(Pkt),
}

fn key_term(s: &str) -> String {
    bytes_term(s.as_bytes())
}

fn op_term(o: &Op) -> String {
    match o {
        Op::RegSsrc(x, l) => format!("RegSsrc {} {}", x, l),
        Op::RegRid(k, l) => format!("RegRid {} {}", key_term(k), l),
        Op::RegMid(k, l) => format!("RegMid {} {}", key_term(k), l),
        Op::RegPt(pt, l) => format!("RegPt {} {}", pt, l),
        Op::RegPtList(pts, l) => format!("RegPtList {} {}", bytes_term(pts), l),
        Op::RegProv(l) => format!("RegProv {}", l),
        Op::SetRidId(i) => format!("SetRidId {}", i),
        Op::SetMidId(i) => format!("SetMidId {}", i),
        Op::Close(l) => format!("Close {}", l),
        Op::Clear => "ClearListeners".into(),
        Op::Probe(x) => format!("Probe {}", x),
        Op::Recv(p) => format!(
            "Recv (mkPkt {} {} {})",
            p.ssrc,
            p.pt,
            elems_term(p.ext.as_ref().map(|e| e.elems.as_slice()).unwrap_or(&[]))
        ),
    }
}

fn op_json(o: &Op) -> serde_json::Value {
    match o {
        Op::RegSsrc(x, l) => json!({"register_listener_sync": [x, l]}),
        Op::RegRid(k, l) => json!({"register_rid_listener": [k, l]}),
        Op::RegMid(k, l) => json!({"register_mid_listener": [k, l]}),
        Op::RegPt(pt, l) => json!({"register_pt_listener": [pt, l]}),
        Op::RegPtList(pts, l) => json!({"register_payload_list_listener": [pts, l]}),
        Op::RegProv(l) => json!({"register_provisional_listener": l}),
        Op::SetRidId(i) => json!({"set_rid_extension_id": i}),
        Op::SetMidId(i) => json!({"set_sdes_mid_extension_id": i}),
        Op::Close(l) => json!({"drop_receiver_of_listener": l}),
        Op::Clear => json!("clear_listeners"),
        Op::Probe(x) => json!({"has_listener": x}),
        Op::Recv(p) => json!({"recv": {"ssrc": p.ssrc, "pt": p.pt,
            "ext": p.ext.as_ref().map(|e| json!({"two_byte": e.two_byte,
                "elems": e.elems.iter().map(|(i, d)| json!([i, d])).collect::<Vec<_>>() }))}}),
    }
}

/// (listeners that received the packet, has_listener(ssrc) afterwards)
type Obs = (Vec<usize>, bool);

const NL: usize = 5;

struct ImplRun {
    obs: Vec<Obs>,
    /// (operation index, what panicked): a panic in the real code is an observable result
    panics: Vec<(usize, String)>,
    /// has_listener(ssrc) immediately before each Recv (oracle input only)
    bound_before: Vec<bool>,
    payload_mismatch: Option<String>,
}

async fn run_impl(ops: &[Op]) -> ImplRun {
    let (_tx, rx) = watch::channel(None::<IceSocketWrapper>);
    let conn = IceConn::new(rx, "127.0.0.1:1234".parse().unwrap(), None);
    let t = RtpTransport::new(conn, false);
    let mut txs = vec![];
    let mut rxs: Vec<Option<mpsc::Receiver<(RtpPacket, SocketAddr)>>> = vec![];
    for _ in 0..NL {
        let (tx, rx) = mpsc::channel(8);
        txs.push(tx);
        rxs.push(Some(rx));
    }
    let from: SocketAddr = "127.0.0.1:5000".parse().unwrap();
    let mut buf = Vec::new();
    let mut out = ImplRun { obs: vec![], panics: vec![], bound_before: vec![], payload_mismatch: None };
    let mut seq: u16 = 0;
    use futures::FutureExt;
    use std::panic::AssertUnwindSafe as Aus;
    for (oi, o) in ops.iter().enumerate() {
        // every call into the real code runs under catch: a panic is recorded, the case goes on
        let mut guard = |name: &str, r: Result<(), String>, panics: &mut Vec<(usize, String)>| {
            if let Err(m) = r { panics.push((oi, format!("{} panicked: {}", name, m))); }
        };
        match o {
            Op::RegSsrc(x, l) => guard("register_listener_sync", catch(Aus(|| t.register_listener_sync(*x, txs[*l].clone()))), &mut out.panics),
            Op::RegRid(k, l) => guard("register_rid_listener", catch(Aus(|| t.register_rid_listener(k.clone(), txs[*l].clone()))), &mut out.panics),
            Op::RegMid(k, l) => guard("register_mid_listener", catch(Aus(|| t.register_mid_listener(k.clone(), txs[*l].clone()))), &mut out.panics),
            Op::RegPt(pt, l) => guard("register_pt_listener", catch(Aus(|| t.register_pt_listener(*pt, txs[*l].clone()))), &mut out.panics),
            Op::RegPtList(pts, l) => guard("register_payload_list_listener", catch(Aus(|| t.register_payload_list_listener(pts.clone(), txs[*l].clone()))), &mut out.panics),
            Op::RegProv(l) => guard("register_provisional_listener", catch(Aus(|| t.register_provisional_listener(txs[*l].clone()))), &mut out.panics),
            Op::SetRidId(i) => guard("set_rid_extension_id", catch(Aus(|| t.set_rid_extension_id(if *i == 0 { None } else { Some(*i) }))), &mut out.panics),
            Op::SetMidId(i) => guard("set_sdes_mid_extension_id", catch(Aus(|| t.set_sdes_mid_extension_id(if *i == 0 { None } else { Some(*i) }))), &mut out.panics),
            Op::Close(l) => {
                rxs[*l] = None;
            }
            Op::Clear => guard("clear_listeners", catch(Aus(|| { t.clear_listeners(); })), &mut out.panics),
            Op::Probe(x) => match catch(Aus(|| t.has_listener(*x))) {
                Ok(b) => out.obs.push((vec![], b)),
                Err(m) => { out.panics.push((oi, format!("has_listener panicked: {}", m))); out.obs.push((vec![], false)); }
            },
            Op::Recv(p) => {
                seq = seq.wrapping_add(1);
                out.bound_before.push(catch(Aus(|| t.has_listener(p.ssrc))).unwrap_or(false));
                let wire = build_rtp(p.ssrc, p.pt, seq, 1000, false, &p.ext, &[seq as u8; 4]);
                if let Err(e) = Aus(t.receive(Bytes::from(wire), from, &mut buf)).catch_unwind().await {
                    out.panics.push((oi, format!("receive panicked: {}", panic_msg(e))));
                }
                let mut got = vec![];
                for (i, r) in rxs.iter_mut().enumerate() {
                    if let Some(r) = r {
                        while let Ok((pk, a)) = r.try_recv() {
                            got.push(i);
                            if pk.header.ssrc != p.ssrc || pk.header.payload_type != (p.pt & 0x7f)
                                || pk.header.sequence_number != seq || a != from
                            {
                                out.payload_mismatch = Some(format!(
                                    "listener {} received a packet that is not the one just sent (ssrc {} pt {} seq {})",
                                    i, pk.header.ssrc, pk.header.payload_type, pk.header.sequence_number));
                            }
                        }
                    }
                }
                out.obs.push((got, catch(Aus(|| t.has_listener(p.ssrc))).unwrap_or(false)));
            }
        }
    }
    out
}

pub fn panic_msg(e: Box<dyn std::any::Any + Send>) -> String {
    if let Some(s) = e.downcast_ref::<&str>() { s.to_string() }
    else if let Some(s) = e.downcast_ref::<String>() { s.clone() } else { "panic".into() }
}

// ------------------------------------------------------------------------------ direct oracle
// From the property text: at most one receiver; the receiver is a registered listener; a RID / MID
// naming a registered (open) listener decides; else a known SSRC decides; else an unambiguous
// payload type; ambiguity is dropped (the single provisional listener is the documented
// catch-all and never learns an SSRC).  Independent of the Coq model: it tracks who registered
// what, not the registry's internal maps.
#[derive(Default)]
struct Oracle {
    rid_id: u8,
    mid_id: u8,
    rid_owner: HashMap<Vec<u8>, usize>,
    mid_owner: HashMap<Vec<u8>, usize>,
    ssrc_owner: HashMap<u32, usize>,
    pts: HashMap<usize, Vec<u8>>,
    prov: BTreeSet<usize>,
    named: BTreeSet<usize>,
    closed: BTreeSet<usize>,
    any_close: bool,
}

fn ext_key(id: u8, p: &Pkt) -> Option<Vec<u8>> {
    if id == 0 {
        return None;
    }
    let e = p.ext.as_ref()?;
    if !e.two_byte && id >= 15 {
        return None;
    }
    let d = e.elems.iter().find(|(i, _)| *i == id)?.1.clone();
    if std::str::from_utf8(&d).is_ok() { Some(d) } else { None }
}

fn oracle(ops: &[Op], run: &ImplRun) -> Option<String> {
    if let Some((i, m)) = run.panics.first() {
        return Some(format!("op {}: {} (a registration / receive call must never panic)", i, m));
    }
    if let Some(m) = &run.payload_mismatch {
        return Some(m.clone());
    }
    let mut o = Oracle::default();
    let mut oi = 0usize;
    let mut ri = 0usize;
    for (i, op) in ops.iter().enumerate() {
        match op {
            Op::RegSsrc(x, l) => { o.ssrc_owner.insert(*x, *l); o.named.insert(*l); }
            Op::RegRid(k, l) => { o.rid_owner.insert(k.as_bytes().to_vec(), *l); o.named.insert(*l); }
            Op::RegMid(k, l) => { o.mid_owner.insert(k.as_bytes().to_vec(), *l); o.named.insert(*l); o.pts.entry(*l).or_default(); }
            Op::RegPt(pt, l) => { let v = o.pts.entry(*l).or_default(); if !v.contains(pt) { v.push(*pt); } o.named.insert(*l); }
            Op::RegPtList(pts, l) => { o.pts.insert(*l, pts.clone()); o.named.insert(*l); }
            Op::RegProv(l) => { o.prov.insert(*l); o.named.insert(*l); o.pts.entry(*l).or_default(); }
            Op::SetRidId(x) => o.rid_id = *x,
            Op::SetMidId(x) => o.mid_id = *x,
            Op::Close(l) => { o.closed.insert(*l); o.any_close = true; }
            Op::Clear => {
                // "Clear all listeners to stop receiving packets": nobody is registered afterwards
                o.rid_owner.clear(); o.mid_owner.clear(); o.ssrc_owner.clear(); o.pts.clear(); o.prov.clear(); o.named.clear();
            }
            Op::Probe(_) => { oi += 1; }
            Op::Recv(p) => {
                let (got, bound_after) = &run.obs[oi];
                let bound_before = run.bound_before[ri];
                oi += 1;
                ri += 1;
                if got.len() > 1 {
                    return Some(format!("op {}: packet delivered to {} listeners {:?}", i, got.len(), got));
                }
                if let Some(d) = got.first() {
                    if !o.named.contains(d) {
                        return Some(format!("op {}: packet delivered to listener {} which is not registered (never registered, or cleared by clear_listeners)", i, d));
                    }
                }
                let rid = ext_key(o.rid_id, p);
                let mid = ext_key(o.mid_id, p);
                let rid_own = rid.as_ref().and_then(|k| o.rid_owner.get(k).copied());
                let mid_own = mid.as_ref().and_then(|k| o.mid_owner.get(k).copied());
                if let Some(l) = rid_own {
                    if !o.closed.contains(&l) {
                        if got != &vec![l] {
                            return Some(format!("op {}: RID names open listener {} but the packet went to {:?}", i, l, got));
                        }
                        o.ssrc_owner.insert(p.ssrc, l);
                    } else {
                        o.ssrc_owner.remove(&p.ssrc);
                    }
                    continue;
                }
                if let Some(l) = mid_own {
                    if !o.closed.contains(&l) {
                        if got != &vec![l] {
                            return Some(format!("op {}: MID names open listener {} (a registered media section) but the packet went to {:?}", i, l, got));
                        }
                        o.ssrc_owner.insert(p.ssrc, l);
                    } else {
                        o.ssrc_owner.remove(&p.ssrc);
                    }
                    continue;
                }
                // no RID / MID names anybody and the SSRC is unbound: only the payload type (or the
                // provisional catch-all) can route this packet, so whoever gets it must have claimed
                // the payload type itself or be provisional.  An open listener's own registrations
                // are never pruned, so this holds with closed listeners around as well.
                if !bound_before && !o.ssrc_owner.contains_key(&p.ssrc) {
                    if let Some(d) = got.first() {
                        let claims = o.pts.get(d).map(|v| v.contains(&(p.pt & 0x7f))).unwrap_or(false);
                        if !claims && !o.prov.contains(d) {
                            return Some(format!("op {}: unbound SSRC {}, no RID/MID: payload type {} was never registered by listener {} (its list: {:?}) and it is not provisional, yet it received the packet (claimed by {:?})",
                                i, p.ssrc, p.pt, d, o.pts.get(d), o.pts.iter().filter(|(_, v)| v.contains(&(p.pt & 0x7f))).map(|(l, _)| *l).collect::<Vec<_>>()));
                        }
                        // a claimant that is open and alone among ALL listeners ever named (closed ones
                        // included) must get it: a closed stranger that does not list the PT cannot make it ambiguous
                    } else {
                        let claim: Vec<usize> = o.pts.iter().filter(|(_, v)| v.contains(&(p.pt & 0x7f))).map(|(l, _)| *l).collect();
                        if claim.len() == 1 && !o.closed.contains(&claim[0]) && o.any_close {
                            return Some(format!("op {}: payload type {} is claimed by open listener {} only (no closed listener lists it) but the packet was dropped", i, p.pt, claim[0]));
                        }
                    }
                }
                if o.any_close {
                    // closed listeners are pruned lazily; which of THEIR registrations are still in force
                    // is not determined by the property text -- only the checks above apply
                    if let Some(d) = got.first() { if *bound_after { o.ssrc_owner.insert(p.ssrc, *d); } }
                    continue;
                }
                if let Some(l) = o.ssrc_owner.get(&p.ssrc).copied() {
                    if got != &vec![l] {
                        return Some(format!("op {}: SSRC {} is known to belong to listener {} but the packet went to {:?}", i, p.ssrc, l, got));
                    }
                    continue;
                }
                if bound_before {
                    return Some(format!("op {}: has_listener({}) is true although nothing registered or identified that SSRC", i, p.ssrc));
                }
                let claim: Vec<usize> = o.pts.iter().filter(|(_, v)| v.contains(&(p.pt & 0x7f))).map(|(l, _)| *l).collect();
                if claim.len() == 1 {
                    if got != &vec![claim[0]] {
                        return Some(format!("op {}: payload type {} belongs to listener {} only but the packet went to {:?}", i, p.pt, claim[0], got));
                    }
                    if !*bound_after {
                        return Some(format!("op {}: unique payload-type evidence did not bind SSRC {}", i, p.ssrc));
                    }
                    o.ssrc_owner.insert(p.ssrc, claim[0]);
                    continue;
                }
                // ambiguous or unknown payload type: only the single provisional listener may get it
                if o.prov.len() == 1 {
                    let l = *o.prov.iter().next().unwrap();
                    if got != &vec![l] {
                        return Some(format!("op {}: only the single provisional listener {} may receive this packet, went to {:?}", i, l, got));
                    }
                } else if !got.is_empty() {
                    return Some(format!("op {}: payload type {} is claimed by {:?} and there are {} provisional listeners: the packet must be dropped, went to {:?}",
                        i, p.pt, claim, o.prov.len(), got));
                }
                if *bound_after {
                    return Some(format!("op {}: SSRC {} was bound although only the provisional fallback (or nothing) matched", i, p.ssrc));
                }
            }
        }
    }
    None
}

// ------------------------------------------------------------------------------ generators
const KEYS: &[&str] = &["0", "1", "a", "hi", "é", ""];

fn gen_ext(r: &mut Rng, rid_id: u8, mid_id: u8, stats: &mut BTreeMap<String, u64>) -> Option<Ext> {
    if r.chance(1, 4) {
        *stats.entry("pkt_no_ext".into()).or_default() += 1;
        return None;
    }
    let two = r.chance(1, 5);
    let n = r.range(0, 3);
    let mut elems = vec![];
    for _ in 0..n {
        let id: u8 = if two {
            *r.pick(&[rid_id, mid_id, 1, 2, 3, 15, 200])
        } else {
            *r.pick(&[rid_id, mid_id, 1, 2, 3, 14])
        };
        let id = if id == 0 { 4 } else { id };
        let id = if !two && id > 14 { 5 } else { id };
        let data: Vec<u8> = match r.below(10) {
            0 => vec![0xff],                       // invalid UTF-8
            1 => vec![0xc3],                       // truncated 2-byte sequence
            2 => vec![0xed, 0xa0, 0x80],           // surrogate: invalid
            3 => vec![0xe2, 0x82, 0xac],           // valid 3-byte
            _ => r.pick(KEYS).as_bytes().to_vec(),
        };
        let data = if data.is_empty() && !two { b"0".to_vec() } else { data };
        elems.push((id, data));
    }
    *stats.entry(if two { "pkt_two_byte_ext" } else { "pkt_one_byte_ext" }.into()).or_default() += 1;
    Some(Ext { two_byte: two, elems })
}

fn gen_case(r: &mut Rng, stats: &mut BTreeMap<String, u64>, long: bool) -> Vec<Op> {
    let nl = r.range(2, NL as u64) as usize;
    let ssrcs: Vec<u32> = vec![1, 2, 3, 0xFFFF_FFFF];
    let pts: Vec<u8> = vec![96, 97, 0, 8, 127];
    let mut rid_id: u8 = *r.pick(&[0u8, 2, 2, 3, 15, 200]);
    let mut mid_id: u8 = *r.pick(&[0u8, 1, 1, 1, 2, 14]);
    let mut ops = vec![];
    if rid_id != 0 || r.chance(1, 2) { ops.push(Op::SetRidId(rid_id)); }
    if mid_id != 0 || r.chance(1, 2) { ops.push(Op::SetMidId(mid_id)); }
    let n = if long { r.range(6, 40) } else { r.range(4, 22) };
    let closes = r.chance(1, 2);
    for step in 0..n {
        let k = r.below(100);
        let l = r.below(nl as u64) as usize;
        // registrations dominate the first third, packets the rest
        let reg_bias = if step * 3 < n { 30 } else { 0 };
        let op = if k < 8 + reg_bias / 3 {
            Op::RegMid(r.pick(KEYS).to_string(), l)
        } else if k < 14 + reg_bias / 2 {
            if r.chance(1, 2) { Op::RegPtList((0..r.range(0, 3)).map(|_| *r.pick(&pts)).collect(), l) } else { Op::RegPt(*r.pick(&pts), l) }
        } else if k < 18 + reg_bias * 2 / 3 {
            Op::RegProv(l)
        } else if k < 22 + reg_bias * 5 / 6 {
            Op::RegRid(r.pick(KEYS).to_string(), l)
        } else if k < 26 + reg_bias {
            Op::RegSsrc(*r.pick(&ssrcs), l)
        } else if k < 28 + reg_bias {
            if r.chance(1, 2) { rid_id = *r.pick(&[0u8, 1, 2, 3]); Op::SetRidId(rid_id) } else { mid_id = *r.pick(&[0u8, 1, 2, 3]); Op::SetMidId(mid_id) }
        } else if k < 33 + reg_bias {
            if closes { Op::Close(l) } else { Op::Probe(*r.pick(&ssrcs)) }
        } else if k < 35 + reg_bias {
            Op::Clear
        } else if k < 40 + reg_bias {
            Op::Probe(*r.pick(&ssrcs))
        } else {
            Op::Recv(Pkt { ssrc: *r.pick(&ssrcs), pt: *r.pick(&pts), ext: gen_ext(r, rid_id, mid_id, stats) })
        };
        // after a close, often refresh another listener's route registration on the same sender
        let op = if closes && matches!(ops.last(), Some(Op::Close(_))) && r.chance(1, 2) {
            match r.below(3) {
                0 => Op::RegPtList((0..r.range(1, 3)).map(|_| *r.pick(&pts)).collect(), l),
                1 => Op::RegPt(*r.pick(&pts), l),
                _ => Op::RegMid(r.pick(KEYS).to_string(), l),
            }
        } else { op };
        let name = match &op {
            Op::RegSsrc(..) => "reg_ssrc", Op::RegRid(..) => "reg_rid", Op::RegMid(..) => "reg_mid", Op::RegPt(..) => "reg_pt",
            Op::RegPtList(..) => "reg_pt_list", Op::RegProv(..) => "reg_prov", Op::SetRidId(..) => "set_rid_id",
            Op::SetMidId(..) => "set_mid_id", Op::Close(..) => "close", Op::Clear => "clear", Op::Probe(..) => "probe", Op::Recv(..) => "recv",
        };
        *stats.entry(name.into()).or_default() += 1;
        ops.push(op);
    }
    ops
}

fn mid_ext(id: u8, m: &str) -> Option<Ext> {
    Some(Ext { two_byte: false, elems: vec![(id, m.as_bytes().to_vec())] })
}

fn corpus() -> Vec<Vec<Op>> {
    let p = |ssrc: u32, pt: u8, ext: Option<Ext>| Op::Recv(Pkt { ssrc, pt, ext });
    vec![
        // specific listener isolation (unit test): second SSRC is dropped, not bound
        vec![Op::RegSsrc(100, 0), p(100, 0, None), p(200, 0, None), Op::Probe(200)],
        // provisional listener is promiscuous and never binds
        vec![Op::RegProv(0), p(1111, 0, None), Op::Probe(1111), p(2222, 0, None), p(3333, 8, None)],
        // ambiguous payload type, two provisional listeners: dropped
        vec![Op::RegProv(0), Op::RegPtList(vec![96], 0), Op::RegProv(1), Op::RegPtList(vec![96], 1), p(4444, 96, None), Op::Probe(4444)],
        // MID routes and binds when the payload type is ambiguous; the learnt SSRC then routes alone
        vec![Op::SetMidId(1), Op::RegMid("as".into(), 0), Op::RegPtList(vec![96], 0), Op::RegMid("vs".into(), 1), Op::RegPtList(vec![96], 1),
             p(5555, 96, mid_ext(1, "vs")), p(5555, 96, None), p(7777, 96, None)],
        // MID overrides an existing SSRC mapping and re-binds
        vec![Op::SetMidId(1), Op::RegSsrc(6666, 0), Op::RegMid("as".into(), 0), Op::RegMid("vs".into(), 1),
             p(6666, 96, mid_ext(1, "vs")), p(6666, 96, None)],
        // SSRC learnt from a MID packet later meets another section's payload type: SSRC wins over PT
        vec![Op::SetMidId(1), Op::RegMid("0".into(), 0), Op::RegPtList(vec![111], 0), Op::RegMid("1".into(), 1), Op::RegPtList(vec![96], 1),
             p(9, 111, mid_ext(1, "0")), p(9, 96, None), p(10, 96, None), p(10, 111, None)],
        // RID beats MID; same extension id configured for both
        vec![Op::SetRidId(2), Op::SetMidId(2), Op::RegRid("a".into(), 0), Op::RegMid("a".into(), 1), p(1, 96, mid_ext(2, "a")), p(1, 96, None)],
        // closed listener: selected, observed closed, removed from every map; next packet falls through
        vec![Op::SetMidId(1), Op::RegMid("a".into(), 0), Op::RegPt(96, 0), Op::RegSsrc(1, 0), Op::RegPt(96, 1), Op::Close(0),
             p(1, 96, None), p(1, 96, mid_ext(1, "a")), p(1, 96, None), Op::Probe(1)],
        // a closed MID listener shadows an open SSRC registration of another listener
        vec![Op::SetMidId(1), Op::RegMid("a".into(), 0), Op::RegSsrc(5, 1), Op::Close(0), p(5, 0, mid_ext(1, "a")), Op::Probe(5), p(5, 0, None)],
        // route pruning on registration of a new channel
        vec![Op::RegProv(0), Op::RegPt(96, 1), Op::Close(0), Op::Close(1), Op::RegProv(2), p(1, 96, None), p(1, 0, None)],
        // closed route earlier in `routes`, B refreshes its list on the same sender, C follows: PT 98 is B's alone
        vec![Op::RegPtList(vec![96], 0), Op::RegPtList(vec![97], 1), Op::RegPtList(vec![111], 2), Op::Close(0),
             Op::RegPtList(vec![97, 98], 1), p(31, 98, None), p(32, 111, None), p(33, 97, None)],
        // same with B as the last route (an index computed before pruning would be out of range)
        vec![Op::RegProv(0), Op::RegPtList(vec![97], 1), Op::Close(0), Op::RegPtList(vec![98], 1), p(41, 98, None), Op::RegMid("b".into(), 1), p(42, 98, None)],
        // clear_listeners: nobody is registered afterwards, also not through the MID map
        vec![Op::SetMidId(1), Op::RegMid("a".into(), 0), Op::Clear, p(9, 96, mid_ext(1, "a")), Op::Probe(9)],
        // unregistered MID falls through to the unique payload type of another section (documented limit)
        vec![Op::SetMidId(1), Op::RegMid("a".into(), 0), Op::RegPtList(vec![96], 0), p(9, 96, mid_ext(1, "v"))],
        // invalid UTF-8 in the MID extension is ignored
        vec![Op::SetMidId(1), Op::RegMid("a".into(), 0), Op::RegProv(1), p(9, 96, Some(Ext { two_byte: false, elems: vec![(1, vec![0xff])] }))],
        // two-byte extension form, empty MID value registered
        vec![Op::SetMidId(200), Op::RegMid("".into(), 0), p(9, 96, Some(Ext { two_byte: true, elems: vec![(200, vec![])] }))],
        // register_pt after register_payload_list on the same channel; duplicates in the list
        vec![Op::RegPtList(vec![96, 96, 97], 0), Op::RegPt(97, 0), Op::RegPt(8, 0), Op::RegPtList(vec![8], 1), p(1, 8, None), p(2, 97, None), Op::RegPtList(vec![], 0), p(3, 97, None)],
    ]
}

/// Re-registration next to a closed, still-listed route: X, B, C register route-style (in every
/// order of B relative to X and C), X's receiver is dropped without any packet having been routed to
/// it, B re-registers on the SAME sender with a changed PT list / extra PT / MID / provisional flag,
/// then packets with unbound SSRCs and no RID/MID probe every payload type involved.  B's refresh
/// must land on B: a payload type only B lists must not reach C, C's own must still reach C.
fn stale_route_cases() -> Vec<Vec<Op>> {
    let p = |ssrc: u32, pt: u8| Op::Recv(Pkt { ssrc, pt, ext: None });
    let (x, b, c) = (0usize, 1usize, 2usize);
    let first: Vec<Box<dyn Fn(usize, u8) -> Vec<Op>>> = vec![
        Box::new(|l, pt| vec![Op::RegPtList(vec![pt], l)]),
        Box::new(|l, pt| vec![Op::RegPt(pt, l)]),
        Box::new(|l, pt| vec![Op::RegMid(format!("m{}", l), l), Op::RegPtList(vec![pt], l)]),
        Box::new(|l, pt| vec![Op::RegProv(l), Op::RegPt(pt, l)]),
    ];
    let refresh: Vec<Vec<Op>> = vec![
        vec![Op::RegPtList(vec![98], b)],
        vec![Op::RegPtList(vec![98, 101], b)],
        vec![Op::RegPt(98, b)],
        vec![Op::RegMid("nb".into(), b), Op::RegPtList(vec![98], b)],
        vec![Op::RegProv(b)],
        vec![Op::RegPtList(vec![], b)],
    ];
    let orders: Vec<Vec<usize>> = vec![vec![x, b, c], vec![x, c, b], vec![b, x, c], vec![c, x, b], vec![x, b], vec![b, c, x]];
    let mut v = vec![];
    for (fi, f) in first.iter().enumerate() {
        for rf in &refresh {
            for ord in &orders {
                let mut ops = vec![Op::SetMidId(1)];
                for &l in ord {
                    ops.extend(f(l, [96u8, 97, 111][l]));   // X: 96, B: 97, C: 111
                }
                ops.push(Op::Close(x));
                ops.extend(rf.iter().cloned());
                let mut ssrc = 1000u32;
                for pt in [98u8, 101, 97, 111, 96, 8] {
                    ssrc += 1;
                    ops.push(p(ssrc, pt));
                    ops.push(Op::Probe(ssrc));
                }
                // the refreshed registration keeps working afterwards
                ops.push(Op::RegPt(8, b));
                ops.push(p(2000 + fi as u32, 8));
                v.push(ops);
            }
        }
    }
    v
}

/// exhaustive suffixes over a small alphabet after a fixed two-section prefix
fn alphabet() -> Vec<Op> {
    let p = |ssrc: u32, pt: u8, ext: Option<Ext>| Op::Recv(Pkt { ssrc, pt, ext });
    vec![
        p(1, 96, None), p(2, 96, None), p(1, 111, None), p(2, 8, None),
        p(1, 96, mid_ext(1, "a")), p(2, 96, mid_ext(1, "v")), p(1, 96, mid_ext(1, "x")),
        p(2, 96, Some(Ext { two_byte: false, elems: vec![(2, b"h".to_vec()), (1, b"a".to_vec())] })),
        Op::Close(0), Op::Close(1), Op::RegProv(2), Op::RegSsrc(1, 1), Op::RegMid("a".into(), 2), Op::RegPt(111, 1), Op::Clear,
    ]
}

#[tokio::main(flavor = "current_thread")]
async fn main() {
    let args = parse_args();
    if std::env::var("C19_LOUD").is_err() { silence_panics(); }
    let mut out = Out::new(&args.out);
    let mut r = Rng::new(args.seed);
    let thorough = args.tier == "thorough";
    let mut stats: BTreeMap<String, u64> = BTreeMap::new();
    let mut all: Vec<(String, Vec<Op>)> = vec![];
    for ops in corpus() { all.push(("corpus".into(), ops)); }
    for ops in stale_route_cases() { all.push(("stale-route".into(), ops)); }
    let alpha = alphabet();
    let depth = if thorough { 4 } else { 3 };
    let mut idx = vec![0usize; depth];
    loop {
        let mut ops = vec![Op::SetMidId(1), Op::SetRidId(2), Op::RegMid("a".into(), 0), Op::RegPtList(vec![96, 111], 0),
                           Op::RegMid("v".into(), 1), Op::RegPtList(vec![96], 1), Op::RegRid("h".into(), 1)];
        for &i in &idx { ops.push(alpha[i].clone()); }
        ops.push(Op::Recv(Pkt { ssrc: 1, pt: 96, ext: None }));
        ops.push(Op::Recv(Pkt { ssrc: 2, pt: 111, ext: None }));
        all.push(("exhaustive".into(), ops));
        let mut k = 0;
        loop {
            if k == depth { break; }
            idx[k] += 1;
            if idx[k] < alpha.len() { break; }
            idx[k] = 0;
            k += 1;
        }
        if k == depth { break; }
    }
    let nrand = if thorough { 20000 } else { 2500 };
    for _ in 0..nrand {
        all.push(("random".into(), gen_case(&mut r, &mut stats, thorough)));
    }
    let mut delivered = 0u64;
    let mut dropped = 0u64;
    for (kind, ops) in all {
        let run = run_impl(&ops).await;
        let fail = oracle(&ops, &run);
        let nd = run.obs.iter().filter(|o| !o.0.is_empty()).count() as u64;
        delivered += nd;
        dropped += ops.iter().filter(|o| matches!(o, Op::Recv(_))).count() as u64 - nd;
        let term = format!("DemuxCase {} {}", list_term(&ops.iter().map(op_term).collect::<Vec<_>>()),
            list_term(&run.obs.iter().map(|(g, b)| format!("({}, {})", zlist(g.iter().map(|x| *x as i128)), bool_term(*b))).collect::<Vec<_>>()));
        out.push(Case {
            term,
            desc: json!({"part": "demux", "ops": ops.iter().map(op_json).collect::<Vec<_>>(),
                "impl_obs": run.obs.iter().map(|(g, b)| json!([g, b])).collect::<Vec<_>>() }),
            oracle_fail: fail,
            known: None,
            nontrivial: nd > 0,
            key: format!("{:?}", ops),
            kind: format!("demux-{}", kind),
        });
    }
    let bstats = bridge::run(&args, &mut r, &mut out).await;
    out.finish(json!({"generator": {"demux_op_kinds": stats, "demux_packets_delivered": delivered, "demux_packets_dropped": dropped, "bridge": bstats}}));
}
